"""C15 helper: seeded generator of *deterministic* JAX programs, and the
builder that turns a program spec into a real Python function over jnp / lax.

Two halves:

* generation (``gen_program``) is numpy-only and produces a JSON-able spec with
  its own shape / dtype inference, so the coordinator can plan cases without
  importing jax and a replay file contains the whole program;
* ``build_fn`` (imports jax lazily) interprets a spec.  The SAME function object
  is handed to JAX's AD (the oracle) and to ``genjax.adev.expectation``.

Spec
----
program = {"args": [argtree...], "consts": [constspec...], "body": body,
           "out": {"kind": "float"|"int", "terms": [[id, how]...] | "id": id}}
argtree  = {"k": "leaf", "dt": "f"|"i"|"b", "sh": [...]} | {"k": "py"}  (python float)
         | {"k": "tuple", "items": [...]} | {"k": "dict", "items": {name: argtree}}
body     = {"ins": [[dt, sh, symzero]...], "nodes": [node...], "ret": [ids]}
node     = {"op": name, "in": [ids], "p": {...}, "ty": [dt, sh]}
Value ids inside a body: inputs first (0..len(ins)-1), then one per node.

``symzero`` marks float values whose tangent is a *symbolic zero* under JAX's
own AD (constants, int/bool-derived values, floor/round/sign/stop_gradient
outputs).  Operations with a singular derivative are only ever applied to such
values or behind a guard, so the oracle itself never produces NaN.
"""

from __future__ import annotations

import numpy as np

F, I, B = "f", "i", "b"
MAX_SIZE = 48

ARG_SHAPES = [(), (3,), (4,), (2,), (2, 3), (3, 3), (3, 2), (2, 2), (4, 3), (2, 3, 2), (1, 3), (3, 1), (2, 2, 3)]

# op -> class used in violation keys (mechanism granularity)
UNARY = [
    "sin", "cos", "tanh", "arctan", "erf", "square", "neg", "abs", "exp_b", "log_g", "sqrt_g", "rsqrt_g",
    "recip_g", "cube", "sigmoid", "softplus", "relu_max", "clip", "gelu", "silu", "elu", "log_sigmoid",
    "expm1_b", "logistic", "lax_sin", "lax_exp_b", "ipow4", "log1p_abs",
]
UNARY_ZERO = ["floor", "round", "sign", "stopgrad", "ceil"]
UNARY_CJVP = ["nn_relu", "nn_relu6"]
BINARY = ["add", "sub", "mul", "div_g", "maximum", "minimum", "atan2_g", "pow_g", "lax_mul", "lax_add"]
BINARY_CJVP = ["logaddexp"]
REDUCE = ["sum", "mean", "max", "min", "prod_b", "var", "std_g", "logsumexp", "norm_g", "ptp"]
CUMUL = ["cumsum", "cumprod_b", "cummax"]
LINALG = ["det", "slogdet", "inv", "solve", "chol", "eigvalsh", "svdvals", "qr_r", "lax_chol", "lax_trisolve",
          "matpow2", "lnorm_fro", "trace_g"]
# operation classes that once failed (custom_jvp functions, top_k / sort_kv, multi-output conds, singular derivatives at
# symbolic zeros) were generated at top level only while they were open findings; all are repaired, so they are now
# generated inside cond branches and called / vmapped bodies too
NESTED_FAIL_OPS = True
HAZARD = ["hz_sqrt", "hz_pow", "hz_arcsin", "hz_norm", "hz_iota"]


def op_class(op: str) -> str:
    if op in UNARY or op in UNARY_ZERO or op in BINARY or op.endswith("_lit"):
        return "elementwise"
    if op in UNARY_CJVP or op in BINARY_CJVP:
        return "custom_jvp"
    if op in REDUCE or op in CUMUL or op in ("trace", "any", "all", "count", "argmax", "argmin", "median"):
        return "reduce"
    if op in LINALG:
        return "linalg"
    if op in HAZARD:
        return "singular-at-symbolic-zero"
    if op in ("top_k", "sort_kv"):
        return "multi-result-tuple"
    if op.startswith("cond"):
        return {"cond": "cond", "cond_int": "cond-int-output", "cond_multi": "cond-multi-output",
                "cond_fwd": "cond-output-forwarded-from-operand"}[op]
    if op.startswith("call"):
        return "call-" + op.split("_", 1)[1]
    if op in ("gt", "lt", "ge", "and", "or", "xor", "not", "where", "select", "i_add", "i_addlit", "i_mullit",
              "i_modlit", "i_fdivlit", "arange", "i_gt"):
        return "int-bool"
    if op in ("f2i", "i2f", "b2f", "b2i", "f16_rt", "bf16_rt", "f2i2f"):
        return "convert"
    if op in ("idx", "idx_last", "slice", "slice2", "dyn_idx", "dyn_slice", "dyn_update", "gather", "take_sorted",
              "sort", "at_set", "at_add_idx", "take"):
        return "index"
    if op in ("dot11", "matvec", "vecmat", "matmul", "gram", "gram_t", "bmm", "tensordot", "einsum_quad", "outer",
              "lax_dot_general", "vdot"):
        return "contract"
    return "shape"


def node_class(nd) -> str:
    """``op_class`` refined by structure: a cond all of whose branches return the same operand unchanged is
    simplified by JAX (input-to-output forwarding) into a cond_p equation with no outputs at all."""
    op = nd["op"]
    if op.startswith("cond"):
        t, f = nd["p"]["t"], nd["p"]["f"]
        if len(t["ret"]) == 1 and t["ret"] == f["ret"] and t["ret"][0] < len(t["ins"]):
            return "cond-output-forwarded-from-operand"
    return op_class(op)


def all_classes(body):
    out = []
    for nd in body["nodes"]:
        out.append(node_class(nd))
        for key in ("t", "f", "body"):
            if key in nd["p"]:
                out += all_classes(nd["p"][key])
    return out


# --------------------------------------------------------------------------
# generation
# --------------------------------------------------------------------------


def _size(sh):
    n = 1
    for d in sh:
        n *= d
    return n


def _bshape(a, b):
    """numpy broadcasting of two shapes, or None."""
    out = []
    for i in range(1, max(len(a), len(b)) + 1):
        x = a[-i] if i <= len(a) else 1
        y = b[-i] if i <= len(b) else 1
        if x != y and x != 1 and y != 1:
            return None
        out.append(max(x, y))
    return tuple(reversed(out))


class _Body:
    """Generation-time environment of one function body."""

    def __init__(self, rng, ins, depth, allow_fail_ops):
        self.rng = rng
        self.ins = [[dt, list(sh), bool(sz)] for dt, sh, sz in ins]
        self.vals = [{"id": i, "dt": dt, "sh": tuple(sh), "sz": bool(sz)} for i, (dt, sh, sz) in enumerate(ins)]
        self.nodes = []
        self.used = set()
        self.depth = depth
        self.afo = allow_fail_ops

    # ---- helpers
    def pick(self, pred, prefer_recent=True):
        c = [v for v in self.vals if pred(v)]
        if not c:
            return None
        if prefer_recent and len(c) > 1 and self.rng.random() < 0.5:
            c = c[len(c) // 2:]
        return c[int(self.rng.integers(len(c)))]

    def add(self, op, ins, p, dt, sh, sz):
        sh = tuple(int(d) for d in sh)
        if _size(sh) > MAX_SIZE or len(sh) > 3 or any(d < 1 for d in sh):
            return None
        vid = len(self.vals)
        self.nodes.append({"op": op, "in": [int(v["id"]) for v in ins], "p": p, "ty": [dt, list(sh)]})
        for v in ins:
            self.used.add(v["id"])
        val = {"id": vid, "dt": dt, "sh": sh, "sz": bool(sz)}
        self.vals.append(val)
        return val

    def lit(self):
        return float(self.rng.choice([0.5, -0.5, 1.5, 2.0, -1.25, 0.25, 3.0, -2.0, 0.75]))

    def isf(self, v):
        return v["dt"] == F

    def spec(self, ret):
        return {"ins": self.ins, "nodes": self.nodes, "ret": [int(r) for r in ret]}

    # ---- op families; each returns the new value or None when not applicable
    def g_unary(self):
        x = self.pick(self.isf)
        if x is None:
            return None
        r = self.rng.random()
        if r < 0.10:
            op = str(self.rng.choice(UNARY_ZERO))
            return self.add(op, [x], {}, F, x["sh"], True)
        if r < 0.14 and self.afo:
            op = str(self.rng.choice(UNARY_CJVP))
            return self.add(op, [x], {}, F, x["sh"], x["sz"])
        op = str(self.rng.choice(UNARY))
        return self.add(op, [x], {}, F, x["sh"], x["sz"])

    def g_binary(self):
        x = self.pick(self.isf)
        if x is None:
            return None
        r = self.rng.random()
        if r < 0.3:
            op = str(self.rng.choice(["add_lit", "mul_lit", "rsub_lit", "max_lit", "div_lit"]))
            return self.add(op, [x], {"c": self.lit()}, F, x["sh"], x["sz"])
        if r < 0.34 and self.afo:
            op = "logaddexp"
        else:
            op = str(self.rng.choice(BINARY))
        intok = op in ("add", "mul", "sub")
        y = self.pick(
            lambda v: (v["dt"] == F or (intok and v["dt"] in (I, B) and self.rng.random() < 0.3))
            and _bshape(x["sh"], v["sh"]) is not None
            and v["id"] != x["id"]
        )
        if y is None:
            y = x
        if y["dt"] == B and op == "sub":
            op = "add"
        sh = _bshape(x["sh"], y["sh"])
        ins = [x, y] if self.rng.random() < 0.5 else [y, x]
        sz = x["sz"] and (y["sz"] or y["dt"] != F)
        return self.add(op, ins, {}, F, sh, sz)

    def g_compare(self):
        x = self.pick(self.isf)
        if x is None:
            return None
        if self.rng.random() < 0.5:
            return self.add("gt_lit", [x], {"c": self.lit() * 0.5}, B, x["sh"], True)
        y = self.pick(lambda v: v["dt"] == F and _bshape(x["sh"], v["sh"]) is not None and v["id"] != x["id"])
        if y is None:
            return self.add("gt_lit", [x], {"c": 0.1}, B, x["sh"], True)
        return self.add(str(self.rng.choice(["gt", "lt", "ge"])), [x, y], {}, B, _bshape(x["sh"], y["sh"]), True)

    def g_bool(self):
        x = self.pick(lambda v: v["dt"] == B)
        if x is None:
            return self.g_compare()
        r = self.rng.random()
        if r < 0.2:
            return self.add("not", [x], {}, B, x["sh"], True)
        if r < 0.45:
            return self.add(str(self.rng.choice(["any", "all"])), [x], {}, B, (), True)
        if r < 0.6:
            return self.add("count", [x], {}, I, (), True)
        y = self.pick(lambda v: v["dt"] == B and _bshape(x["sh"], v["sh"]) is not None and v["id"] != x["id"])
        if y is None:
            return self.add("not", [x], {}, B, x["sh"], True)
        return self.add(str(self.rng.choice(["and", "or", "xor"])), [x, y], {}, B, _bshape(x["sh"], y["sh"]), True)

    def g_where(self):
        c = self.pick(lambda v: v["dt"] == B)
        if c is None:
            c = self.g_compare()
            if c is None:
                return None
        x = self.pick(lambda v: v["dt"] == F and _bshape(c["sh"], v["sh"]) is not None)
        if x is None:
            return None
        s1 = _bshape(c["sh"], x["sh"])
        y = self.pick(lambda v: v["dt"] == F and _bshape(s1, v["sh"]) is not None and v["id"] != x["id"])
        if y is None:
            return self.add("where_lit", [c, x], {"c": self.lit()}, F, s1, x["sz"])
        sh = _bshape(s1, y["sh"])
        if x["sh"] == y["sh"] == c["sh"] and self.rng.random() < 0.4:
            return self.add("select", [c, x, y], {}, F, sh, x["sz"] and y["sz"])
        return self.add("where", [c, x, y], {}, F, sh, x["sz"] and y["sz"])

    def g_int(self):
        r = self.rng.random()
        if r < 0.35:
            x = self.pick(lambda v: v["dt"] == F and len(v["sh"]) >= 1)
            if x is None:
                return None
            op = str(self.rng.choice(["argmax", "argmin"]))
            if len(x["sh"]) >= 2 and self.rng.random() < 0.5:
                ax = int(self.rng.integers(len(x["sh"])))
                sh = x["sh"][:ax] + x["sh"][ax + 1:]
                return self.add(op, [x], {"axis": ax}, I, sh, True)
            return self.add(op, [x], {"axis": None}, I, (), True)
        if r < 0.5:
            x = self.pick(self.isf)
            if x is None:
                return None
            return self.add("f2i", [x], {"c": 2.0}, I, x["sh"], True)
        x = self.pick(lambda v: v["dt"] == I)
        if x is None:
            n = int(self.rng.choice([2, 3, 4]))
            return self.add("arange", [], {"n": n}, I, (n,), True)
        if r < 0.75:
            op = str(self.rng.choice(["i_addlit", "i_mullit", "i_modlit", "i_fdivlit"]))
            return self.add(op, [x], {"c": int(self.rng.choice([2, 3]))}, I, x["sh"], True)
        if r < 0.85:
            return self.add("i_gt", [x], {"c": int(self.rng.choice([0, 1, 2]))}, B, x["sh"], True)
        y = self.pick(lambda v: v["dt"] == I and _bshape(x["sh"], v["sh"]) is not None)
        return self.add("i_add", [x, y], {}, I, _bshape(x["sh"], y["sh"]), True)

    def g_convert(self):
        r = self.rng.random()
        if r < 0.35:
            x = self.pick(lambda v: v["dt"] == I)
            if x is not None:
                return self.add("i2f", [x], {}, F, x["sh"], True)
        if r < 0.6:
            x = self.pick(lambda v: v["dt"] == B)
            if x is not None:
                if self.rng.random() < 0.7:
                    return self.add("b2f", [x], {}, F, x["sh"], True)
                return self.add("b2i", [x], {}, I, x["sh"], True)
        x = self.pick(self.isf)
        if x is None:
            return None
        op = str(self.rng.choice(["f16_rt", "bf16_rt", "f2i2f"]))
        return self.add(op, [x], {}, F, x["sh"], x["sz"] or op == "f2i2f")

    def g_index(self):
        r = self.rng.random()
        x = self.pick(lambda v: v["dt"] == F and len(v["sh"]) >= 1)
        if x is None:
            return None
        sh = x["sh"]
        n = sh[0]
        if r < 0.12:
            k = int(self.rng.integers(-n, n))
            return self.add("idx", [x], {"k": k}, F, sh[1:], x["sz"])
        if r < 0.2:
            k = int(self.rng.integers(-sh[-1], sh[-1]))
            return self.add("idx_last", [x], {"k": k}, F, sh[:-1], x["sz"])
        if r < 0.32:
            for _ in range(8):
                a = int(self.rng.integers(-n, n + 1))
                b = int(self.rng.integers(-n, n + 1))
                s = int(self.rng.choice([1, 1, 2, -1, -2]))
                sl = [None if self.rng.random() < 0.3 else a, None if self.rng.random() < 0.3 else b, s]
                m = len(range(*slice(*sl).indices(n)))
                if m >= 1:
                    return self.add("slice", [x], {"sl": sl}, F, (m,) + sh[1:], x["sz"])
            return None
        if r < 0.38 and len(sh) >= 2 and sh[0] >= 2 and sh[1] >= 2:
            a = int(self.rng.integers(0, sh[0] - 1))
            c = int(self.rng.integers(0, sh[1] - 1))
            return self.add("slice2", [x], {"a": a, "c": c}, F, (sh[0] - a, sh[1] - c) + sh[2:], x["sz"])
        if r < 0.56:
            i = self.pick(lambda v: v["dt"] == I and v["sh"] == ())
            if i is None:
                i = self.add("argmax", [x], {"axis": None}, I, (), True)
            rr = self.rng.random()
            if rr < 0.35:
                return self.add("dyn_idx", [x, i], {}, F, sh[1:], x["sz"])
            L = int(self.rng.integers(1, n + 1))
            if rr < 0.7:
                return self.add("dyn_slice", [x, i], {"L": L}, F, (L,) + sh[1:], x["sz"])
            return self.add("dyn_update", [x, i], {"L": L}, F, sh, x["sz"])
        if r < 0.68:
            idx = self.pick(lambda v: v["dt"] == I and len(v["sh"]) == 1)
            if idx is None:
                m = int(self.rng.choice([2, 3, 4]))
                idx = self.add("arange", [], {"n": m}, I, (m,), True)
            if self.rng.random() < 0.6:
                return self.add("gather", [x, idx], {}, F, idx["sh"] + sh[1:], x["sz"])
            return self.add("at_add_idx", [x, idx], {"c": self.lit()}, F, sh, x["sz"])
        if r < 0.76:
            return self.add(str(self.rng.choice(["take_sorted", "sort"])), [x], {}, F, sh, x["sz"])
        if r < 0.86:
            y = self.pick(self.isf)
            k = int(self.rng.integers(-n, n))
            return self.add("at_set", [x, y], {"k": k}, F, sh, x["sz"] and y["sz"])
        if r < 0.93 and self.afo:
            k = int(self.rng.integers(1, sh[-1] + 1))
            return self.add("top_k", [x], {"k": k}, F, sh[:-1] + (k,), x["sz"])
        if self.afo:
            y = self.pick(lambda v: v["dt"] == F and v["sh"] == sh and v["id"] != x["id"])
            if y is None:
                y = x
            return self.add("sort_kv", [x, y], {}, F, sh, y["sz"])
        return None

    def g_reduce(self):
        x = self.pick(self.isf)
        if x is None:
            return None
        sh = x["sh"]
        r = self.rng.random()
        if r < 0.15 and len(sh) >= 1:
            op = str(self.rng.choice(CUMUL))
            ax = int(self.rng.integers(len(sh)))
            return self.add(op, [x], {"axis": ax}, F, sh, x["sz"])
        if r < 0.2 and len(sh) == 2:
            return self.add("trace", [x], {}, F, (), x["sz"])
        if r < 0.24 and len(sh) >= 1 and not x["sz"]:
            return self.add("median", [x], {}, F, (), x["sz"])
        op = str(self.rng.choice(REDUCE))
        if len(sh) >= 1 and self.rng.random() < 0.5:
            ax = int(self.rng.integers(len(sh)))
            keep = bool(self.rng.random() < 0.25)
            osh = sh[:ax] + ((1,) if keep else ()) + sh[ax + 1:]
            return self.add(op, [x], {"axis": ax, "keep": keep}, F, osh, x["sz"])
        return self.add(op, [x], {"axis": None, "keep": False}, F, (), x["sz"])

    def g_shape(self):
        x = self.pick(lambda v: v["dt"] in (F,) or (v["dt"] == I and self.rng.random() < 0.15))
        if x is None:
            return None
        sh, dt, sz = x["sh"], x["dt"], x["sz"]
        nd = len(sh)
        choices = ["expand", "broadcast", "stack", "reshape"]
        if nd >= 1:
            choices += ["flip", "roll", "tile", "repeat", "pad", "concat", "ravel", "split", "reshape"]
        if nd >= 2:
            choices += ["transpose", "transpose", "swapaxes", "moveaxis", "diagonal", "tril", "triu"]
        if nd == 1:
            choices += ["diag", "outer"]
        if any(d == 1 for d in sh):
            choices += ["squeeze"]
        op = str(self.rng.choice(choices))
        if op == "transpose":
            perm = [int(i) for i in self.rng.permutation(nd)]
            if perm == list(range(nd)):
                perm = perm[::-1]
            return self.add(op, [x], {"perm": perm}, dt, tuple(sh[i] for i in perm), sz)
        if op in ("swapaxes", "moveaxis"):
            a, b = 0, nd - 1
            s = list(sh)
            if op == "swapaxes":
                s[a], s[b] = s[b], s[a]
            else:
                s = s[1:] + s[:1]
            return self.add(op, [x], {"a": a, "b": b}, dt, s, sz)
        if op == "reshape":
            n = _size(sh)
            cands = [(n,)] + [(a, n // a) for a in (2, 3, 4) if n % a == 0 and n // a >= 1]
            cands += [(a, b, n // (a * b)) for a in (2, 3) for b in (2, 3) if n % (a * b) == 0]
            cands += [(1, n), (n, 1)]
            cands = [c for c in cands if tuple(c) != tuple(sh)]
            if not cands:
                return None
            ns = cands[int(self.rng.integers(len(cands)))]
            return self.add(op, [x], {"sh": [int(d) for d in ns]}, dt, ns, sz)
        if op == "ravel":
            return self.add(op, [x], {}, dt, (_size(sh),), sz)
        if op == "expand":
            ax = int(self.rng.integers(nd + 1))
            return self.add(op, [x], {"axis": ax}, dt, sh[:ax] + (1,) + sh[ax:], sz)
        if op == "squeeze":
            ax = [i for i, d in enumerate(sh) if d == 1][0]
            return self.add(op, [x], {"axis": ax}, dt, sh[:ax] + sh[ax + 1:], sz)
        if op == "broadcast":
            k = int(self.rng.choice([2, 3]))
            ns = (k,) + tuple(sh)
            return self.add(op, [x], {"sh": [int(d) for d in ns]}, dt, ns, sz)
        if op in ("flip", "roll"):
            ax = int(self.rng.integers(nd))
            return self.add(op, [x], {"axis": ax, "k": int(self.rng.integers(1, 3))}, dt, sh, sz)
        if op in ("tile", "repeat"):
            return self.add(op, [x], {}, dt, (2 * sh[0],) + sh[1:], sz)
        if op == "pad":
            return self._pad(x)
        if op in ("concat", "stack"):
            if op == "concat":
                y = self.pick(lambda v: v["dt"] == dt and len(v["sh"]) == nd and v["sh"][1:] == sh[1:] and v["id"] != x["id"])
                if y is None:
                    y = x
                return self.add(op, [x, y], {}, dt, (sh[0] + y["sh"][0],) + sh[1:], sz and y["sz"])
            y = self.pick(lambda v: v["dt"] == dt and v["sh"] == sh and v["id"] != x["id"])
            if y is None:
                y = x
            ax = int(self.rng.integers(nd + 1))
            return self.add(op, [x, y], {"axis": ax}, dt, sh[:ax] + (2,) + sh[ax:], sz and y["sz"])
        if op == "split":
            n = sh[0]
            j = int(self.rng.integers(n))
            return self.add(op, [x], {"n": n, "j": j}, dt, (1,) + sh[1:], sz)
        if op == "diagonal":
            return self.add(op, [x], {}, dt, sh[2:] + (min(sh[0], sh[1]),), sz)
        if op in ("tril", "triu"):
            return self.add(op, [x], {}, dt, sh, sz)
        if op == "diag":
            return self.add(op, [x], {}, dt, (sh[0], sh[0]), sz)
        if op == "outer":
            y = self.pick(lambda v: v["dt"] == F and len(v["sh"]) == 1 and v["id"] != x["id"])
            if y is None or dt != F:
                y = x
            return self.add(op, [x, y], {}, dt, (sh[0], y["sh"][0]), sz and y["sz"])
        return None

    def _pad(self, x):
        lo, hi = 1, int(self.rng.integers(0, 3))
        sh = x["sh"]
        return self.add("pad", [x], {"lo": lo, "hi": hi}, x["dt"], (sh[0] + lo + hi,) + sh[1:], x["sz"])

    def g_contract(self):
        x = self.pick(lambda v: v["dt"] == F and len(v["sh"]) >= 1)
        if x is None:
            return None
        sh = x["sh"]
        nd = len(sh)

        def other(pred):
            return self.pick(lambda v: v["dt"] == F and v["id"] != x["id"] and pred(v["sh"]))

        if nd == 1:
            r = self.rng.random()
            y = other(lambda s: len(s) == 1 and s[0] == sh[0])
            if r < 0.4:
                return self.add(str(self.rng.choice(["dot11", "vdot"])), [x, y or x], {}, F, (), x["sz"] and (y or x)["sz"])
            m = other(lambda s: len(s) == 2 and s[0] == sh[0])
            if m is not None:
                return self.add("vecmat", [x, m], {}, F, (m["sh"][1],), x["sz"] and m["sz"])
            m = other(lambda s: len(s) == 2 and s[1] == sh[0])
            if m is not None:
                if self.rng.random() < 0.3 and m["sh"][0] == sh[0]:
                    return self.add("einsum_quad", [x, m], {}, F, (), x["sz"] and m["sz"])
                return self.add("matvec", [m, x], {}, F, (m["sh"][0],), x["sz"] and m["sz"])
            return self.add("dot11", [x, y or x], {}, F, (), x["sz"] and (y or x)["sz"])
        if nd == 2:
            r = self.rng.random()
            y = other(lambda s: len(s) == 2 and s[0] == sh[1])
            if y is not None and r < 0.5:
                op = str(self.rng.choice(["matmul", "lax_dot_general"]))
                return self.add(op, [x, y], {}, F, (sh[0], y["sh"][1]), x["sz"] and y["sz"])
            v = other(lambda s: len(s) == 1 and s[0] == sh[1])
            if v is not None and r < 0.75:
                return self.add("matvec", [x, v], {}, F, (sh[0],), x["sz"] and v["sz"])
            if self.rng.random() < 0.5:
                return self.add("gram", [x], {}, F, (sh[0], sh[0]), x["sz"])
            return self.add("gram_t", [x], {}, F, (sh[1], sh[1]), x["sz"])
        # rank 3
        y = other(lambda s: len(s) == 2 and s[0] == sh[2])
        if y is not None:
            return self.add("tensordot", [x, y], {}, F, (sh[0], sh[1], y["sh"][1]), x["sz"] and y["sz"])
        return self.add("bmm", [x], {}, F, (sh[0], sh[1], sh[1]), x["sz"])

    def g_linalg(self):
        x = self.pick(lambda v: v["dt"] == F and len(v["sh"]) == 2 and not v["sz"] and v["sh"][0] <= 4)
        if x is None:
            return None
        m, k = x["sh"]
        op = str(self.rng.choice(LINALG))
        if op in ("det", "slogdet", "lnorm_fro", "trace_g"):
            return self.add(op, [x], {}, F, (), False)
        if op in ("inv", "chol", "lax_chol", "matpow2"):
            return self.add(op, [x], {}, F, (m, m), False)
        if op in ("solve", "lax_trisolve"):
            b = self.pick(lambda v: v["dt"] == F and v["sh"] == (m,))
            if b is None:
                return self.add(op, [x], {"b": "col"}, F, (m,), False)
            return self.add(op, [x, b], {"b": "val"}, F, (m,), False)
        if op == "eigvalsh":
            if m > k:  # x x^T + cI would have a repeated eigenvalue: eigh's JVP is singular there
                return None
            return self.add(op, [x], {}, F, (m,), False)
        if op == "svdvals":
            return self.add(op, [x], {}, F, (min(m, k),), False)
        if op == "qr_r":
            if m < k:  # JAX has no QR derivative for wide matrices
                return None
            return self.add(op, [x], {}, F, (k, k), False)
        return None

    def g_hazard(self):
        """Singular-derivative operation on a value whose tangent is a symbolic
        zero under JAX (constant / integer-derived)."""
        if not self.afo:
            return None
        if self.rng.random() < 0.3:
            # a float table made by an input-less primitive (iota) inside the function, singular derivative at its 0
            y = self.pick(lambda v: v["dt"] == F and len(v["sh"]) >= 1)
            if y is not None:
                return self.add("hz_iota", [y], {}, F, y["sh"], y["sz"])
        x = self.pick(lambda v: v["dt"] == F and v["sz"])
        if x is None:
            return None
        op = str(self.rng.choice(HAZARD[:4]))
        if op == "hz_norm":
            return self.add(op, [x], {}, F, (), True)
        return self.add(op, [x], {}, F, x["sh"], True)

    def g_cond(self):
        if self.depth <= 0:
            return None
        # predicate
        pred = self.pick(lambda v: v["dt"] == B and v["sh"] == () and v.get("ctl"), prefer_recent=False)
        if pred is None or self.rng.random() < 0.4:
            p2 = self.pick(lambda v: v["dt"] == B and v["sh"] == ())
            if p2 is not None and (pred is None or self.rng.random() < 0.7):
                pred = p2
        if pred is None:
            x = self.pick(self.isf)
            if x is None:
                return None
            s = x if x["sh"] == () else self.add("sum", [x], {"axis": None, "keep": False}, F, (), x["sz"])
            pred = self.add("gt_lit", [s], {"c": 0.0}, B, (), True)
        r = self.rng.random()
        intpred = None
        if r < 0.1:
            intpred = True  # integer predicate (b2i)
            pred = self.add("b2i", [pred], {}, I, (), True)
        # operands
        nops = int(self.rng.integers(1, 4))
        ops = []
        for _ in range(nops):
            v = self.pick(lambda v: v["dt"] in (F, F, I) and v not in ops)
            if v is not None and v not in ops:
                ops.append(v)
        fops = [v for v in ops if v["dt"] == F]
        if not fops:
            v = self.pick(self.isf)
            if v is None:
                return None
            ops.append(v)
            fops = [v]
        style = str(self.rng.choice(["operands", "operands", "closure", "tuple_operand", "dict_operand"]))
        kind_r = self.rng.random()
        if kind_r < 0.62:
            kind = "scalar"
        elif kind_r < 0.8:
            kind = "like"
        elif kind_r < 0.9:
            kind = "int"
        elif kind_r < 0.95:
            kind = "multi" if self.afo else "scalar"
        else:
            kind = "fwd" if self.afo else "like"
        like = int(self.rng.integers(len(fops)))
        like_pos = ops.index(fops[like])
        ins = [(v["dt"], v["sh"], v["sz"]) for v in ops]
        bodies = []
        for _ in range(2):
            b = gen_body(self.rng, ins, int(self.rng.integers(1, 4)), self.depth - 1, self.afo and NESTED_FAIL_OPS, want=kind, like_pos=like_pos)
            bodies.append(b)
        p = {"style": style, "t": bodies[0], "f": bodies[1], "kind": kind}
        sz = all(v["sz"] or v["dt"] != F for v in ops)
        allin = [pred] + ops
        if kind == "scalar":
            return self.add("cond", allin, p, F, (), sz)
        if kind == "like":
            return self.add("cond", allin, p, F, fops[like]["sh"], sz)
        if kind == "int":
            return self.add("cond_int", allin, p, I, (), True)
        if kind == "fwd":
            return self.add("cond_fwd", allin, p, F, fops[like]["sh"], fops[like]["sz"])
        return self.add("cond_multi", allin, p, F, fops[like]["sh"], sz)

    def g_call(self):
        if self.depth <= 0:
            return None
        style = str(self.rng.choice(["plain", "jit", "jit", "remat", "vmap", "plain_dict"]))
        if style == "vmap":
            x = self.pick(lambda v: v["dt"] == F and len(v["sh"]) >= 1 and v["sh"][0] >= 2)
            if x is None:
                return None
            extra = self.pick(lambda v: v["dt"] == F and v["id"] != x["id"])
            ops = [x] + ([extra] if extra is not None else [])
            ins = [(F, x["sh"][1:], x["sz"])] + [(v["dt"], v["sh"], v["sz"]) for v in ops[1:]]
            b = gen_body(self.rng, ins, int(self.rng.integers(1, 4)), 0, self.afo and NESTED_FAIL_OPS, want="anyf")
            rsh = tuple(_ret_type(b)[1])
            return self.add("call_vmap", ops, {"body": b}, F, (x["sh"][0],) + rsh, all(v["sz"] for v in ops))
        nops = int(self.rng.integers(1, 4))
        ops = []
        for _ in range(nops):
            v = self.pick(lambda v: v not in ops)
            if v is not None and v not in ops:
                ops.append(v)
        if not any(v["dt"] == F for v in ops):
            v = self.pick(self.isf)
            if v is None:
                return None
            ops.append(v)
        ins = [(v["dt"], v["sh"], v["sz"]) for v in ops]
        two = bool(self.rng.random() < 0.3)
        b = gen_body(self.rng, ins, int(self.rng.integers(2, 5)), self.depth - 1, self.afo and NESTED_FAIL_OPS, want="anyf2" if two else "anyf")
        rsh = tuple(_ret_type(b)[1])
        sz = all(v["sz"] or v["dt"] != F for v in ops)
        return self.add("call_" + style.split("_")[0], ops, {"body": b, "dict": style.endswith("dict") or bool(self.rng.random() < 0.3), "two": two},
                        F, rsh, sz)


def _ret_type(body):
    rid = body["ret"][0]
    n_in = len(body["ins"])
    if rid < n_in:
        return body["ins"][rid][0], body["ins"][rid][1]
    return body["nodes"][rid - n_in]["ty"]


FAMILIES = [
    ("g_unary", 16), ("g_binary", 16), ("g_compare", 4), ("g_bool", 4), ("g_where", 5), ("g_int", 7),
    ("g_convert", 6), ("g_index", 12), ("g_reduce", 10), ("g_shape", 12), ("g_contract", 10), ("g_linalg", 6),
    ("g_hazard", 3), ("g_cond", 7), ("g_call", 5),
]


def gen_body(rng, ins, n_nodes, depth, allow_fail_ops, want="free", like_pos=0, ctl=()):
    """Generate a body over inputs ``ins``.

    want: "free"   top level, ret filled by caller
          "scalar" ret = one f[] value depending on the body
          "like"   ret = float value with the shape of input ``like_pos``
          "int"    ret = one i[] value
          "multi"  ret = [f like input like_pos, f[]]
          "fwd"    ret = input like_pos itself, unchanged (in both branches: JAX forwards it)
          "anyf"   ret = any float value;  "anyf2": two float values
    """
    g = _Body(rng, ins, depth, allow_fail_ops)
    for c in ctl:
        g.vals[c]["ctl_src"] = True
    names = [f for f, _ in FAMILIES]
    w = np.array([wt for _, wt in FAMILIES], dtype=float)
    if depth <= 0:
        w = np.array([0.0 if f in ("g_cond", "g_call") else wt for f, wt in FAMILIES])
    w = w / w.sum()
    made = 0
    tries = 0
    while made < n_nodes and tries < n_nodes * 12:
        tries += 1
        fam = names[int(rng.choice(len(names), p=w))]
        before = len(g.nodes)
        v = getattr(g, fam)()
        if v is not None or len(g.nodes) > before:
            made += 1
    if want == "free":
        return g
    last_f = [v for v in g.vals if v["dt"] == F]
    if not last_f:
        # no float value at all: make one from a constant
        v0 = g.add("arange", [], {"n": 2}, I, (2,), True)
        last_f = [g.add("i2f", [v0], {}, F, (2,), True)]
    fv = last_f[-1]

    n_in = len(g.ins)

    def scalar_of(v):
        if v["sh"] == ():
            if v["id"] < n_in:  # never hand an operand back unchanged (JAX would forward it; that is kind "fwd")
                return g.add("add_lit", [v], {"c": 0.5}, F, (), v["sz"])
            return v
        op = str(rng.choice(["sum", "mean", "max"]))
        return g.add(op, [v], {"axis": None, "keep": False}, F, (), v["sz"])

    if want == "scalar":
        return g.spec([scalar_of(fv)["id"]])
    if want in ("like", "multi"):
        tgt = g.vals[like_pos]
        s = scalar_of(fv)
        op = str(rng.choice(["mul", "add"]))
        a = tgt
        if rng.random() < 0.5:
            a = g.add(str(rng.choice(["sin", "tanh", "square"])), [tgt], {}, F, tgt["sh"], tgt["sz"])
        r = g.add(op, [a, s], {}, F, tgt["sh"], tgt["sz"] and s["sz"])
        if want == "like":
            return g.spec([r["id"]])
        s2 = scalar_of(last_f[0]) if last_f[0]["id"] != fv["id"] else s
        return g.spec([r["id"], s2["id"]])
    if want == "fwd":
        return g.spec([like_pos])
    if want == "int":
        iv = [v for v in g.vals if v["dt"] == I and v["sh"] == ()]
        if iv:
            r = iv[-1]
            if r["id"] < n_in:
                r = g.add("i_addlit", [r], {"c": 1}, I, (), True)
            return g.spec([r["id"]])
        arr = [v for v in g.vals if v["dt"] == F and len(v["sh"]) >= 1]
        if arr:
            r = g.add("argmax", [arr[-1]], {"axis": None}, I, (), True)
        else:
            r = g.add("f2i", [scalar_of(fv)], {"c": 2.0}, I, (), True)
        return g.spec([r["id"]])
    if want == "anyf":
        return g.spec([fv["id"]])
    if want == "anyf2":
        return g.spec([fv["id"], last_f[0]["id"]])
    raise ValueError(want)


def _gen_argtree(rng, profile, depth=0):
    def leaf():
        r = rng.random()
        if profile == "scalar":
            if r < 0.15:
                return {"k": "py"}
            return {"k": "leaf", "dt": F, "sh": []}
        if profile == "int" and r < 0.45:
            dt = I if rng.random() < 0.7 else B
            sh = () if rng.random() < 0.5 else ARG_SHAPES[int(rng.integers(1, 5))]
            return {"k": "leaf", "dt": dt, "sh": list(sh)}
        if profile == "int" and r < 0.8:
            return {"k": "leaf", "dt": F, "sh": []}
        if r < 0.06:
            return {"k": "py"}
        if r < 0.25:
            return {"k": "leaf", "dt": F, "sh": []}
        sh = ARG_SHAPES[int(rng.integers(1, len(ARG_SHAPES)))]
        return {"k": "leaf", "dt": F, "sh": list(sh)}

    if profile in ("pytree",) or (profile in ("scalar", "int") and rng.random() < 0.25):
        r = rng.random()
        if depth < 2 and r < (0.75 if depth == 0 else 0.3):
            n = int(rng.integers(1, 4))
            if rng.random() < 0.5:
                return {"k": "tuple", "items": [_gen_argtree(rng, profile, depth + 1) for _ in range(n)]}
            names = sorted(str(s) for s in rng.choice(["w", "b", "mu", "k", "z"], size=n, replace=False))
            return {"k": "dict", "items": {nm: _gen_argtree(rng, profile, depth + 1) for nm in names}}
    return leaf()


def arg_leaves(tree, path=""):
    """Leaves of an argtree in canonical order (tuple order, dict keys sorted)."""
    if tree["k"] in ("leaf", "py"):
        return [(path, tree)]
    out = []
    if tree["k"] == "tuple":
        for i, t in enumerate(tree["items"]):
            out += arg_leaves(t, f"{path}[{i}]")
    else:
        for nm in sorted(tree["items"]):
            out += arg_leaves(tree["items"][nm], f"{path}[{nm!r}]")
    return out


def arg_kind(spec):
    """Coarse argument class used in keys: array (any leaf with ndim >= 1) > int (integer / boolean scalars)
    > scalar-pytree > scalar."""
    leaves = [t for a in spec["args"] for _, t in arg_leaves(a)]
    if any(t["k"] == "leaf" and len(t["sh"]) >= 1 for t in leaves):
        return "array"
    if any(t["k"] == "leaf" and t["dt"] in (I, B) for t in leaves):
        return "int"
    if any(a["k"] in ("tuple", "dict") for a in spec["args"]):
        return "scalar-pytree"
    return "scalar"


def gen_program(rng, profile, n_nodes, depth=2, allow_fail_ops=True, int_out=False):
    n_args = int(rng.integers(1, 4))
    args = [_gen_argtree(rng, profile) for _ in range(n_args)]
    leaves = [t for a in args for _, t in arg_leaves(a)]
    if profile in ("array", "pytree") and not any(
        t["k"] == "leaf" and t["dt"] == F and len(t["sh"]) >= 1 for t in leaves
    ):
        sh = ARG_SHAPES[int(rng.integers(2, len(ARG_SHAPES)))]
        args.append({"k": "leaf", "dt": F, "sh": list(sh)})
    if not any(t["k"] == "py" or t["dt"] == F for t in leaves):
        args.append({"k": "leaf", "dt": F, "sh": []})
    # control scalar (float) used by cond predicates so that both branches get taken
    args.append({"k": "leaf", "dt": F, "sh": [], "ctl": True})
    leaves = [t for a in args for _, t in arg_leaves(a)]
    ins = []
    for t in leaves:
        if t["k"] == "py":
            ins.append((F, (), False))
        else:
            ins.append((t["dt"], tuple(t["sh"]), t["dt"] != F))
    # closed-over constants
    consts = []
    for _ in range(int(rng.integers(0, 3))):
        r = rng.random()
        sh = ARG_SHAPES[int(rng.integers(0, 8))]
        if r < 0.55:
            consts.append({"dt": F, "sh": list(sh), "fill": "normal"})
        elif r < 0.8:
            consts.append({"dt": F, "sh": list(sh), "fill": "sparse"})  # exact zeros inside
        else:
            consts.append({"dt": I, "sh": list(sh if len(sh) <= 1 else sh[:1]), "fill": "int"})
    for c in consts:
        ins.append((c["dt"], tuple(c["sh"]), True))
    g = _Body(rng, ins, depth, allow_fail_ops)
    # predicate from the control scalar
    ctl_id = len(leaves) - 1
    names = [f for f, _ in FAMILIES]
    w = np.array([wt for _, wt in FAMILIES], dtype=float)
    w /= w.sum()
    pv = g.add("gt_lit", [g.vals[ctl_id]], {"c": 0.0}, B, (), True)
    pv["ctl"] = True
    g.used.discard(ctl_id)
    made = tries = 0
    while made < n_nodes and tries < n_nodes * 12:
        tries += 1
        fam = names[int(rng.choice(len(names), p=w))]
        before = len(g.nodes)
        v = getattr(g, fam)()
        if v is not None or len(g.nodes) > before:
            made += 1
    if int_out and not any(v["dt"] == I and v["sh"] == () and v["id"] >= len(ins) for v in g.vals):
        # integer-valued program requested: make sure an integer scalar exists
        x = g.pick(lambda v: v["dt"] == F and len(v["sh"]) >= 1)
        if x is not None:
            g.add("argmax", [x], {"axis": None}, I, (), True)
        else:
            x = g.pick(lambda v: v["dt"] == F)
            s0 = x if x["sh"] == () else g.add("sum", [x], {"axis": None, "keep": False}, F, (), x["sz"])
            g.add("f2i", [s0], {"c": 2.0}, I, (), True)
    body = g.spec([])
    spec = {"args": args, "consts": consts, "body": body}
    spec["out"] = _make_out(rng, g, len(g.nodes), int_out)
    return spec


def _make_out(rng, g, upto, int_out, all_sum=False):
    """Scalar output over the first ``upto`` nodes: sum of scalarised sinks."""
    n_in = len(g.ins) if isinstance(g, _Body) else len(g["ins"])
    nodes = g.nodes if isinstance(g, _Body) else g["nodes"]
    ins = g.ins if isinstance(g, _Body) else g["ins"]
    used = set()
    for nd in nodes[:upto]:
        used.update(nd["in"])
    tys = [(i[0], i[1]) for i in ins] + [tuple(nd["ty"]) for nd in nodes[:upto]]
    if int_out:
        iv = [i for i in range(n_in, n_in + upto) if tys[i][0] == I and list(tys[i][1]) == []]
        if iv:
            return {"kind": "int", "id": iv[-1]}
    # all_sum (attribution prefixes): every float value feeds the output directly, so that a later node can neither
    # mask nor re-expose what an earlier node computed and "prefix k fails" is monotone in k
    sinks = [i for i in range(len(tys)) if tys[i][0] == F and (all_sum or i not in used)]
    hows = ["sum", "mean", "first", "sum"]
    terms = []
    for k, i in enumerate(sinks):
        h = "id" if list(tys[i][1]) == [] else ("sum" if all_sum else hows[(k + i) % len(hows)])
        terms.append([i, h])
    return {"kind": "float", "terms": terms}


def prefix_program(spec, k):
    """Program made of the first k top-level nodes; output = sum over every element of every float value of the
    prefix (arguments, constants, nodes), so that nothing computed in the prefix is invisible."""
    body = dict(spec["body"])
    body = {"ins": body["ins"], "nodes": body["nodes"][:k], "ret": []}
    out = _make_out(None, body, k, False, all_sum=True)
    return {"args": spec["args"], "consts": spec["consts"], "body": body, "out": out}


def special_programs():
    """Hand-written corner programs (identity / constant / unused argument)."""
    leaf = {"k": "leaf", "dt": F, "sh": []}
    arr = {"k": "leaf", "dt": F, "sh": [3]}
    out = []
    out.append({"args": [leaf], "consts": [], "body": {"ins": [[F, [], False]], "nodes": [], "ret": []},
                "out": {"kind": "float", "terms": [[0, "id"]]}, "name": "identity"})
    out.append({"args": [leaf, arr], "consts": [], "body": {"ins": [[F, [], False], [F, [3], False]],
                "nodes": [{"op": "lit", "in": [], "p": {"c": 3.0}, "ty": [F, []]}], "ret": []},
                "out": {"kind": "float", "terms": [[2, "id"]]}, "name": "constant"})
    out.append({"args": [arr, leaf], "consts": [], "body": {"ins": [[F, [3], False], [F, [], False]],
                "nodes": [{"op": "sin", "in": [0], "p": {}, "ty": [F, [3]]}], "ret": []},
                "out": {"kind": "float", "terms": [[2, "sum"]]}, "name": "unused-arg"})
    out.append({"args": [{"k": "dict", "items": {"a": leaf, "b": {"k": "tuple", "items": [leaf, {"k": "py"}]}}}],
                "consts": [], "body": {"ins": [[F, [], False]] * 3,
                "nodes": [{"op": "mul", "in": [0, 1], "p": {}, "ty": [F, []]},
                          {"op": "add", "in": [3, 2], "p": {}, "ty": [F, []]}], "ret": []},
                "out": {"kind": "float", "terms": [[4, "id"]]}, "name": "scalar-pytree"})
    return out


# --------------------------------------------------------------------------
# structural summaries (numpy only)
# --------------------------------------------------------------------------


def all_ops(body):
    out = []
    for nd in body["nodes"]:
        out.append(nd["op"])
        for key in ("t", "f", "body"):
            if key in nd["p"]:
                out += all_ops(nd["p"][key])
    return out


def signature(spec):
    def bsig(b):
        return [[nd["op"], nd["in"], nd["ty"], [bsig(nd["p"][k]) for k in ("t", "f", "body") if k in nd["p"]]] for nd in b["nodes"]]

    return [spec["args"], [[c["dt"], c["sh"]] for c in spec["consts"]], bsig(spec["body"]), spec["out"]]


def render(spec):
    """Readable pseudo-code of a program (goes into violation details)."""
    lines = []

    def rb(body, ind, tag):
        n_in = len(body["ins"])
        for i, t in enumerate(body["ins"]):
            lines.append(f"{ind}{tag}{i}: {t[0]}{tuple(t[1])}" + (" symzero" if t[2] else ""))
        for j, nd in enumerate(body["nodes"]):
            p = {k: v for k, v in nd["p"].items() if k not in ("t", "f", "body")}
            args = ", ".join(f"{tag}{i}" for i in nd["in"])
            lines.append(f"{ind}{tag}{n_in + j} = {nd['op']}({args}{', ' + str(p) if p else ''})  # {nd['ty'][0]}{tuple(nd['ty'][1])}")
            for key in ("t", "f", "body"):
                if key in nd["p"]:
                    lines.append(f"{ind}  [{key}] inputs <- {[f'{tag}{i}' for i in (nd['in'][1:] if key in 'tf' else nd['in'])]}")
                    rb(nd["p"][key], ind + "    ", tag + "_")
                    lines.append(f"{ind}    return {[f'{tag}_{r}' for r in nd['p'][key]['ret']]}")

    lines.append("args: " + str(spec["args"]))
    lines.append("consts: " + str(spec["consts"]))
    rb(spec["body"], "", "v")
    lines.append("out: " + str(spec["out"]))
    return lines


# --------------------------------------------------------------------------
# values
# --------------------------------------------------------------------------


def make_args(spec, rng, ctl_positive):
    """Concrete numpy argument values + tangents (jvp direction) for a program."""

    def mk(tree):
        if tree["k"] == "py":
            return float(np.round(rng.normal() * 1.2, 3)), float(np.round(rng.normal(), 3))
        if tree["k"] == "leaf":
            sh = tuple(tree["sh"])
            if tree.get("ctl"):
                m = float(rng.uniform(0.3, 1.7))
                return np.float32(m if ctl_positive else -m), np.float32(rng.normal())
            if tree["dt"] == F:
                v = np.clip(rng.normal(size=sh) * 1.1, -2.5, 2.5).astype(np.float32)
                t = rng.normal(size=sh).astype(np.float32)
                return (v if sh else np.float32(v)), (t if sh else np.float32(t))
            if tree["dt"] == I:
                return rng.integers(0, 5, size=sh).astype(np.int32), None
            return rng.random(size=sh) < 0.5, None
        if tree["k"] == "tuple":
            pr = [mk(t) for t in tree["items"]]
            return tuple(p for p, _ in pr), tuple(t for _, t in pr)
        pr = {nm: mk(tree["items"][nm]) for nm in sorted(tree["items"])}
        return {nm: p for nm, (p, _) in pr.items()}, {nm: t for nm, (_, t) in pr.items()}

    prs = [mk(a) for a in spec["args"]]
    return [p for p, _ in prs], [t for _, t in prs]


def make_consts(spec, seed_words):
    rng = np.random.default_rng(list(seed_words) + [777])
    out = []
    for c in spec["consts"]:
        sh = tuple(c["sh"])
        if c["fill"] == "normal":
            out.append(np.clip(rng.normal(size=sh), -2, 2).astype(np.float32))
        elif c["fill"] == "sparse":
            v = np.clip(rng.normal(size=sh), -2, 2).astype(np.float32)
            mask = rng.random(size=sh) < 0.5
            out.append(np.where(mask, np.float32(0.0), np.abs(v)).astype(np.float32))
        else:
            out.append(rng.integers(0, 4, size=sh).astype(np.int32))
    return out


# --------------------------------------------------------------------------
# builder (jax)
# --------------------------------------------------------------------------


def build_fn(spec, consts_np, holder=None):
    """Return ``f(*args)`` implementing ``spec``.  ``holder`` (dict) may carry
    ``rec`` (list): when set, every top-level node value is appended to it and
    ``conds`` collects the predicate of every top-level cond (both may hold
    tracers of the trace ``f`` is running under)."""
    import jax
    import jax.numpy as jnp
    from jax import lax

    consts = [jnp.asarray(c) for c in consts_np]
    f32 = jnp.float32

    def spd(x):
        m = x.shape[0]
        return x @ x.T + 1.5 * jnp.eye(m, dtype=x.dtype)

    def red(fn):
        return lambda a, p: fn(a[0], axis=p["axis"], keepdims=p["keep"])

    U = {
        "sin": jnp.sin, "cos": jnp.cos, "tanh": jnp.tanh, "arctan": jnp.arctan,
        "erf": jax.scipy.special.erf, "square": jnp.square, "neg": jnp.negative, "abs": jnp.abs,
        "exp_b": lambda x: jnp.exp(jnp.tanh(x)), "log_g": lambda x: jnp.log(x * x + 1.0),
        "sqrt_g": lambda x: jnp.sqrt(x * x + 0.5), "rsqrt_g": lambda x: lax.rsqrt(x * x + 1.0),
        "recip_g": lambda x: 1.0 / (1.5 + jnp.tanh(x)), "cube": lambda x: x ** 3,
        "sigmoid": jax.nn.sigmoid, "softplus": jax.nn.softplus, "relu_max": lambda x: jnp.maximum(x, 0.0),
        "clip": lambda x: jnp.clip(x, -0.8, 0.9), "gelu": jax.nn.gelu, "silu": jax.nn.silu, "elu": jax.nn.elu,
        "log_sigmoid": jax.nn.log_sigmoid, "expm1_b": lambda x: jnp.expm1(jnp.tanh(x)), "logistic": lax.logistic,
        "lax_sin": lax.sin, "lax_exp_b": lambda x: lax.exp(lax.tanh(x)), "ipow4": lambda x: lax.integer_pow(x, 4) * 0.1,
        "log1p_abs": lambda x: jnp.log1p(jnp.abs(x)),
        "floor": jnp.floor, "round": jnp.round, "sign": jnp.sign, "stopgrad": lax.stop_gradient, "ceil": jnp.ceil,
        "nn_relu": jax.nn.relu, "nn_relu6": jax.nn.relu6,
        "hz_sqrt": lambda x: jnp.sqrt(jnp.abs(x)), "hz_pow": lambda x: jnp.power(jnp.abs(x), 0.5),
        "hz_arcsin": lambda x: jnp.arcsin(jnp.clip(x, -1.0, 1.0)), "hz_norm": lambda x: jnp.linalg.norm(jnp.ravel(x)),
        "hz_iota": lambda x: x * jnp.sqrt(jnp.arange(x.shape[-1], dtype=f32)),
        "not": jnp.logical_not, "i2f": lambda x: x.astype(f32), "b2f": lambda x: x.astype(f32),
        "b2i": lambda x: x.astype(jnp.int32), "f16_rt": lambda x: x.astype(jnp.float16).astype(f32),
        "bf16_rt": lambda x: x.astype(jnp.bfloat16).astype(f32), "f2i2f": lambda x: (x * 2.0).astype(jnp.int32).astype(f32),
        "any": jnp.any, "all": jnp.all, "count": lambda x: jnp.sum(x).astype(jnp.int32),
        "take_sorted": lambda x: jnp.take_along_axis(x, jnp.argsort(x, axis=-1), axis=-1),
        "sort": lambda x: jnp.sort(x, axis=-1), "trace": jnp.trace, "median": jnp.median,
        "ravel": jnp.ravel, "tile": lambda x: jnp.tile(x, (2,) + (1,) * (x.ndim - 1)),
        "repeat": lambda x: jnp.repeat(x, 2, axis=0), "diagonal": jnp.diagonal, "tril": jnp.tril, "triu": jnp.triu,
        "diag": jnp.diag, "gram": lambda x: x @ x.T, "gram_t": lambda x: x.T @ x,
        "bmm": lambda x: jnp.einsum("bij,bkj->bik", x, x),
        "det": lambda x: jnp.linalg.det(spd(x)), "slogdet": lambda x: jnp.linalg.slogdet(spd(x))[1],
        "inv": lambda x: jnp.linalg.inv(spd(x)), "chol": lambda x: jnp.linalg.cholesky(spd(x)),
        "lax_chol": lambda x: jnp.tril(lax.linalg.cholesky(spd(x))), "eigvalsh": lambda x: jnp.linalg.eigvalsh(spd(x)),
        "svdvals": lambda x: jnp.linalg.svd(x, compute_uv=False), "qr_r": lambda x: jnp.linalg.qr(x)[1],
        "matpow2": lambda x: jnp.linalg.matrix_power(spd(x) * 0.3, 2), "lnorm_fro": lambda x: jnp.linalg.norm(x),
        "trace_g": lambda x: jnp.trace(spd(x)),
    }
    BIN = {
        "add": jnp.add, "sub": jnp.subtract, "mul": jnp.multiply, "div_g": lambda x, y: x / (1.5 + jnp.tanh(y)),
        "maximum": jnp.maximum, "minimum": jnp.minimum, "atan2_g": lambda x, y: jnp.arctan2(x, 1.5 + jnp.tanh(y)),
        "pow_g": lambda x, y: jnp.power(jnp.abs(x) + 0.5, jnp.tanh(y)), "lax_mul": lambda x, y: x * y if x.shape != y.shape else lax.mul(x, y),
        "lax_add": lambda x, y: x + y if x.shape != y.shape else lax.add(x, y), "logaddexp": jnp.logaddexp,
        "gt": jnp.greater, "lt": jnp.less, "ge": jnp.greater_equal, "and": jnp.logical_and, "or": jnp.logical_or,
        "xor": jnp.logical_xor, "i_add": jnp.add, "dot11": jnp.dot, "vdot": jnp.vdot, "vecmat": jnp.matmul,
        "matvec": jnp.matmul, "matmul": jnp.matmul, "outer": jnp.outer,
        "lax_dot_general": lambda x, y: lax.dot_general(x, y, (((1,), (0,)), ((), ()))),
        "einsum_quad": lambda v, m: jnp.einsum("i,ij,j->", v, m, v),
        "tensordot": lambda x, y: jnp.tensordot(x, y, axes=1),
        "dyn_idx": lambda x, i: x[i % x.shape[0]],
        "gather": lambda x, idx: x[idx % x.shape[0]],
        "sort_kv": lambda x, y: lax.sort_key_val(x, y, dimension=-1)[1],
    }
    LIT = {
        "add_lit": lambda x, c: x + c, "mul_lit": lambda x, c: x * c, "rsub_lit": lambda x, c: c - x,
        "max_lit": lambda x, c: jnp.maximum(x, c), "div_lit": lambda x, c: x / c, "gt_lit": lambda x, c: x > c,
        "i_addlit": lambda x, c: x + c, "i_mullit": lambda x, c: x * c, "i_modlit": lambda x, c: x % c,
        "i_fdivlit": lambda x, c: x // c, "i_gt": lambda x, c: x > c, "f2i": lambda x, c: (x * c).astype(jnp.int32),
    }
    RED = {
        "sum": red(jnp.sum), "mean": red(jnp.mean), "max": red(jnp.max), "min": red(jnp.min), "var": red(jnp.var),
        "prod_b": lambda a, p: jnp.prod(1.0 + 0.3 * jnp.tanh(a[0]), axis=p["axis"], keepdims=p["keep"]),
        "std_g": lambda a, p: jnp.sqrt(jnp.var(a[0], axis=p["axis"], keepdims=p["keep"]) + 0.1),
        "logsumexp": lambda a, p: jax.scipy.special.logsumexp(a[0], axis=p["axis"], keepdims=p["keep"]),
        "norm_g": lambda a, p: jnp.sqrt(jnp.sum(a[0] * a[0], axis=p["axis"], keepdims=p["keep"]) + 0.1),
        "ptp": lambda a, p: jnp.max(a[0], axis=p["axis"], keepdims=p["keep"]) - jnp.min(a[0], axis=p["axis"], keepdims=p["keep"]),
    }

    def run_body(body, ins, top=False):
        vals = list(ins)
        for nd in body["nodes"]:
            a = [vals[i] for i in nd["in"]]
            v = apply_node(nd, a, top)
            vals.append(v)
            if top and holder is not None and holder.get("rec") is not None:
                holder["rec"].append(v)
        return vals

    def make_inner(body):
        def inner(*xs):
            vals = run_body(body, list(xs))
            return [vals[r] for r in body["ret"]]

        return inner

    def apply_node(nd, a, top=False):
        op, p = nd["op"], nd["p"]
        if op in RED:
            return RED[op](a, p)
        if op in LIT:
            return LIT[op](a[0], p["c"])
        if op in U:
            return U[op](a[0])
        if op in BIN:
            return BIN[op](a[0], a[1])
        if op == "lit":
            return jnp.float32(p["c"])
        if op == "where":
            return jnp.where(a[0], a[1], a[2])
        if op == "where_lit":
            return jnp.where(a[0], a[1], p["c"])
        if op == "select":
            return lax.select(a[0], a[1], a[2])
        if op in ("argmax", "argmin"):
            fn = jnp.argmax if op == "argmax" else jnp.argmin
            return fn(a[0], axis=p["axis"]).astype(jnp.int32)
        if op == "arange":
            return jnp.arange(p["n"], dtype=jnp.int32)
        if op in ("cumsum",):
            return jnp.cumsum(a[0], axis=p["axis"])
        if op == "cumprod_b":
            return jnp.cumprod(1.0 + 0.3 * jnp.tanh(a[0]), axis=p["axis"])
        if op == "cummax":
            return lax.cummax(a[0], axis=p["axis"])
        if op == "idx":
            return a[0][p["k"]]
        if op == "idx_last":
            return a[0][..., p["k"]]
        if op == "slice":
            return a[0][slice(*p["sl"])]
        if op == "slice2":
            return a[0][p["a"]:, p["c"]:]
        if op == "dyn_slice":
            n = a[0].shape[0]
            return lax.dynamic_slice_in_dim(a[0], a[1] % (n - p["L"] + 1), p["L"], axis=0)
        if op == "dyn_update":
            n = a[0].shape[0]
            upd = a[0][: p["L"]] * 2.0 + 1.0
            return lax.dynamic_update_slice_in_dim(a[0], upd, a[1] % (n - p["L"] + 1), axis=0)
        if op == "at_add_idx":
            return a[0].at[a[1] % a[0].shape[0]].add(p["c"])
        if op == "at_set":
            return a[0].at[p["k"]].set(jnp.sum(a[1]) * 0.5)
        if op == "top_k":
            return lax.top_k(a[0], p["k"])[0]
        if op == "transpose":
            return jnp.transpose(a[0], p["perm"])
        if op == "swapaxes":
            return jnp.swapaxes(a[0], p["a"], p["b"])
        if op == "moveaxis":
            return jnp.moveaxis(a[0], 0, -1)
        if op == "reshape":
            return jnp.reshape(a[0], p["sh"])
        if op == "expand":
            return jnp.expand_dims(a[0], p["axis"])
        if op == "squeeze":
            return jnp.squeeze(a[0], axis=p["axis"])
        if op == "broadcast":
            return jnp.broadcast_to(a[0], p["sh"])
        if op == "flip":
            return jnp.flip(a[0], axis=p["axis"])
        if op == "roll":
            return jnp.roll(a[0], p["k"], axis=p["axis"])
        if op == "pad":
            return jnp.pad(a[0], [(p["lo"], p["hi"])] + [(0, 0)] * (a[0].ndim - 1))
        if op == "concat":
            return jnp.concatenate([a[0], a[1]], axis=0)
        if op == "stack":
            return jnp.stack([a[0], a[1]], axis=p["axis"])
        if op == "split":
            return jnp.split(a[0], p["n"], axis=0)[p["j"]]
        if op == "solve":
            b = a[1] if p["b"] == "val" else a[0][:, 0]
            return jnp.linalg.solve(spd(a[0]), b)
        if op == "lax_trisolve":
            b = a[1] if p["b"] == "val" else a[0][:, 0]
            L = jnp.tril(a[0] @ a[0].T) + 2.0 * jnp.eye(a[0].shape[0], dtype=f32)
            return lax.linalg.triangular_solve(L, b[:, None], left_side=True, lower=True)[:, 0]
        if op.startswith("cond"):
            return apply_cond(nd, a, top)
        if op.startswith("call"):
            return apply_call(nd, a)
        raise KeyError(op)

    def apply_cond(nd, a, top=False):
        p = nd["p"]
        pred, ops = a[0], a[1:]
        if top and holder is not None and holder.get("conds") is not None:
            holder["conds"].append(pred)
        ft, ff = make_inner(p["t"]), make_inner(p["f"])
        kind = p["kind"]

        def wrap(fn):
            if kind == "multi":
                return lambda *xs: tuple(fn(*xs))
            return lambda *xs: fn(*xs)[0]

        gt, gf = wrap(ft), wrap(ff)
        st = p["style"]
        if st == "closure":
            r = lax.cond(pred, lambda: gt(*ops), lambda: gf(*ops))
        elif st == "tuple_operand":
            r = lax.cond(pred, lambda t: gt(*t), lambda t: gf(*t), tuple(ops))
        elif st == "dict_operand":
            d = {f"k{i}": o for i, o in enumerate(ops)}
            r = lax.cond(pred, lambda t: gt(*[t[f"k{i}"] for i in range(len(ops))]),
                         lambda t: gf(*[t[f"k{i}"] for i in range(len(ops))]), d)
        else:
            r = lax.cond(pred, gt, gf, *ops)
        if kind == "multi":
            return r[0] + r[1]
        return r

    def apply_call(nd, a):
        p = nd["p"]
        inner = make_inner(p["body"])
        op = nd["op"]
        if op == "call_vmap":
            rest = a[1:]
            return jax.vmap(lambda row: inner(row, *rest)[0])(a[0])
        two = p.get("two")
        if p.get("dict"):
            def fn(d):
                r = inner(*[d[f"a{i}"] for i in range(len(a))])
                return {"u": r[0], "v": r[1]} if two else r[0]
            arg = ({f"a{i}": x for i, x in enumerate(a)},)
        else:
            def fn(*xs):
                r = inner(*xs)
                return (r[0], {"v": r[1]}) if two else r[0]
            arg = tuple(a)
        if op == "call_jit":
            fn = jax.jit(fn)
        elif op == "call_remat":
            fn = jax.checkpoint(fn)
        r = fn(*arg)
        if two:
            u, v = (r["u"], r["v"]) if p.get("dict") else (r[0], r[1]["v"])
            return u + jnp.mean(v)
        return r

    n_leaf = sum(len(arg_leaves(t)) for t in spec["args"])

    def flat(tree, val):
        if tree["k"] in ("leaf", "py"):
            return [val]
        out = []
        if tree["k"] == "tuple":
            for t, v in zip(tree["items"], val):
                out += flat(t, v)
        else:
            for nm in sorted(tree["items"]):
                out += flat(tree["items"][nm], val[nm])
        return out

    out = spec["out"]

    def f(*args):
        leaves = []
        for t, v in zip(spec["args"], args):
            leaves += flat(t, v)
        assert len(leaves) == n_leaf
        leaves = [jnp.asarray(v) for v in leaves]
        vals = run_body(spec["body"], leaves + consts, top=True)
        if out["kind"] == "int":
            return vals[out["id"]]
        total = None
        for i, how in out["terms"]:
            v = vals[i]
            if how == "sum":
                s = jnp.sum(v)
            elif how == "mean":
                s = jnp.mean(v)
            elif how == "first":
                s = jnp.ravel(v)[0]
            else:
                s = v
            total = s if total is None else total + s
        if total is None:
            return jnp.float32(3.0)
        return total

    return f
