"""Independent reference interpreter of the spec language (DESIGN §3.3).

float64 numpy + closed-form densities; Python loops instead of scan / vmap,
Python ``if`` instead of Cond's evaluate-both scheme.  Shares no code with
genjax.  One entry point::

    run(prog, args, kwargs=None, choices=None, chooser=None) -> Result

``choices`` is a nested dict shaped like a genjax choice map (leading axes for
Vmap lanes / Scan iterations).  An address missing from ``choices`` is drawn by
``chooser(path, dist, params)``.
"""

from __future__ import annotations

import math

import numpy as np

from lib.spec import Evaluator, PROBE_KIND

LOG2PI = math.log(2 * math.pi)


# ---------------------------------------------------------------------------
# densities (float64, closed form)
# ---------------------------------------------------------------------------
def logpdf(dist, v, params):
    d = PROBE_KIND.get(dist, dist)
    if d == "cat":
        d = "categorical"
    if d == "normal":
        mu, sg = float(params[0]), float(params[1])
        z = (float(v) - mu) / sg
        return -0.5 * z * z - math.log(sg) - 0.5 * LOG2PI
    if d == "uniform":
        lo, hi = float(params[0]), float(params[1])
        return -math.log(hi - lo) if lo <= float(v) <= hi else -math.inf
    if d == "exponential":
        r = float(params[0])
        return math.log(r) - r * float(v) if float(v) >= 0 else -math.inf
    if d == "flip":
        p = float(params[0])
        return math.log(p) if bool(v) else math.log1p(-p)
    if d == "categorical":
        lg = np.asarray(params[0], dtype=np.float64)
        m = lg.max()
        return float(lg[int(v)] - m - math.log(np.exp(lg - m).sum()))
    if d == "mvn":
        mu = np.asarray(params[0], dtype=np.float64)
        cov = np.asarray(params[1], dtype=np.float64)
        x = np.asarray(v, dtype=np.float64) - mu
        k = len(mu)
        sign, ld = np.linalg.slogdet(cov)
        return float(-0.5 * x @ np.linalg.solve(cov, x) - 0.5 * ld - 0.5 * k * LOG2PI)
    raise ValueError(dist)


def draw(rng, dist, params):
    """Draw a value (rounded to float32 so that both sides see the same number)."""
    d = PROBE_KIND.get(dist, dist)
    if d == "cat":
        d = "categorical"
    if d == "normal":
        return np.float32(float(params[0]) + float(params[1]) * rng.standard_normal())
    if d == "uniform":
        lo, hi = float(params[0]), float(params[1])
        v = np.float32(lo + (hi - lo) * rng.uniform(0.02, 0.98))
        return v
    if d == "exponential":
        return np.float32(rng.exponential() / float(params[0]) + 1e-3)
    if d == "flip":
        return np.bool_(rng.random() < float(params[0]))
    if d == "categorical":
        lg = np.asarray(params[0], dtype=np.float64)
        p = np.exp(lg - lg.max())
        p /= p.sum()
        return np.int32(rng.choice(len(p), p=p))
    if d == "mvn":
        mu = np.asarray(params[0], dtype=np.float64)
        cov = np.asarray(params[1], dtype=np.float64)
        return rng.multivariate_normal(mu, cov).astype(np.float32)
    raise ValueError(dist)


def support(dist, params):
    d = PROBE_KIND.get(dist, dist)
    if d == "flip":
        return [np.bool_(False), np.bool_(True)]
    if d in ("cat", "categorical"):
        return [np.int32(i) for i in range(len(np.asarray(params[0])))]
    return None


# ---------------------------------------------------------------------------
class SiteRec:
    __slots__ = ("path", "idx", "tag", "dist", "params", "value", "logp", "given", "ghost")

    def __init__(self, path, idx, tag, dist, params, value, logp, given, ghost=False):
        self.ghost = ghost  # site of a Cond branch that was evaluated but not taken
        self.path = path  # static address path
        self.idx = idx  # tuple of ("v", lane) / ("s", iteration) pairs, outermost first
        self.tag = tag
        self.dist = dist
        self.params = params
        self.value = value
        self.logp = logp
        self.given = given  # value came from ``choices`` (True) or from the chooser


class Result:
    def __init__(self):
        self.sites: list[SiteRec] = []
        self.retval = None
        self.choices = None
        self.min_margin = math.inf
        self.conds = {}  # (static path, idx) -> branch taken (bool), visible Conds only

    @property
    def visible(self):
        return [s for s in self.sites if not s.ghost]

    @property
    def total(self):
        return float(sum(s.logp for s in self.sites if not s.ghost))

    def by_path(self):
        out = {}
        for s in self.sites:
            if not s.ghost:
                out[s.path] = out.get(s.path, 0.0) + s.logp
        return out

    def abs_sum(self):
        return float(sum(abs(s.logp) for s in self.sites if math.isfinite(s.logp) and not s.ghost))


def _index(tree, i):
    if tree is None:
        return None
    if isinstance(tree, dict):
        return {k: _index(v, i) for k, v in tree.items()}
    return np.asarray(tree)[i]


def _stack(trees):
    t0 = trees[0]
    if isinstance(t0, dict):
        return {k: _stack([t[k] for t in trees]) for k in t0}
    if isinstance(t0, tuple):
        return tuple(_stack([t[j] for t in trees]) for j in range(len(t0)))
    return np.stack([np.asarray(t) for t in trees])


def _slice_arg(a, axis, i):
    if axis is None:
        return a
    return np.take(np.asarray(a), i, axis=axis)


class Ref:
    def __init__(self, chooser=None):
        self.E = Evaluator(np, True)
        self.chooser = chooser
        self.res = Result()
        self.ghost = 0

    def site(self, path, idx, st_tag, dist, args, sub):
        params = tuple(np.asarray(a, dtype=np.float64) for a in args)
        given = sub is not None
        if given:
            v = np.asarray(sub)
        else:
            if self.chooser is None:
                raise KeyError("/".join(path))
            v = np.asarray(self.chooser(path, idx, dist, params))
        lp = logpdf(dist, v, params)
        self.res.sites.append(SiteRec(path, idx, st_tag, dist, params, v, lp, given, self.ghost > 0))
        return v

    def fn(self, prog, args, kwargs, choices, path, idx):
        env = dict(zip(prog["params"], args))
        env.update(kwargs or {})
        out_ch = {}
        choices = choices or {}
        for st in prog["body"]:
            k = st["k"]
            if k == "let":
                env[st["var"]] = self.E.ev(st["e"], env)
                continue
            addr = st["addr"]
            a = [self.E.ev(x, env) for x in st.get("args", [])]
            sub = choices.get(addr)
            p = path + (addr,)
            if k == "site":
                v = self.site(p, idx, st["tag"], st["dist"], a, sub)
                env[addr] = v
                out_ch[addr] = v
            elif k == "call":
                kw = {n: self.E.ev(x, env) for n, x in st.get("kwargs", {}).items()}
                r, ch = self.fn(st["prog"], a, kw, sub, p, idx)
                env[addr] = r
                out_ch[addr] = ch
            elif k == "vmap":
                n = st["n"]
                ia = st["in_axes"]
                if ia is None:
                    axes = [None] * len(a)
                elif isinstance(ia, int):
                    axes = [ia] * len(a)
                else:
                    axes = list(ia)
                rs, chs = [], []
                cal = st["callee"]
                for i in range(n):
                    ai = [_slice_arg(x, ax, i) for x, ax in zip(a, axes)]
                    si = _index(sub, i) if sub is not None else None
                    if "dist" in cal and st.get("inner"):
                        vs = [self.site(p, idx + (("v", i), ("r", j)), cal["tag"], cal["dist"], ai, _index(si, j) if si is not None else None)
                              for j in range(st["inner"])]
                        v = _stack(vs)
                        rs.append(v)
                        chs.append(v)
                    elif "dist" in cal:
                        v = self.site(p, idx + (("v", i),), cal["tag"], cal["dist"], ai, si)
                        rs.append(v)
                        chs.append(v)
                    else:
                        r, ch = self.fn(cal, ai, {}, si, p, idx + (("v", i),))
                        rs.append(r)
                        chs.append(ch)
                env[addr] = _stack(rs)
                out_ch[addr] = _stack(chs)
            elif k == "scan":
                carry = self.E.ev(st["init"], env)
                xs = self.E.ev(st["xs"], env)
                outs, chs = [], []
                skw = {n: self.E.ev(x, env) for n, x in st.get("kwargs", {}).items()}
                for t in range(st["length"]):
                    st_sub = _index(sub, t) if sub is not None else None
                    (carry, o), ch = self.fn(st["step"], [carry, np.asarray(xs)[t]], skw, st_sub, p, idx + (("s", t),))
                    outs.append(o)
                    chs.append(ch)
                env[addr] = (carry, _stack(outs))
                out_ch[addr] = _stack(chs)
            elif k == "cond":
                pred = bool(self.E.ev(st["pred"], env))
                br = st["T"] if pred else st["F"]
                if self.ghost == 0:
                    self.res.conds[(p, idx)] = pred
                if isinstance(sub, dict) and "__T__" in sub:
                    # both-branch choices (taken from the real trace's two sub-traces):
                    # the untaken branch is evaluated as a ghost, in Cond's own order (T, F)
                    outs = {}
                    for name in ("T", "F"):
                        taken = (name == "T") == pred
                        if not taken:
                            self.ghost += 1
                        outs[name] = self.fn(st[name], a, {}, sub["__" + name + "__"], p, idx)
                        if not taken:
                            self.ghost -= 1
                    r, ch = outs["T" if pred else "F"]
                else:
                    r, ch = self.fn(br, a, {}, sub, p, idx)
                env[addr] = r
                out_ch[addr] = ch
            else:
                raise ValueError(k)
        return self.E.ev(prog["ret"], env), out_ch


def run(prog, args, kwargs=None, choices=None, chooser=None) -> Result:
    r = Ref(chooser)
    a = []
    for (cls, shape), v in zip(prog["ptypes"], args):
        if cls == "f":
            a.append(np.asarray(np.asarray(v, dtype=np.float32), dtype=np.float64))
        elif cls == "b":
            a.append(np.asarray(v, dtype=bool))
        else:
            a.append(np.asarray(v, dtype=np.int64))
    ret, ch = r.fn(prog, a, kwargs or {}, choices, (), ())
    r.res.retval = ret
    r.res.choices = ch
    r.res.min_margin = min(r.E.margins) if r.E.margins else math.inf
    return r.res


def full_choices(tr, prog):
    """Both-branch choice map read from the real trace's internal sub-traces
    (observation hook on ``Tr._choices`` / ``ScanTr.traces`` / ``CondTr.trs``)."""
    out = {}
    sub = tr._choices
    for st in prog["body"]:
        k = st["k"]
        if k == "let":
            continue
        t = sub[st["addr"]]
        if k == "site":
            out[st["addr"]] = to_numpy(t.get_choices())
        elif k == "call":
            out[st["addr"]] = full_choices(t, st["prog"])
        elif k == "vmap":
            cal = st["callee"]
            out[st["addr"]] = to_numpy(t.get_choices()) if "dist" in cal else full_choices(t, cal)
        elif k == "scan":
            out[st["addr"]] = full_choices(t.traces, st["step"])
        elif k == "cond":
            out[st["addr"]] = {"__T__": full_choices(t.trs[0], st["T"]), "__F__": full_choices(t.trs[1], st["F"])}
    return out


def prior_chooser(rng, safe=False):
    """``safe``: values usable as constraints whatever the parents turn out to
    be (the generator keeps every uniform's lo <= 1.5 and hi >= 1.9)."""

    def ch(path, idx, dist, params):
        if safe and PROBE_KIND.get(dist, dist) == "uniform":
            return np.float32(rng.uniform(1.52, 1.88))
        return draw(rng, dist, params)

    return ch


# ---------------------------------------------------------------------------
# conversions between numpy choice maps and jax choice maps
# ---------------------------------------------------------------------------
def to_numpy(tree):
    if isinstance(tree, dict):
        return {k: to_numpy(v) for k, v in tree.items()}
    if isinstance(tree, (tuple, list)):
        return tuple(to_numpy(v) for v in tree)
    return np.asarray(tree)


def to_jax(tree):
    import jax.numpy as jnp

    if isinstance(tree, dict):
        return {k: to_jax(v) for k, v in tree.items()}
    a = np.asarray(tree)
    if a.dtype == np.float64:
        a = a.astype(np.float32)
    if a.dtype == np.int64:
        a = a.astype(np.int32)
    return jnp.asarray(a)


def flat_leaves(tree, prefix=()):
    out = {}
    for k, v in tree.items():
        if isinstance(v, dict):
            out.update(flat_leaves(v, prefix + (k,)))
        else:
            out[prefix + (k,)] = v
    return out


def restrict(tree, paths, prefix=()):
    """Sub-choice-map holding exactly the leaves in ``paths`` (or None)."""
    out = {}
    for k, v in tree.items():
        p = prefix + (k,)
        if isinstance(v, dict):
            r = restrict(v, paths, p)
            if r:
                out[k] = r
        elif p in paths:
            out[k] = v
    return out


def tol(abs_sum, n_terms=1, rel=1e-5):
    """Condition-aware bound for comparing a float32 sum of ``n_terms``
    log-density-like terms of total magnitude ``abs_sum`` with float64."""
    return rel * (1.0 + abs_sum) + 2e-6 * n_terms


def close(a, b, scale=1.0, rel=2e-5):
    if isinstance(a, (tuple, list)) or isinstance(b, (tuple, list)):
        return (
            isinstance(a, (tuple, list))
            and isinstance(b, (tuple, list))
            and len(a) == len(b)
            and all(close(x, y, scale, rel) for x, y in zip(a, b))
        )
    a = np.asarray(a, dtype=np.float64)
    b = np.asarray(b, dtype=np.float64)
    if a.shape != b.shape:
        return False
    both_inf = np.isinf(a) & np.isinf(b) & (np.sign(a) == np.sign(b))
    with np.errstate(invalid="ignore"):
        ok = np.abs(a - b) <= rel * (scale + np.abs(b)) * 4 + 1e-6
    return bool(np.all(ok | both_inf))


def selftest():
    from scipy import stats

    assert abs(logpdf("normal", 0.3, (0.1, 0.7)) - stats.norm.logpdf(0.3, 0.1, 0.7)) < 1e-12
    assert abs(logpdf("uniform", 0.3, (-1.0, 2.0)) - stats.uniform.logpdf(0.3, -1.0, 3.0)) < 1e-12
    assert abs(logpdf("exponential", 0.3, (2.0,)) - stats.expon.logpdf(0.3, scale=0.5)) < 1e-12
    assert abs(logpdf("flip", True, (0.3,)) - math.log(0.3)) < 1e-12
    assert abs(logpdf("categorical", 1, ([0.0, 1.0, -1.0],)) - (1.0 - math.log(math.e + 1 + 1 / math.e))) < 1e-12
    mu, cov = [0.1, -0.2], [[1.0, 0.3], [0.3, 0.8]]
    assert abs(logpdf("mvn", [0.5, 0.5], (mu, cov)) - stats.multivariate_normal.logpdf([0.5, 0.5], mu, cov)) < 1e-10
