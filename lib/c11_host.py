"""C11 — host side of the controlled randomness for ADEV estimators.

``install()`` replaces the two randomness doors the ADEV estimators use (DESIGN
§3.2) by wrappers that can be switched on and off per run:

* ``genjax.pjax.sample_binder`` — every *internal* draw of an estimator
  (``flip.sample(p)`` in FlipMVD / the lane-wise Rao-Blackwellised estimator /
  REINFORCE's bound ``flip.sample``, ``geometric.sample``, ``normal.sample``
  (also the N(0,1) noise of the reparameterised primitives), ``uniform.sample``,
  ``multivariate_normal.sample``) ends there; the site is recognised by the
  name of the built-in distribution;
* ``genjax.adev.sample_binder`` — the *outer* ADEV site
  (``sample_primitive``); its keyed sampler runs when a site is executed
  without ADEV semantics: forward runs of the source program and the *pure*
  continuation used by FlipMVD's phantom evaluation.

While the host is OFF both wrappers pass everything through unchanged (real TFP
samplers, real keys).  While it is ON the keyed sampler of a recognised site is
a host call-back that receives the per-element parameters the site actually
saw, logs an event and returns

  mode "script":  the next entry of an outcome script for discrete sites
                  (flip, geometric truncated at tail mass < 1e-9, and normal
                  sites scripted at Gauss-Hermite nodes), a fixed standardised
                  noise value for the other continuous sites;
  mode "policy":  a deterministic function of the element's parameters and a
                  fixed uniform / normal quantile (inverse-cdf), so that a lane
                  of a vectorised run and a stand-alone run with the same
                  parameters see the same outcome;
  mode "observe": a host-drawn value from the reference law (numpy generator).

Import only inside workers.
"""

from __future__ import annotations

import math

import numpy as np

GEO_TAIL = 1e-9


class Ev:
    __slots__ = ("door", "kind", "params", "value", "probs", "chosen", "std", "call")

    def __init__(self, door, kind, params, value, probs=None, chosen=None, std=None):
        self.door = door  # "internal" | "outer"
        self.kind = kind
        self.params = params
        self.value = value
        self.probs = probs
        self.chosen = chosen
        self.std = std  # standardised noise of a continuous draw
        self.call = None  # index of the host call (one call per site evaluation / per lane) the element belongs to

    def as_dict(self):
        return {"door": self.door, "kind": self.kind, "params": [np.asarray(p).tolist() for p in self.params],
                "value": np.asarray(self.value).tolist()}


def gh_nodes(n):
    t, w = np.polynomial.hermite_e.hermegauss(n)
    return t, w / math.sqrt(2 * math.pi)


def geo_support(p):
    """number of outcomes so that the neglected tail mass (1-p)^K < GEO_TAIL."""
    return int(math.ceil(math.log(GEO_TAIL) / math.log1p(-p))) + 1


def geo_p(x, param):
    return float(x) if param == "probs" else 1.0 / (1.0 + math.exp(-float(x)))


class Host:
    def __init__(self):
        self.on = False
        self.reset("observe")

    def reset(self, mode="observe", seed=0, script=None, eps=0.0, u=0.5, gh=0, geo_param="probs", eps_stream=None):
        self.mode = mode
        self.rng = np.random.default_rng(seed)
        self.script = list(script or [])
        self.pos = 0
        self.events: list[Ev] = []
        self.calls = 0
        self.eps = float(eps)  # standard-normal quantile used for unscripted normal sites
        self.u = float(u)  # uniform quantile used for unscripted uniform sites / policy mode
        self.gh = int(gh)  # >0: *internal* N(mu, sigma) draws with (mu, sigma) != (0, 1) are scripted at GH nodes
        self.geo_param = geo_param
        self.eps_stream = None if eps_stream is None else list(eps_stream)

    # ---- one element ------------------------------------------------------
    def _discrete(self, door, kind, params, probs, values):
        if self.mode == "script":
            idx = int(self.script[self.pos]) if self.pos < len(self.script) else 0
            self.pos += 1
        elif self.mode == "policy":
            idx = int(min(np.searchsorted(np.cumsum(probs), self.u, side="right"), len(probs) - 1))
        else:
            idx = int(self.rng.choice(len(probs), p=probs / probs.sum()))
        val = values[idx]
        self.events.append(Ev(door, kind, params, val, probs, idx))
        return val

    def draw(self, door, kind, params):
        if kind == "flip":
            p = float(params[0])
            return self._discrete(door, kind, params, np.array([1.0 - p, p]), [False, True])
        if kind == "geometric":
            p = geo_p(params[0], self.geo_param)
            K = geo_support(p)
            k = np.arange(K)
            return self._discrete(door, kind, params, p * (1.0 - p) ** k, list(k.astype(np.float32)))
        if kind == "categorical":
            lg = np.asarray(params[0], dtype=np.float64)
            w = np.exp(lg - lg.max())
            return self._discrete(door, kind, params, w / w.sum(), list(range(len(w))))
        if kind == "normal":
            mu, sg = float(params[0]), float(params[1])
            standard = mu == 0.0 and sg == 1.0
            if self.gh and door == "internal" and not standard and self.mode == "script":
                t, w = gh_nodes(self.gh)
                z = self._discrete(door, "normal_gh", params, w, list(t))
                self.events[-1].std = z
                val = np.float32(mu + sg * z)
                self.events[-1].value = val
                return val
            if self.eps_stream is not None:
                z = self.eps_stream.pop(0)
            elif self.mode == "observe":
                z = float(self.rng.standard_normal())
            else:
                z = self.eps
            val = np.float32(mu + sg * z)
            self.events.append(Ev(door, kind, params, val, std=z))
            return val
        if kind == "uniform":
            lo, hi = float(params[0]), float(params[1])
            if self.eps_stream is not None:
                z = self.eps_stream.pop(0)
            elif self.mode == "observe":
                z = float(self.rng.uniform(0.02, 0.98))
            else:
                z = self.u
            val = np.float32(lo + (hi - lo) * z)
            self.events.append(Ev(door, kind, params, val, std=z))
            return val
        raise ValueError(kind)

    # ---- call-backs --------------------------------------------------------
    def callback(self, door, kind, out_shape, *params):
        self.calls += 1
        n = int(np.prod(out_shape)) if len(out_shape) else 1
        dtype = {"flip": np.bool_, "categorical": np.int32}.get(kind, np.float32)
        out = np.empty((n,), dtype=dtype)
        flat = []
        for p in params:
            p = np.asarray(p, dtype=np.float64)
            flat.append(p.reshape((n, p.shape[-1])) if kind == "categorical" else p.reshape((n,)))
        n0 = len(self.events)
        for i in range(n):
            out[i] = self.draw(door, kind, tuple(f[i] for f in flat))
        for e in self.events[n0:]:
            e.call = self.calls
        return out.reshape(out_shape)

    def callback_mvn(self, door, out_shape, loc, cov):
        """loc: out_shape (+d), cov: out_shape + (d, d) -> loc + chol(cov) @ z, z element-wise like a normal site."""
        self.calls += 1
        loc = np.asarray(loc, dtype=np.float64)
        cov = np.asarray(cov, dtype=np.float64)
        d = loc.shape[-1]
        lf = loc.reshape((-1, d))
        cf = cov.reshape((-1, d, d))
        out = np.empty_like(lf)
        for i in range(lf.shape[0]):
            L = np.linalg.cholesky(cf[i])
            z = np.empty((d,))
            for j in range(d):
                if self.eps_stream is not None:
                    z[j] = self.eps_stream.pop(0)
                elif self.mode == "observe":
                    z[j] = self.rng.standard_normal()
                else:
                    z[j] = self.eps * (1.0 - 0.35 * j)  # distinct per coordinate, deterministic
            out[i] = lf[i] + L @ z
            self.events.append(Ev(door, "mvn", (lf[i], cf[i]), out[i].astype(np.float32), std=z))
            self.events[-1].call = self.calls
        return out.reshape(loc.shape).astype(np.float32)


HOST = Host()

INTERNAL_NAMES = {"Flip": "flip", "Geometric": "geometric", "Normal": "normal", "Uniform": "uniform",
                  "Categorical": "categorical", "MultivariateNormal": "mvn"}
COUNTS = {"internal_sites_bound": 0, "outer_sites_bound": 0}


def _host_sampler(door, kind, orig):
    import jax
    import jax.numpy as jnp
    from functools import partial
    from jax.experimental import io_callback

    def keyful(key, *params, sample_shape=(), **kwargs):
        if not HOST.on:
            return orig(key, *params, sample_shape=sample_shape, **kwargs)
        params = tuple(jax.lax.stop_gradient(jnp.asarray(p, dtype=jnp.float32)) for p in params)
        if kind == "mvn":
            loc, cov = params
            batch = jnp.broadcast_shapes(loc.shape[:-1], cov.shape[:-2])
            d = loc.shape[-1]
            out_shape = tuple(sample_shape) + tuple(batch)
            return io_callback(
                partial(HOST.callback_mvn, door, out_shape),
                jax.ShapeDtypeStruct(out_shape + (d,), jnp.float32),
                jnp.broadcast_to(loc, out_shape + (d,)),
                jnp.broadcast_to(cov, out_shape + (d, d)),
                ordered=False,
            )
        if kind == "categorical":
            batch = params[0].shape[:-1]
            out_shape = tuple(sample_shape) + tuple(batch)
            bparams = (jnp.broadcast_to(params[0], out_shape + params[0].shape[-1:]),)
        else:
            batch = jnp.broadcast_shapes(*[p.shape for p in params])
            out_shape = tuple(sample_shape) + tuple(batch)
            bparams = tuple(jnp.broadcast_to(p, out_shape) for p in params)
        dtype = {"flip": jnp.bool_, "categorical": jnp.int32}.get(kind, jnp.float32)
        return io_callback(partial(HOST.callback, door, kind, out_shape), jax.ShapeDtypeStruct(out_shape, dtype), *bparams,
                           ordered=False)

    return keyful


def outer_kind(adev_prim, adev):
    """Reference law of an ADEV primitive executed as a plain sample site."""
    cls = type(adev_prim).__name__
    if cls in ("FlipEnum", "FlipMVD", "FlipEnumParallel"):
        return "flip"
    if cls == "CategoricalEnumParallel":
        return "categorical"
    if cls == "NormalREPARAM":
        return "normal"
    if cls == "UniformREPARAM":
        return "uniform"
    if cls == "MultivariateNormalREPARAM":
        return "mvn"
    if cls == "REINFORCE":
        for nm, kind in (("flip_reinforce", "flip"), ("geometric_reinforce", "geometric"), ("normal_reinforce", "normal"),
                         ("uniform_reinforce", "uniform"), ("multivariate_normal_reinforce", "mvn")):
            if getattr(adev, nm)._sample.value is adev_prim:
                return kind
    return None  # e.g. MultivariateNormalDiagREPARAM: left to the real sampler


_INSTALLED = {}


def install():
    """Idempotent.  Returns the HOST."""
    if _INSTALLED:
        return HOST
    import genjax.adev as adev
    import genjax.pjax as pjax

    real_pjax_binder = pjax.sample_binder
    real_adev_binder = adev.sample_binder

    def pjax_binder(keyful_sampler, name=None, *a, **kw):
        kind = INTERNAL_NAMES.get(name)
        if kind is not None and kw.get("primitive", None) in (None, pjax.sample_p):
            COUNTS["internal_sites_bound"] += 1
            keyful_sampler = _host_sampler("internal", kind, keyful_sampler)
        return real_pjax_binder(keyful_sampler, name, *a, **kw)

    def adev_binder(keyful_sampler, *a, **kw):
        prim = (kw.get("primitive_params") or {}).get("adev_prim")
        kind = outer_kind(prim, adev) if prim is not None else None
        if kind is not None:
            COUNTS["outer_sites_bound"] += 1
            keyful_sampler = _host_sampler("outer", kind, keyful_sampler)
        return real_adev_binder(keyful_sampler, *a, **kw)

    pjax.sample_binder = pjax_binder
    adev.sample_binder = adev_binder
    _INSTALLED["ok"] = True
    return HOST


class TooManyLeaves(Exception):
    pass


def explore(run, max_leaves=4096, **reset_kw):
    """Depth-first enumeration of all outcome scripts of the discrete events.
    Yields (result, probability, events) per complete script."""
    stack = [[]]
    leaves = 0
    while stack:
        prefix = stack.pop()
        HOST.reset("script", script=prefix, **reset_kw)
        HOST.on = True
        try:
            result = run()
        finally:
            HOST.on = False
        events = [e for e in HOST.events if e.probs is not None]
        path = [e.chosen for e in events]
        prob = 1.0
        for e in events:
            prob *= float(e.probs[e.chosen])
        leaves += 1
        if leaves > max_leaves:
            raise TooManyLeaves(leaves)
        for i in range(len(prefix), len(events)):
            for alt in range(len(events[i].probs)):
                if alt != path[i] and events[i].probs[alt] > 0:
                    stack.append(path[:i] + [alt])
        yield result, prob, list(HOST.events)
