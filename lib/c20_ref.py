"""Independent float64 references for property C20 (numpy / scipy only).

Nothing here shares code or algorithm with ``genjax.extras.state_space``:

* discrete HMM  -> explicit enumeration of all K^T state sequences; every
  quantity (joint, marginal, filtering distribution, posterior over whole
  sequences) is a plain sum of products of table entries.  No forward
  recursion, no log-space arithmetic.
* linear-Gaussian SSM -> the dense joint Gaussian of (x_0..x_{T-1}, y_0..y_{T-1})
  is written down from the closed form x_t = A^t x_0 + sum_s A^(t-s) w_s and
  conditioned with one dense solve.  No predict/update recursion, no RTS pass.

Also: seeded generators of the model families (parameters are rounded to
float32 *before* the reference sees them, so input rounding is never counted
as an error of the code under test).
"""

from __future__ import annotations

import itertools
import math

import numpy as np

# ---------------------------------------------------------------------------
# discrete HMM: brute force
# ---------------------------------------------------------------------------


def enum_sequences(K: int, T: int) -> np.ndarray:
    """All K^T sequences, shape (K^T, T), lexicographic (x_0 slowest)."""
    if T == 0:
        return np.zeros((1, 0), dtype=np.int64)
    return np.array(list(itertools.product(range(K), repeat=T)), dtype=np.int64)


def hmm_joint_prob(pi, A, B, xs, ys) -> float:
    """p(x_{0:n}, y_{0:n}) as a plain product (python floats)."""
    p = float(pi[xs[0]]) * float(B[xs[0], ys[0]])
    for t in range(1, len(xs)):
        p *= float(A[xs[t - 1], xs[t]]) * float(B[xs[t], ys[t]])
    return p


def hmm_joint_terms(pi, A, B, xs, ys) -> list[float]:
    """The 2T individual factors of the joint (for tolerances)."""
    out = [float(pi[xs[0]]), float(B[xs[0], ys[0]])]
    for t in range(1, len(xs)):
        out += [float(A[xs[t - 1], xs[t]]), float(B[xs[t], ys[t]])]
    return out


def _safe_log(p):
    p = np.asarray(p, dtype=np.float64)
    with np.errstate(divide="ignore"):
        return np.log(p)


def hmm_brute(pi, A, B, ys) -> dict:
    """Everything about one (model, observation sequence) by enumeration.

    Returns dict with
      seqs        (K^T, T) all state sequences
      joint       (K^T,)   p(x, y)
      marginal    float    p(y) = sum_x p(x, y)
      log_marginal
      post        (K^T,)   p(x | y)   (None if p(y) == 0)
      filt        (T, K)   p(x_t | y_{0:t}); rows of nan from the first t with p(y_{0:t}) == 0
      first_impossible  index of that t, or T
      prefix_marginal   (T,) p(y_{0:t})
    """
    pi = np.asarray(pi, np.float64)
    A = np.asarray(A, np.float64)
    B = np.asarray(B, np.float64)
    ys = [int(y) for y in ys]
    K, T = len(pi), len(ys)
    filt = np.full((T, K), np.nan)
    prefix_marginal = np.zeros(T)
    first_impossible = T
    for t in range(T):
        acc = np.zeros(K)
        for xs in itertools.product(range(K), repeat=t + 1):
            acc[xs[-1]] += hmm_joint_prob(pi, A, B, xs, ys[: t + 1])
        tot = float(acc.sum())
        prefix_marginal[t] = tot
        if tot > 0.0:
            filt[t] = acc / tot
        elif first_impossible == T:
            first_impossible = t
    seqs = enum_sequences(K, T)
    joint = np.array([hmm_joint_prob(pi, A, B, xs, ys) for xs in seqs])
    marginal = float(joint.sum())
    return {
        "seqs": seqs,
        "joint": joint,
        "log_joint": _safe_log(joint),
        "marginal": marginal,
        "log_marginal": float(_safe_log(marginal)),
        "post": joint / marginal if marginal > 0 else None,
        "filt": filt,
        "first_impossible": first_impossible,
        "prefix_marginal": prefix_marginal,
    }


def softmax64(logits) -> np.ndarray:
    """Normalised probabilities of a logits vector; -inf entries -> 0.  All -inf / nan -> nan vector."""
    l = np.asarray(logits, np.float64)
    if np.any(np.isnan(l)) or not np.any(np.isfinite(l)):
        return np.full(l.shape, np.nan)
    m = np.max(l)
    e = np.exp(l - m)
    return e / e.sum()


# ---------------------------------------------------------------------------
# discrete HMM: model families
# ---------------------------------------------------------------------------
HMM_FLAVORS = ["dense", "sparse", "onehot", "left_to_right", "skewed", "sparse_arbitrary_obs"]


def _f32(x):
    return np.asarray(x, np.float32).astype(np.float64)


def _stochastic_rows(rng, n_rows, n_cols, conc, zero_prob=0.0, tiny=False):
    out = np.zeros((n_rows, n_cols))
    for i in range(n_rows):
        row = rng.dirichlet(np.full(n_cols, conc))
        row = np.maximum(row, 1e-3)  # keep the non-zeros away from denormal territory
        if tiny and n_cols > 1:
            j = int(rng.integers(n_cols))
            row[j] = 10.0 ** rng.uniform(-4.5, -3.0)
        if zero_prob > 0 and n_cols > 1:
            mask = rng.random(n_cols) < zero_prob
            if mask.all():
                mask[int(rng.integers(n_cols))] = False
            row[mask] = 0.0
        out[i] = row / row.sum()
    return out


def gen_hmm(desc: dict) -> dict:
    """Parameters + observation sequence for one HMM case descriptor."""
    rng = np.random.default_rng(desc["rng"])
    K, M, T, flavor = desc["K"], desc["M"], desc["T"], desc["flavor"]
    conc = float(rng.choice([0.3, 1.0, 3.0]))
    if flavor == "dense":
        pi = _stochastic_rows(rng, 1, K, conc)[0]
        A = _stochastic_rows(rng, K, K, conc)
        B = _stochastic_rows(rng, K, M, conc)
    elif flavor in ("sparse", "sparse_arbitrary_obs"):
        zp = float(rng.choice([0.3, 0.5, 0.7]))
        pi = _stochastic_rows(rng, 1, K, conc, zp)[0]
        A = _stochastic_rows(rng, K, K, conc, zp)
        B = _stochastic_rows(rng, K, M, conc, zp)
    elif flavor == "onehot":
        # deterministic dynamics (a random map or a permutation), noisy or partly exact emissions
        pi = _stochastic_rows(rng, 1, K, conc, 0.3)[0]
        A = np.zeros((K, K))
        tgt = rng.permutation(K) if rng.random() < 0.5 else rng.integers(K, size=K)
        A[np.arange(K), tgt] = 1.0
        B = _stochastic_rows(rng, K, M, conc, 0.3 if rng.random() < 0.5 else 0.0)
    elif flavor == "left_to_right":
        pi = np.zeros(K)
        pi[0] = 1.0
        A = np.triu(_stochastic_rows(rng, K, K, conc))
        A = A / A.sum(axis=1, keepdims=True)
        B = _stochastic_rows(rng, K, M, conc)
    elif flavor == "skewed":
        pi = _stochastic_rows(rng, 1, K, conc, tiny=True)[0]
        A = _stochastic_rows(rng, K, K, conc, tiny=True)
        B = _stochastic_rows(rng, K, M, conc, tiny=True)
    else:
        raise ValueError(flavor)
    pi32, A32, B32 = (np.asarray(v, np.float32) for v in (pi, A, B))
    pi, A, B = (v.astype(np.float64) for v in (pi32, A32, B32))
    # observations
    if flavor == "sparse_arbitrary_obs":
        ys = rng.integers(M, size=T)
    else:
        # ancestral sample from the model (so p(y) > 0), done here in float64
        x = int(rng.choice(K, p=pi / pi.sum()))
        ys = []
        for t in range(T):
            if t > 0:
                x = int(rng.choice(K, p=A[x] / A[x].sum()))
            ys.append(int(rng.choice(M, p=B[x] / B[x].sum())))
        ys = np.array(ys)
    n_zero = int((pi == 0).sum() + (A == 0).sum() + (B == 0).sum())
    return {"pi": pi, "A": A, "B": B, "ys": np.asarray(ys, np.int64), "n_zero": n_zero}


# ---------------------------------------------------------------------------
# linear-Gaussian SSM: dense joint Gaussian
# ---------------------------------------------------------------------------


def mvn_logpdf(x, mean, cov) -> float:
    x = np.asarray(x, np.float64).ravel()
    mean = np.asarray(mean, np.float64).ravel()
    cov = np.asarray(cov, np.float64)
    L = np.linalg.cholesky(cov)
    z = np.linalg.solve(L, x - mean)
    return float(-0.5 * z @ z - np.log(np.diag(L)).sum() - 0.5 * len(x) * math.log(2 * math.pi))


def lg_dense_joint(mu0, P0, A, Q, C, R, T) -> dict:
    """Mean and covariance of X = (x_0..x_{T-1}) and Y = (y_0..y_{T-1}) stacked, from the closed form."""
    mu0, P0, A, Q, C, R = (np.asarray(v, np.float64) for v in (mu0, P0, A, Q, C, R))
    ds, do = len(mu0), C.shape[0]
    Apow = [np.eye(ds)]
    for _ in range(T):
        Apow.append(Apow[-1] @ A)
    # X = m + G xi,   xi = (x0 - mu0, w_1, ..., w_{T-1}),  Cov(xi) = blockdiag(P0, Q, ..., Q)
    G = np.zeros((T * ds, T * ds))
    S = np.zeros((T * ds, T * ds))
    m = np.zeros(T * ds)
    for t in range(T):
        m[t * ds : (t + 1) * ds] = Apow[t] @ mu0
        S[t * ds : (t + 1) * ds, t * ds : (t + 1) * ds] = P0 if t == 0 else Q
        for s in range(t + 1):
            G[t * ds : (t + 1) * ds, s * ds : (s + 1) * ds] = Apow[t - s]
    cov_x = G @ S @ G.T
    H = np.kron(np.eye(T), C)  # (T*do, T*ds)
    cov_y = H @ cov_x @ H.T + np.kron(np.eye(T), R)
    cov_xy = cov_x @ H.T
    return {
        "mean_x": m,
        "cov_x": cov_x,
        "mean_y": H @ m,
        "cov_y": 0.5 * (cov_y + cov_y.T),
        "cov_xy": cov_xy,
        "ds": ds,
        "do": do,
        "T": T,
    }


def lg_condition(J: dict, ys, n_obs_steps: int):
    """Mean / covariance of all of X given y_0 .. y_{n_obs_steps-1} (dense conditioning)."""
    do = J["do"]
    n = n_obs_steps * do
    y = np.asarray(ys, np.float64).reshape(-1)[:n]
    Syy = J["cov_y"][:n, :n]
    Sxy = J["cov_xy"][:, :n]
    sol = np.linalg.solve(Syy, np.column_stack([y - J["mean_y"][:n], Sxy.T]))
    mean = J["mean_x"] + Sxy @ sol[:, 0]
    cov = J["cov_x"] - Sxy @ sol[:, 1:]
    return mean, 0.5 * (cov + cov.T)


def lg_reference(mu0, P0, A, Q, C, R, ys) -> dict:
    ys = np.asarray(ys, np.float64)
    T = ys.shape[0]
    J = lg_dense_joint(mu0, P0, A, Q, C, R, T)
    ds = J["ds"]
    fm, fc = np.zeros((T, ds)), np.zeros((T, ds, ds))
    for t in range(T):
        mean, cov = lg_condition(J, ys, t + 1)
        fm[t] = mean[t * ds : (t + 1) * ds]
        fc[t] = cov[t * ds : (t + 1) * ds, t * ds : (t + 1) * ds]
    mean, cov = lg_condition(J, ys, T)
    sm = mean.reshape(T, ds)
    sc = np.stack([cov[t * ds : (t + 1) * ds, t * ds : (t + 1) * ds] for t in range(T)])
    lm = mvn_logpdf(ys.reshape(-1), J["mean_y"], J["cov_y"])
    # magnitude of the quantities entering the marginal (for tolerances)
    L = np.linalg.cholesky(J["cov_y"])
    z = np.linalg.solve(L, ys.reshape(-1) - J["mean_y"])
    lm_scale = float(0.5 * z @ z + np.abs(np.log(np.diag(L))).sum() + 0.5 * len(z) * math.log(2 * math.pi))
    return {
        "filt_mean": fm,
        "filt_cov": fc,
        "smooth_mean": sm,
        "smooth_cov": sc,
        "log_marginal": lm,
        "log_marginal_scale": lm_scale,
        "joint": J,
    }


def lg_joint_logpdf_dense(J: dict, xs, ys) -> float:
    """log p(x_{0:T-1}, y_{0:T-1}) from the dense joint Gaussian of (X, Y)."""
    mean = np.concatenate([J["mean_x"], J["mean_y"]])
    cov = np.block([[J["cov_x"], J["cov_xy"]], [J["cov_xy"].T, J["cov_y"]]])
    v = np.concatenate([np.asarray(xs, np.float64).reshape(-1), np.asarray(ys, np.float64).reshape(-1)])
    return mvn_logpdf(v, mean, 0.5 * (cov + cov.T))


def lg_joint_logpdf_factored(mu0, P0, A, Q, C, R, xs, ys):
    """Same density as a sum of 2T conditional Gaussian terms; returns (total, terms)."""
    mu0, P0, A, Q, C, R = (np.asarray(v, np.float64) for v in (mu0, P0, A, Q, C, R))
    xs, ys = np.asarray(xs, np.float64), np.asarray(ys, np.float64)
    terms = []
    for t in range(xs.shape[0]):
        if t == 0:
            terms.append(mvn_logpdf(xs[0], mu0, P0))
        else:
            terms.append(mvn_logpdf(xs[t], A @ xs[t - 1], Q))
        terms.append(mvn_logpdf(ys[t], C @ xs[t], R))
    return float(sum(terms)), terms


def mvn_logpdf_scale(x, mean, cov) -> float:
    """Sum of the magnitudes of the three pieces of a Gaussian log density."""
    x = np.asarray(x, np.float64).ravel()
    L = np.linalg.cholesky(np.asarray(cov, np.float64))
    z = np.linalg.solve(L, x - np.asarray(mean, np.float64).ravel())
    return float(0.5 * z @ z + np.abs(np.log(np.diag(L))).sum() + 0.5 * len(x) * math.log(2 * math.pi))


# ---------------------------------------------------------------------------
# linear-Gaussian SSM: model families
# ---------------------------------------------------------------------------
LG_FLAVORS = ["generic", "structured", "correlated", "far_obs"]


def _spd(rng, d, lo, hi):
    if d == 1:
        return np.array([[rng.uniform(lo, hi)]])
    Qm, _ = np.linalg.qr(rng.normal(size=(d, d)))
    ev = rng.uniform(lo, hi, size=d)
    M = (Qm * ev) @ Qm.T
    return 0.5 * (M + M.T)


def gen_lg(desc: dict) -> dict:
    rng = np.random.default_rng(desc["rng"])
    ds, do, T, flavor = desc["ds"], desc["do"], desc["T"], desc["flavor"]
    mu0 = rng.normal(size=ds) * 2.0
    if flavor == "structured":
        # triangular dynamics (position/velocity style), selector-like C with exact zeros, diagonal noise
        A = np.triu(rng.uniform(-1.0, 1.0, size=(ds, ds)))
        A[np.arange(ds), np.arange(ds)] = rng.uniform(0.5, 1.0, size=ds)
        C = np.zeros((do, ds))
        for i in range(do):
            C[i, int(rng.integers(ds))] = rng.choice([1.0, -1.0, 0.5, 2.0])
        if do > 1 and rng.random() < 0.3:
            C[int(rng.integers(do))] = 0.0  # an observation channel that sees nothing
        P0 = np.diag(rng.uniform(0.3, 2.0, size=ds))
        Q = np.diag(rng.uniform(0.05, 0.5, size=ds))
        R = np.diag(rng.uniform(0.1, 1.0, size=do))
    else:
        A = rng.normal(size=(ds, ds))
        rho = max(abs(np.linalg.eigvals(A)))
        A = A * (rng.uniform(0.3, 1.1) / max(rho, 1e-6))
        # keep the norm bounded too (non-normal A can have a large norm with a small spectral radius)
        nrm = np.linalg.norm(A, 2)
        if nrm > 1.6:
            A = A * (1.6 / nrm)
        C = rng.normal(size=(do, ds))
        if flavor == "correlated":
            P0, Q, R = _spd(rng, ds, 0.1, 3.0), _spd(rng, ds, 0.05, 1.5), _spd(rng, do, 0.05, 1.5)
        else:
            P0, Q, R = _spd(rng, ds, 0.3, 2.0), _spd(rng, ds, 0.1, 1.0), _spd(rng, do, 0.2, 1.0)
    p32 = [np.asarray(v, np.float32) for v in (mu0, P0, A, Q, C, R)]
    # float32 rounding must keep the covariances exactly symmetric
    for i in (1, 3, 5):
        p32[i] = np.asarray(0.5 * (p32[i] + p32[i].T), np.float32)
    mu0, P0, A, Q, C, R = (v.astype(np.float64) for v in p32)
    # a trajectory from the model (float64 ancestral sampling)
    xs = np.zeros((T, ds))
    ys = np.zeros((T, do))
    for t in range(T):
        if t == 0:
            xs[0] = rng.multivariate_normal(mu0, P0)
        else:
            xs[t] = rng.multivariate_normal(A @ xs[t - 1], Q)
        ys[t] = rng.multivariate_normal(C @ xs[t], R)
    if flavor == "far_obs":
        ys = rng.normal(size=(T, do)) * 3.0 + rng.normal(size=do) * 2.0
    ys = np.asarray(ys, np.float32).astype(np.float64)
    # evaluation points for the step-model joint density: the model trajectory and perturbed / arbitrary ones
    pts = [(xs, ys)]
    for _ in range(desc.get("n_points", 4) - 1):
        if rng.random() < 0.5:
            px = xs + rng.normal(size=xs.shape) * 0.7
        else:
            px = rng.normal(size=xs.shape) * 2.0
        py = ys if rng.random() < 0.5 else ys + rng.normal(size=ys.shape)
        pts.append((px, py))
    pts = [(np.asarray(a, np.float32).astype(np.float64), np.asarray(b, np.float32).astype(np.float64)) for a, b in pts]
    return {"mu0": mu0, "P0": P0, "A": A, "Q": Q, "C": C, "R": R, "ys": ys, "points": pts}
