"""Independent float64 reference for property C12 (resampling).  numpy/scipy only;
shares no code with genjax.

Everything here takes the *float32 log weights the code under test was given*
as exact real numbers (converted to float64) and works out, from first
principles, what a correct resampler may return.
"""

from __future__ import annotations

import math

import numpy as np

F32_EPS = 2.0**-23

KINDS = [
    "random",
    "random_offset",
    "degenerate",
    "partly_neginf",
    "trailing_neginf",
    "leading_neginf",
    "near_uniform",
    "uniform",
    "huge_range",
    "two_heavy",
]


# ---------------------------------------------------------------------------
# workload: weight vectors
# ---------------------------------------------------------------------------
def gen_log_weights(rng: np.random.Generator, n: int, kind: str) -> np.ndarray:
    """A float32 log-weight vector of length n with at least one finite entry."""
    ninf = -np.inf
    if kind == "random":
        lw = rng.normal(0.0, rng.choice([0.3, 1.0, 3.0]), size=n)
    elif kind == "random_offset":
        # typical SMC log weights: sums of many log-likelihood terms
        lw = rng.normal(0.0, rng.choice([0.5, 2.0]), size=n) + rng.choice([-1500.0, -200.0, -37.5, 12.25, 90.0, 700.0])
    elif kind == "degenerate":
        lw = np.full(n, ninf)
        lw[rng.integers(n)] = rng.choice([0.0, -3.25, 41.0, -800.5])
    elif kind == "partly_neginf":
        lw = rng.normal(0.0, 1.5, size=n) + rng.choice([0.0, -60.0, 25.0])
        mask = rng.random(n) < rng.choice([0.2, 0.5, 0.8])
        lw[mask] = ninf
    elif kind == "trailing_neginf":
        lw = rng.normal(0.0, 1.5, size=n) + rng.choice([0.0, -60.0, 25.0])
        k = int(rng.integers(1, n)) if n > 1 else 0
        if k:
            lw[n - k :] = ninf
    elif kind == "leading_neginf":
        lw = rng.normal(0.0, 1.5, size=n) + rng.choice([0.0, -60.0, 25.0])
        k = int(rng.integers(1, n)) if n > 1 else 0
        if k:
            lw[:k] = ninf
    elif kind == "near_uniform":
        lw = np.full(n, rng.choice([0.0, -2.5, -420.0])) + rng.normal(0.0, rng.choice([1e-7, 1e-5, 1e-3]), size=n)
    elif kind == "uniform":
        lw = np.full(n, rng.choice([0.0, -1.0, -0.6931472, 3.0, -250.0]))
    elif kind == "huge_range":
        lw = -rng.uniform(0.0, rng.choice([30.0, 90.0, 200.0]), size=n)
        lw[rng.integers(n)] = 0.0
        if rng.random() < 0.5:
            lw = lw + rng.choice([-300.0, 55.0])
    elif kind == "two_heavy":
        lw = np.full(n, -25.0) + rng.normal(0, 1.0, size=n)
        idx = rng.choice(n, size=min(2, n), replace=False)
        lw[idx] = rng.normal(0.0, 0.7, size=len(idx))
    else:
        raise ValueError(kind)
    lw = lw.astype(np.float32)
    if not np.isfinite(lw).any():
        lw[rng.integers(n)] = np.float32(0.0)
    return lw


# ---------------------------------------------------------------------------
# reference quantities
# ---------------------------------------------------------------------------
def logsumexp64(lw) -> float:
    lw = np.asarray(lw, np.float64)
    m = np.max(lw)
    return float(m + math.log(np.sum(np.exp(lw - m))))


class Ref:
    """Reference quantities for one float32 log-weight vector."""

    def __init__(self, lw32: np.ndarray):
        self.lw32 = np.asarray(lw32, np.float32)
        self.n = n = int(self.lw32.shape[0])
        lw = self.lw32.astype(np.float64)
        self.finite = np.isfinite(lw)
        self.lse = logsumexp64(lw)
        self.log_w = lw - self.lse  # normalised log weights (diagnostic weights)
        self.w = np.exp(self.log_w)
        self.w = self.w / self.w.sum()
        self.nw = n * self.w
        self.maxabs = float(np.max(np.abs(lw[self.finite])))
        self.logn = math.log(n)
        # cumulative sums with exact tail
        self.cum = np.cumsum(self.w)
        last_pos = int(np.max(np.nonzero(self.w > 0)[0]))
        self.cum[last_pos:] = 1.0  # exact tail: nothing lies beyond the last positive weight
        # --- float32 pipeline error model (see module doc of checks/c12_resampling.py)
        # absolute error of a float32 cumulative weight / of a pointer position (j+u)/N
        self.eps_pos = F32_EPS * (2.0 * (1.0 + self.maxabs) + n + 8.0)
        # the same, expressed in units of the offset u (u = N*C - j) ...
        self.delta_u = n * self.eps_pos
        # ... and of the copy count N*w_i (two interval ends)
        self.delta_nw = 2.0 * n * self.eps_pos
        self.lo = np.floor(self.nw - self.delta_nw).astype(np.int64)
        self.hi = np.ceil(self.nw + self.delta_nw).astype(np.int64)
        self.lo = np.maximum(self.lo, 0)
        # strict floor/ceil (no tolerance), for reporting
        self.floor = np.floor(self.nw).astype(np.int64)
        self.ceil = np.ceil(self.nw).astype(np.int64)
        # breakpoints in u: pointer j crosses cumulative weight C_k at u = N*C_k - j
        x = n * self.cum[:-1]
        b = x - np.floor(x)
        b = b[(b > 1e-12) & (b < 1 - 1e-12)]
        self.breaks = np.unique(b)

    # -- tolerances -------------------------------------------------------
    def tol_marginal_vs_ref(self, prev: float) -> float:
        return 1e-6 * (2.0 + abs(prev) + abs(self.lse) + self.maxabs + self.logn)

    def tol_marginal_before_after(self, before: float) -> float:
        return 2.0**-21 * (1.0 + abs(before) + self.logn)

    def tol_diag(self) -> np.ndarray:
        lw = np.where(self.finite, self.lw32.astype(np.float64), 0.0)
        return 1e-6 * (2.0 + np.abs(lw) + abs(self.lse))

    # -- systematic: offsets worth scripting ------------------------------
    def offset_class(self, u: float) -> str:
        t = max(1e-6, 2.0 * self.delta_u)
        if 1.0 - u <= t:
            return "offset-near-1"
        if u <= t:
            return "offset-near-0"
        if self.breaks.size and np.min(np.abs(self.breaks - u)) <= 2.0 * self.delta_u:
            return "offset-near-breakpoint"
        return "offset-generic"

    def intervals(self):
        """Open u-intervals between consecutive reference breakpoints, as
        (lo, hi, usable) — usable when wide enough that its midpoint is safely
        inside the same interval of the float32 computation."""
        edges = np.concatenate([[0.0], self.breaks, [1.0]])
        out = []
        for a, b in zip(edges[:-1], edges[1:]):
            out.append((float(a), float(b), (b - a) > 4.0 * self.delta_u))
        return out

    def offsets(self, rng: np.random.Generator, n_grid: int, max_break_sides: int):
        """float32 offsets in (0,1): jittered dense grid, values within 1e-7 of
        0 and of 1, both sides of reference breakpoints, interval midpoints.
        Returns (array of float32, list of (index into array, lo, hi) for the
        usable-interval midpoints)."""
        us = []
        j = rng.random()
        us += [(g + j) / n_grid for g in range(n_grid)]
        us += [2.0**-24, 2.0**-23, 1e-10, 1e-30, 3e-7]
        us += [1 - 2.0**-24, 1 - 2.0**-23, 1 - 2.0**-22, 1 - 1e-6, 1 - 1e-4]
        br = self.breaks
        if br.size > max_break_sides:
            br = rng.choice(br, size=max_break_sides, replace=False)
        for b in br:
            b32 = np.float32(b)
            us += [
                float(np.nextafter(b32, np.float32(0))),
                float(b32),
                float(np.nextafter(b32, np.float32(1))),
                b - 3.0 * self.delta_u,
                b + 3.0 * self.delta_u,
            ]
        mids = []
        for a, b, ok in self.intervals():
            if ok:
                mids.append((0.5 * (a + b), a, b))
        arr = [np.float32(u) for u in us]
        arr = [u for u in arr if 0.0 < float(u) < 1.0]
        arr = list(dict.fromkeys(arr))  # dedupe, keep order
        index = {u: i for i, u in enumerate(arr)}
        mid_idx = []
        for m, a, b in mids:
            m32 = np.float32(m)
            if m32 not in index:
                index[m32] = len(arr)
                arr.append(m32)
            mid_idx.append((index[m32], a, b))
        return np.array(arr, np.float32), mid_idx

    def ref_indices(self, u: float) -> np.ndarray:
        """Reference ancestors for offset u (float64), for reports only."""
        pos = (np.arange(self.n) + u) / self.n
        cum = self.cum.copy()
        idx = np.searchsorted(cum, pos, side="left")
        return np.minimum(idx, self.n - 1)


def softmax64(logits) -> np.ndarray:
    lg = np.asarray(logits, np.float64)
    m = np.max(lg)
    e = np.exp(lg - m)
    return e / e.sum()


# ---------------------------------------------------------------------------
# exact binomial monitor (closed-form null law; no asymptotics)
# ---------------------------------------------------------------------------
def binom_two_sided_p(k: int, n: int, p_lo: float, p_hi: float) -> float:
    """Conservative two-sided p-value of observing k successes in n trials when
    the success probability is only known to lie in [p_lo, p_hi]: the largest
    p-value over the interval (tails are monotone in p, so the ends decide,
    and any k between n*p_lo and n*p_hi gets 1)."""
    from scipy.stats import binom

    p_lo = min(max(p_lo, 0.0), 1.0)
    p_hi = min(max(p_hi, 0.0), 1.0)
    if n * p_lo <= k <= n * p_hi:
        return 1.0
    best = 0.0
    for p in (p_lo, p_hi):
        lower = binom.cdf(k, n, p)
        upper = binom.sf(k - 1, n, p)
        best = max(best, min(1.0, 2.0 * min(lower, upper)))
    return float(best)


def selftest():
    """Reference-side self checks (no jax / genjax)."""
    r = Ref(np.array([0.0, 0.0], np.float32))
    assert np.allclose(r.nw, [1.0, 1.0]) and r.breaks.size == 0
    r = Ref(np.array([math.log(3.0), 0.0, -np.inf], np.float32))
    assert np.allclose(r.nw, [2.25, 0.75, 0.0], atol=1e-6)
    assert list(r.floor) == [2, 0, 0] and list(r.ceil) == [3, 1, 0]
    assert np.allclose(r.breaks, [0.25], atol=1e-6)  # 3*0.75 = 2.25
    assert r.ref_indices(0.2).tolist() == [0, 0, 0] and r.ref_indices(0.3).tolist() == [0, 0, 1]
    assert r.offset_class(1 - 2.0**-23) == "offset-near-1" and r.offset_class(0.6) == "offset-generic"
    # the breakpoint structure integrates the reference copy counts to N*w exactly
    rng = np.random.default_rng(0)
    for kind in KINDS:
        for n in (1, 2, 5, 17, 64):
            lw = gen_log_weights(rng, n, kind)
            assert lw.dtype == np.float32 and np.isfinite(lw).any()
            r = Ref(lw)
            e = np.zeros(n)
            for a, b, _ in r.intervals():
                e += (b - a) * np.bincount(r.ref_indices(0.5 * (a + b)), minlength=n)
                c = np.bincount(r.ref_indices(0.5 * (a + b)), minlength=n)
                assert np.all((c == r.floor) | (c == r.ceil) | (np.abs(r.nw - np.round(r.nw)) < 1e-9)), (kind, n)
            assert np.allclose(e, r.nw, atol=1e-9), (kind, n, e, r.nw)
            us, mids = r.offsets(rng, 10, 4)
            assert us.dtype == np.float32 and np.all((us > 0) & (us < 1)) and len(set(us.tolist())) == len(us)
    assert binom_two_sided_p(50, 100, 0.5, 0.5) == 1.0
    assert binom_two_sided_p(0, 100, 0.5, 0.5) < 1e-28
    assert abs(binom_two_sided_p(40, 100, 0.5, 0.5) - 0.0568879) < 1e-5


if __name__ == "__main__":
    selftest()
    print("c12_ref selftest passed")
