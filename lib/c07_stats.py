"""Independence / marginal-law monitors for check C07 (DESIGN §3.5).  numpy / scipy only.

All null laws are exact for finite n or conservative, so the per-test level can
sit at 1e-14 (Bonferroni share of a 1e-9 family-wise level) without leaning on
an asymptotic chi-square tail:

  ks_columns    Kolmogorov distance of every column from U(0,1); judged against the
                Dvoretzky-Kiefer-Wolfowitz-Massart bound P(D_n > e) <= 2 exp(-2 n e^2)
  corr          sample correlation of normal scores; under independence (one side
                iid normal) r*sqrt((n-2)/(1-r^2)) is exactly Student t_{n-2}
  cells4x4      quartile x quartile table of the PIT values; under independence and
                the stated marginals every cell is exactly Binomial(n, 1/16); each cell
                is judged by its exact two-sided binomial tail, Bonferroni over 16 cells
  equal_crit    number of runs in which two independent draws may coincide bitwise:
                exact Binomial(n, p0) tail with p0 = 2**-20, an 8-fold over-estimate of the
                coincidence probability of the 23-bit float32 samplers
"""

from __future__ import annotations

import numpy as np
from scipy import special as sp
from scipy import stats as st

P_COINCIDE = 2.0**-20
_UCLIP = 2.0**-25


def pit(x, dist):
    """(u, z): probability integral transform and normal score of draws ``x`` of a
    site whose law is N(0,1) (dist 'n') or U(0,1) (dist 'u')."""
    x = np.asarray(x, dtype=np.float64)
    if dist == "n":
        return sp.ndtr(x), x
    if dist == "u":
        return x, sp.ndtri(np.clip(x, _UCLIP, 1.0 - _UCLIP))
    raise ValueError(dist)


def dkw_eps(n, alpha):
    return float(np.sqrt(np.log(2.0 / alpha) / (2.0 * n)))


def ks_columns(U):
    """Kolmogorov distance from U(0,1) for every column of U[n, P]."""
    U = np.sort(np.asarray(U, dtype=np.float64), axis=0)
    n = U.shape[0]
    i = np.arange(1, n + 1, dtype=np.float64)[:, None]
    return np.maximum(np.max(i / n - U, axis=0), np.max(U - (i - 1) / n, axis=0))


def r_crit(n, alpha):
    """|r| above which the exact t_{n-2} two-sided p-value is below alpha."""
    t = float(st.t.isf(alpha / 2.0, n - 2))
    return t / np.sqrt(n - 2 + t * t)


def r_pvalue(r, n):
    r = np.clip(np.asarray(r, dtype=np.float64), -1.0, 1.0)
    with np.errstate(divide="ignore", invalid="ignore"):
        t = np.abs(r) * np.sqrt((n - 2) / np.maximum(1.0 - r * r, 1e-300))
    return 2.0 * st.t.sf(t, n - 2)


def corr_matrix(Z):
    """Sample (Pearson) correlation matrix of the columns of Z[n, P]."""
    Z = np.asarray(Z, dtype=np.float64)
    Zc = Z - Z.mean(axis=0, keepdims=True)
    s = np.sqrt(np.sum(Zc * Zc, axis=0))
    s = np.where(s > 0, s, 1.0)
    return (Zc.T @ Zc) / np.outer(s, s)


def corr_xy(x, y):
    x = np.asarray(x, dtype=np.float64).ravel()
    y = np.asarray(y, dtype=np.float64).ravel()
    x = x - x.mean()
    y = y - y.mean()
    d = np.sqrt(np.sum(x * x) * np.sum(y * y))
    return float(np.sum(x * y) / d) if d > 0 else 0.0


def quartile_bins(U):
    return np.clip(np.floor(np.asarray(U, dtype=np.float64) * 4.0), 0, 3).astype(np.int64)


def pair_cell_counts(B, chunk=40000):
    """B[n, P] quartile labels -> counts[P, P, 4, 4]: counts[i, j, a, b] = #{B[:, i]==a and B[:, j]==b}."""
    n, P = B.shape
    acc = np.zeros((4 * P, 4 * P), dtype=np.float64)
    for s in range(0, n, chunk):
        b = B[s : s + chunk]
        H = np.zeros((b.shape[0], 4 * P), dtype=np.float32)
        rows = np.arange(b.shape[0])[:, None]
        H[rows, np.arange(P)[None, :] * 4 + b] = 1.0
        acc += (H.T @ H).astype(np.float64)  # exact: chunk < 2**24
    return acc.reshape(P, 4, P, 4).transpose(0, 2, 1, 3)


def binom_band(n, p, alpha):
    """(lo, hi): a Binomial(n, p) count c is rejected two-sided at level alpha iff c <= lo or c >= hi."""
    a = alpha / 2.0
    m = int(n * p)
    # bisection on the exact tails (bdtr / bdtrc are accurate far below 1e-16; ppf / isf are not)
    l, h = -1, m  # cdf(l) <= a < cdf(h)
    while h - l > 1:
        c = (l + h) // 2
        if st.binom.cdf(c, n, p) <= a:
            l = c
        else:
            h = c
    lo = l
    l, h = m + 1, n + 1  # sf(l-1) > a >= sf(h-1)
    while h - l > 1:
        c = (l + h) // 2
        if st.binom.sf(c - 1, n, p) <= a:
            h = c
        else:
            l = c
    hi = h
    return lo, hi


def equal_crit(n, alpha, p0=P_COINCIDE):
    """Smallest K with P(Binomial(n, p0) >= K) <= alpha."""
    k = 1
    while st.binom.sf(k - 1, n, p0) > alpha:
        k += 1
    return k


def detectable(n, alpha):
    """Effects at the rejection thresholds (what a run of this size cannot miss by much)."""
    lo, hi = binom_band(n, 1.0 / 16.0, alpha / 16.0)
    return {
        "n": int(n),
        "alpha_per_test": alpha,
        "ks_distance": dkw_eps(n, alpha),
        "abs_correlation": float(r_crit(n, alpha)),
        "cell_count_band": [lo, hi],
        "cell_relative_deviation": float((hi - n / 16.0) / (n / 16.0)),
        # d P(both in top quartile) / d rho at rho = 0 for a bivariate normal = phi(q)^2, q = 0.6745
        "abs_correlation_seen_by_cells": float((hi - n / 16.0) / n / 0.10095),
        "equal_draw_runs": equal_crit(n, alpha),
    }


def selftest():
    rng = np.random.default_rng(7)
    n, a = 20000, 1e-14
    Z = rng.standard_normal((n, 6))
    U = sp.ndtr(Z)
    assert np.all(ks_columns(U) <= dkw_eps(n, a))
    assert ks_columns(U[:, :1] ** 1.2)[0] > dkw_eps(n, a)
    R = corr_matrix(Z)
    rc = r_crit(n, a)
    assert np.all(np.abs(R[np.triu_indices(6, 1)]) < rc)
    assert abs(r_pvalue(rc, n) - a) < 1e-3 * a
    Z2 = Z.copy()
    Z2[:, 1] = 0.1 * Z[:, 0] + np.sqrt(0.99) * Z[:, 1]
    assert abs(corr_matrix(Z2)[0, 1]) > rc
    C = pair_cell_counts(quartile_bins(U), chunk=7000)
    assert C.shape == (6, 6, 4, 4) and C[0, 1].sum() == n
    assert C[2, 3, 1, 2] == np.sum((quartile_bins(U)[:, 2] == 1) & (quartile_bins(U)[:, 3] == 2))
    lo, hi = binom_band(n, 1 / 16, a / 16)
    off = C[~np.eye(6, dtype=bool)]
    assert off.min() > lo and off.max() < hi
    # non-linear dependence, zero correlation: y = +-x with a fair sign
    y = Z[:, 0] * rng.choice([-1.0, 1.0], n)
    Uy = np.stack([U[:, 0], sp.ndtr(y)], axis=1)
    Cy = pair_cell_counts(quartile_bins(Uy))[0, 1]
    assert abs(corr_xy(Z[:, 0], y)) < rc and (Cy.min() <= lo or Cy.max() >= hi)
    assert equal_crit(n, a) >= 2 and equal_crit(n, a) < 12
    u, z = pit(np.array([0.0, 0.5, 1.0]), "u")
    assert np.all(np.isfinite(z)) and z[1] == 0.0
    return True


if __name__ == "__main__":
    selftest()
    print("c07_stats selftest ok", detectable(20000, 1e-14), detectable(200000, 1e-15))
