"""Worker process: runs a shard of cases of one check module and streams
JSONL records to its output file.  Runs with the translated genjax copy first
on PYTHONPATH."""

from __future__ import annotations

import hashlib
import importlib
import json
import os
import sys
import time
import traceback


class Raised:
    """Result of a guarded genjax call that raised."""

    def __init__(self, exc: BaseException, tb: str):
        self.exc = exc
        self.type = type(exc).__name__
        self.msg = str(exc)[:400]
        self.tb = tb

    def __repr__(self):
        return f"Raised({self.type}: {self.msg[:120]})"

    def brief(self):
        return {"raised": self.type, "msg": self.msg[:300], "where": self.where()}

    def where(self):
        """Innermost frame inside the genjax copy (file:line:function)."""
        bd = os.environ.get("VERIF_BUILD_DIR", "\0")
        loc = None
        for fr in traceback.extract_tb(self.exc.__traceback__):
            if fr.filename.startswith(bd):
                loc = f"{os.path.relpath(fr.filename, bd)}:{fr.lineno}:{fr.name}"
        return loc


class Ctx:
    def __init__(self, out, tier, seed, worker):
        self.out = out
        self.tier = tier
        self.seed = seed
        self.worker = worker
        self.counters: dict[str, float] = {}
        self.distinct_sets: dict[str, set] = {}
        self.samples = []
        self.notes = []
        self.evaluations = 0
        self.case = None
        self.max_samples = 3
        self.nviol = 0

    # ---- recording
    def emit(self, rec):
        self.out.write(json.dumps(rec, default=_json_default) + "\n")
        self.out.flush()

    def count(self, name, n=1):
        self.counters[name] = self.counters.get(name, 0) + n

    def distinct(self, name, obj):
        h = hashlib.sha1(json.dumps(obj, sort_keys=True, default=str).encode()).hexdigest()[:16]
        self.distinct_sets.setdefault(name, set()).add(h)

    def sample(self, obj):
        if len(self.samples) < self.max_samples:
            self.samples.append(obj)

    def note(self, s):
        if s not in self.notes:
            self.notes.append(s)

    def evaluation(self, n=1):
        self.evaluations += n

    def violation(self, key, detail=None, case=None):
        self.nviol += 1
        self.count("violations_raw")
        self.emit(
            {
                "kind": "violation",
                "key": key,
                "detail": detail,
                "case": case if case is not None else self.case,
            }
        )

    # ---- guarded execution of the code under test
    def call(self, fn, *a, **kw):
        """Run ``fn`` (code under test).  An exception that originates in, or
        passes through, the genjax copy is returned as ``Raised``; an exception
        that never touched genjax is a harness bug and propagates."""
        try:
            return fn(*a, **kw)
        except Exception as e:  # noqa: BLE001
            tb = traceback.format_exc()
            bd = os.environ.get("VERIF_BUILD_DIR", "\0")
            frames = traceback.extract_tb(e.__traceback__)
            if any(fr.filename.startswith(bd) for fr in frames):
                return Raised(e, tb)
            raise

    def summary(self):
        self.emit(
            {
                "kind": "summary",
                "counters": self.counters,
                "distinct": {k: sorted(v) for k, v in self.distinct_sets.items()},
                "samples": self.samples,
                "evaluations": self.evaluations,
                "notes": self.notes,
            }
        )


def _json_default(o):
    try:
        import numpy as np

        if isinstance(o, np.ndarray):
            return o.tolist()
        if isinstance(o, (np.floating, np.integer, np.bool_)):
            return o.item()
    except Exception:  # noqa: BLE001
        pass
    if hasattr(o, "tolist"):
        try:
            return o.tolist()
        except Exception:  # noqa: BLE001
            pass
    return repr(o)


def main():
    modname, fin, fout = sys.argv[1:4]
    with open(fin) as f:
        job = json.load(f)
    mod = importlib.import_module(modname)
    with open(fout, "w") as out:
        ctx = Ctx(out, job["tier"], job["seed"], job["worker"])
        try:
            if hasattr(mod, "worker_setup"):
                mod.worker_setup(ctx)
        except Exception as e:  # noqa: BLE001
            ctx.emit(
                {
                    "kind": "harness_error",
                    "case_index": None,
                    "error": f"worker_setup: {type(e).__name__}: {e}",
                    "traceback": traceback.format_exc(),
                }
            )
            ctx.summary()
            ctx.emit({"kind": "done"})
            return
        budget = getattr(mod, "CASE_BUDGET_S", None)
        # long shards compile thousands of XLA programs; the CPU JIT's code sections are only released with the
        # executables ("LLVM ERROR: Unable to allocate section memory" after ~40 thorough cases of C04), so checks
        # that build a new program per case ask for the compilation caches to be dropped every few cases
        clear_every = (getattr(mod, "CLEAR_CACHES_EVERY", None) or {}).get(job["tier"], 0)
        for ci, case in enumerate(job["cases"]):
            if clear_every and ci and ci % clear_every == 0:
                import gc

                import jax

                jax.clear_caches()
                gc.collect()
                ctx.count("compilation_caches_cleared")
            ctx.case = case
            t0 = time.time()
            try:
                mod.run_case(case, ctx)
            except Exception as e:  # noqa: BLE001
                ctx.emit(
                    {
                        "kind": "harness_error",
                        "case_index": case.get("index"),
                        "error": f"{type(e).__name__}: {str(e)[:500]}",
                        "traceback": traceback.format_exc(),
                    }
                )
            dt = time.time() - t0
            ctx.count("case_seconds", dt)
            if budget and dt > budget:
                ctx.count("cases_over_budget")
        ctx.summary()
        ctx.emit({"kind": "done"})


if __name__ == "__main__":
    main()
