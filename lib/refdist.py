"""Independent float64 reference for genjax's distributions (property C13).

Pure numpy / scipy.  No genjax, no jax, no TFP.  The call convention mirrors the
genjax call it is the oracle for:

    genjax:     normal.logpdf(v, 1.0, 2.0)          bernoulli.logpdf(v, probs=0.3)
    reference:  logpdf("normal", v, 1.0, 2.0)       logpdf("bernoulli", v, probs=0.3)

Public API
    logpdf(name, value, *params, **kw)        float64 log density / log mass
    logpdf_cond(name, value, *params, **kw)   (logpdf, sum of |terms|)  -- for condition-aware tolerances
    cdf(name, value, *params, **kw)           P(X <= value)  (univariate names only)
    ppf(name, q, *params, **kw)               quantile        (univariate names only)
    support_grid(name, *params, **kw)         points well inside the support (float32-exact values)
    pmf_table(name, *params, tail=1e-9, **kw) (values, probabilities, tail mass beyond) for discrete names
    to_normal(name, x, *params, **kw)         Rosenblatt / whitening transform of multivariate continuous
                                              draws to iid N(0,1) columns
    kind(name)            "discrete" | "continuous" | "mv_continuous" | "mv_discrete"
    event_ndims(name, param_name)  number of trailing event axes of a parameter
    batch_event_shape(name, *params, **kw) -> (batch_shape, event_shape)
    selftest()            hand-checked values + cross-check of every formula against scipy.stats

DOCUMENTED parameterisation (positional order = genjax call order).  Where a
genjax docstring is silent or contradicts itself, the wrapped constructor's
definition is used; property C13's own wording decides the cases it names:

    bernoulli(logits | probs=)         mass on {0,1};  P(1) = probs = sigmoid(logits)
    flip(p)                            mass on {False,True}; P(True) = p          [a probability]
    beta(concentration1, concentration0)
    categorical(logits)                P(k) = softmax(logits)[k]                  [logits]
    geometric(logits | probs=)         P(k) = (1-p)^k p, k = 0,1,...              [failures before 1st success]
    normal(loc, scale)                 scale = standard deviation
    uniform(low=0, high=1)
    exponential(rate)                  rate * exp(-rate x)                        [a rate]
    poisson(rate | log_rate=)
    multivariate_normal(loc, covariance_matrix)                                   [a covariance]
    dirichlet(concentration)
    binomial(total_count, logits | probs=)
    gamma(concentration, rate | log_rate=)
    log_normal(loc, scale)             of the underlying normal
    student_t(df, loc, scale)
    laplace(loc, scale)
    half_normal(scale)
    inverse_gamma(concentration, scale)  density scale^a / Gamma(a) x^(-a-1) exp(-scale/x)
    weibull(concentration, scale)
    cauchy(loc, scale)
    chi2(df)
    multinomial(total_count, logits | probs=)
    negative_binomial(total_count, logits | probs=)
                                       P(k) = C(k+r-1, k) probs^k (1-probs)^r  (r = total_count; the wrapped
                                       constructor's definition: k counts successes until r failures)
    zipf(power)                        P(k) = k^-power / zeta(power), k = 1,2,...

Extra names (user-wrapper oracles of check C13; not genjax exports):
    gumbel(loc, scale), logistic(loc, scale), beta_binomial(total_count, concentration1, concentration0),
    categorical_probs(probs),
    mvn_tril(loc, scale_tril), triangular(mode) on [0,1], iso_normal(loc[d], scale) (event = last axis),
    bernoulli_sum5(p)  (= binomial(5, p), integer valued)
"""

from __future__ import annotations

import itertools

import numpy as np
from scipy import special as sp
from scipy import stats as st

LOG2PI = float(np.log(2.0 * np.pi))

# positional parameter names, in genjax call order; alternates reachable by keyword
SIG = {
    "bernoulli": ("logits", "probs"),
    "flip": ("p",),
    "beta": ("concentration1", "concentration0"),
    "categorical": ("logits",),
    "geometric": ("logits", "probs"),
    "normal": ("loc", "scale"),
    "uniform": ("low", "high"),
    "exponential": ("rate",),
    "poisson": ("rate", "log_rate"),
    "multivariate_normal": ("loc", "covariance_matrix"),
    "dirichlet": ("concentration",),
    "binomial": ("total_count", "logits", "probs"),
    "gamma": ("concentration", "rate", "log_rate"),
    "log_normal": ("loc", "scale"),
    "student_t": ("df", "loc", "scale"),
    "laplace": ("loc", "scale"),
    "half_normal": ("scale",),
    "inverse_gamma": ("concentration", "scale"),
    "weibull": ("concentration", "scale"),
    "cauchy": ("loc", "scale"),
    "chi2": ("df",),
    "multinomial": ("total_count", "logits", "probs"),
    "negative_binomial": ("total_count", "logits", "probs"),
    "zipf": ("power",),
    # extras
    "gumbel": ("loc", "scale"),
    "logistic": ("loc", "scale"),
    "beta_binomial": ("total_count", "concentration1", "concentration0"),
    "categorical_probs": ("probs",),
    "mvn_tril": ("loc", "scale_tril"),
    "triangular": ("mode",),
    "iso_normal": ("loc", "scale"),
    "bernoulli_sum5": ("p",),
}
NAMES = [
    "bernoulli", "flip", "beta", "categorical", "geometric", "normal", "uniform", "exponential", "poisson",
    "multivariate_normal", "dirichlet", "binomial", "gamma", "log_normal", "student_t", "laplace",
    "half_normal", "inverse_gamma", "weibull", "cauchy", "chi2", "multinomial", "negative_binomial", "zipf",
]  # the 24 of genjax/distributions.py
EXTRA_NAMES = ["gumbel", "logistic", "beta_binomial", "categorical_probs", "mvn_tril", "triangular", "iso_normal", "bernoulli_sum5"]

_KIND = {
    "bernoulli": "discrete", "flip": "discrete", "categorical": "discrete", "geometric": "discrete",
    "poisson": "discrete", "binomial": "discrete", "negative_binomial": "discrete", "zipf": "discrete",
    "beta_binomial": "discrete", "bernoulli_sum5": "discrete", "categorical_probs": "discrete",
    "multinomial": "mv_discrete",
    "multivariate_normal": "mv_continuous", "dirichlet": "mv_continuous", "mvn_tril": "mv_continuous",
    "iso_normal": "mv_continuous",
}
# trailing event axes of parameters (default 0)
_EVENT_ND = {
    ("categorical", "logits"): 1, ("categorical_probs", "probs"): 1,
    ("multivariate_normal", "loc"): 1, ("multivariate_normal", "covariance_matrix"): 2,
    ("dirichlet", "concentration"): 1,
    ("multinomial", "logits"): 1, ("multinomial", "probs"): 1,
    ("mvn_tril", "loc"): 1, ("mvn_tril", "scale_tril"): 2,
    ("iso_normal", "loc"): 1,
}
_DEFAULTS = {"uniform": {"low": 0.0, "high": 1.0}}


def kind(name):
    return _KIND.get(name, "continuous")


def event_ndims(name, pname):
    return _EVENT_ND.get((name, pname), 0)


def _f(x):
    return np.asarray(x, dtype=np.float64)


def bind(name, *params, **kw):
    """Named float64 parameters of a call ``dist(*params, **kw)``."""
    sig = SIG[name]
    if len(params) > len(sig):
        raise TypeError(f"{name}: too many positional parameters")
    out = {k: _f(v) for k, v in _DEFAULTS.get(name, {}).items()}
    for n, v in zip(sig, params):
        out[n] = _f(v)
    for n, v in kw.items():
        if n not in sig:
            raise TypeError(f"{name}: unknown parameter {n}")
        if n in [s for s, _ in zip(sig, params)]:
            raise TypeError(f"{name}: {n} given twice")
        out[n] = _f(v)
    return out


def _probs(p):
    """success probability and its logs from logits= or probs=."""
    if ("logits" in p) == ("probs" in p):
        raise TypeError("exactly one of logits / probs")
    if "probs" in p:
        q = p["probs"]
        return q, np.log(q), np.log1p(-q)
    lg = p["logits"]
    return sp.expit(lg), -np.logaddexp(0.0, -lg), -np.logaddexp(0.0, lg)


def _logp_vec(p):
    """normalised log probabilities along the last axis from logits= or probs=."""
    if ("logits" in p) == ("probs" in p):
        raise TypeError("exactly one of logits / probs")
    if "logits" in p:
        lg = p["logits"]
        return lg - sp.logsumexp(lg, axis=-1, keepdims=True)
    return np.log(p["probs"])


def _rate(p):
    if ("rate" in p) == ("log_rate" in p):
        raise TypeError("exactly one of rate / log_rate")
    if "rate" in p:
        return p["rate"], np.log(p["rate"])
    return np.exp(p["log_rate"]), p["log_rate"]


def _chol(p, name):
    if name == "mvn_tril":
        return np.tril(p["scale_tril"])
    return np.linalg.cholesky(p["covariance_matrix"])


def _solve_tri(L, d):
    """L^-1 d for d[..., k] and L[..., k, k] (broadcasting leading axes)."""
    z = np.zeros(np.broadcast_shapes(d.shape, L.shape[:-1]), dtype=np.float64)
    d = np.broadcast_to(d, z.shape)
    k = L.shape[-1]
    for i in range(k):
        acc = d[..., i]
        for j in range(i):
            acc = acc - L[..., i, j] * z[..., j]
        z[..., i] = acc / L[..., i, i]
    return z


# --------------------------------------------------------------------------
# log densities as lists of terms (value = sum, condition = sum of |terms|)
# --------------------------------------------------------------------------
def _terms(name, v, p):
    v = _f(v)
    if name in ("bernoulli", "flip", "bernoulli_sum5"):
        if name == "bernoulli":
            q, lq, l1q = _probs(p)
        else:
            q = p["p"]
            lq, l1q = np.log(q), np.log1p(-q)
        if name == "bernoulli_sum5":
            n = 5.0
            return [sp.gammaln(n + 1) - sp.gammaln(v + 1) - sp.gammaln(n - v + 1), v * lq, (n - v) * l1q]
        return [v * lq, (1.0 - v) * l1q]
    if name == "beta":
        a, b = p["concentration1"], p["concentration0"]
        return [sp.xlogy(a - 1.0, v), sp.xlog1py(b - 1.0, -v), -sp.betaln(a, b)]
    if name == "categorical_probs":
        return _terms("categorical", v, {"logits": np.log(p["probs"])})
    if name == "categorical":
        lp = _logp_vec(p)
        idx = v.astype(np.int64)
        lpb = np.broadcast_to(lp, np.broadcast_shapes(idx.shape + (1,), lp.shape))
        idxb = np.broadcast_to(idx[..., None], lpb.shape[:-1] + (1,))
        lg = p["logits"]
        lgb = np.broadcast_to(lg, lpb.shape)
        a = np.take_along_axis(lgb, idxb, axis=-1)[..., 0]
        return [a, -np.broadcast_to(sp.logsumexp(lg, axis=-1), a.shape)]
    if name == "geometric":
        q, lq, l1q = _probs(p)
        return [v * l1q, lq + 0.0 * v]
    if name == "normal":
        z = (v - p["loc"]) / p["scale"]
        return [-0.5 * z * z, -np.log(p["scale"]) + 0.0 * z, -0.5 * LOG2PI + 0.0 * z]
    if name == "uniform":
        lo, hi = p["low"], p["high"]
        inside = (v >= lo) & (v <= hi)
        return [np.where(inside, -np.log(hi - lo), -np.inf)]
    if name == "exponential":
        r = p["rate"]
        return [np.log(r) + 0.0 * v, -r * v]
    if name == "poisson":
        r, lr = _rate(p)
        return [v * lr, -r + 0.0 * v, -sp.gammaln(v + 1.0)]
    if name in ("multivariate_normal", "mvn_tril"):
        L = _chol(p, name)
        z = _solve_tri(L, v - p["loc"])
        k = L.shape[-1]
        logdet = np.sum(np.log(np.diagonal(L, axis1=-2, axis2=-1)), axis=-1)
        q = np.sum(z * z, axis=-1)
        return [-0.5 * q, -logdet + 0.0 * q, -0.5 * k * LOG2PI + 0.0 * q]
    if name == "iso_normal":
        s = p["scale"][..., None]
        z = (v - p["loc"]) / s
        k = v.shape[-1]
        q = np.sum(z * z, axis=-1)
        return [-0.5 * q, -k * np.log(p["scale"]) + 0.0 * q, -0.5 * k * LOG2PI + 0.0 * q]
    if name == "dirichlet":
        a = p["concentration"]
        t1 = np.sum(sp.xlogy(a - 1.0, v), axis=-1)
        return [t1, sp.gammaln(np.sum(a, axis=-1)) + 0.0 * t1, -np.sum(sp.gammaln(a), axis=-1) + 0.0 * t1]
    if name == "binomial":
        n = p["total_count"]
        q, lq, l1q = _probs({k: x for k, x in p.items() if k != "total_count"})
        return [sp.gammaln(n + 1.0) + 0.0 * v, -sp.gammaln(v + 1.0), -sp.gammaln(n - v + 1.0), v * lq, (n - v) * l1q]
    if name == "gamma":
        a = p["concentration"]
        r, lr = _rate({k: x for k, x in p.items() if k != "concentration"})
        return [a * lr + 0.0 * v, -sp.gammaln(a) + 0.0 * v, sp.xlogy(a - 1.0, v), -r * v]
    if name == "log_normal":
        z = (np.log(v) - p["loc"]) / p["scale"]
        return [-np.log(v), -np.log(p["scale"]) + 0.0 * z, -0.5 * LOG2PI + 0.0 * z, -0.5 * z * z]
    if name == "student_t":
        nu, s = p["df"], p["scale"]
        z = (v - p["loc"]) / s
        return [sp.gammaln(0.5 * (nu + 1.0)) + 0.0 * z, -sp.gammaln(0.5 * nu) + 0.0 * z,
                -0.5 * np.log(nu * np.pi) + 0.0 * z, -np.log(s) + 0.0 * z, -0.5 * (nu + 1.0) * np.log1p(z * z / nu)]
    if name == "laplace":
        b = p["scale"]
        return [-np.log(2.0 * b) + 0.0 * v, -np.abs(v - p["loc"]) / b]
    if name == "half_normal":
        s = p["scale"]
        return [0.5 * np.log(2.0 / np.pi) - np.log(s) + 0.0 * v, np.where(v >= 0, -0.5 * (v / s) ** 2, -np.inf)]
    if name == "inverse_gamma":
        a, b = p["concentration"], p["scale"]
        return [a * np.log(b) + 0.0 * v, -sp.gammaln(a) + 0.0 * v, -(a + 1.0) * np.log(v), -b / v]
    if name == "weibull":
        k, lam = p["concentration"], p["scale"]
        y = v / lam
        return [np.log(k) - np.log(lam) + 0.0 * v, sp.xlogy(k - 1.0, y), -(y**k)]
    if name == "cauchy":
        g = p["scale"]
        z = (v - p["loc"]) / g
        return [-np.log(np.pi * g) + 0.0 * z, -np.log1p(z * z)]
    if name == "chi2":
        k = p["df"]
        return [-(0.5 * k) * np.log(2.0) + 0.0 * v, -sp.gammaln(0.5 * k) + 0.0 * v, sp.xlogy(0.5 * k - 1.0, v), -0.5 * v]
    if name == "multinomial":
        n = p["total_count"]
        lp = _logp_vec({k: x for k, x in p.items() if k != "total_count"})
        t3 = np.sum(v * np.where(v == 0, 0.0, lp), axis=-1)
        return [sp.gammaln(n + 1.0) + 0.0 * t3, -np.sum(sp.gammaln(v + 1.0), axis=-1), t3]
    if name == "negative_binomial":
        r = p["total_count"]
        q, lq, l1q = _probs({k: x for k, x in p.items() if k != "total_count"})
        return [sp.gammaln(v + r), -sp.gammaln(v + 1.0), -sp.gammaln(r) + 0.0 * v, v * lq, r * l1q + 0.0 * v]
    if name == "zipf":
        a = p["power"]
        return [-a * np.log(v), -np.log(sp.zeta(a, 1.0)) + 0.0 * v]
    if name == "gumbel":
        z = (v - p["loc"]) / p["scale"]
        return [-np.log(p["scale"]) + 0.0 * z, -z, -np.exp(-z)]
    if name == "logistic":
        z = (v - p["loc"]) / p["scale"]
        return [-np.log(p["scale"]) + 0.0 * z, -z, -2.0 * np.logaddexp(0.0, -z)]
    if name == "beta_binomial":
        n, a, b = p["total_count"], p["concentration1"], p["concentration0"]
        return [sp.gammaln(n + 1.0) - sp.gammaln(v + 1.0) - sp.gammaln(n - v + 1.0), sp.betaln(v + a, n - v + b),
                -sp.betaln(a, b) + 0.0 * v]
    if name == "triangular":
        c = p["mode"]
        return [np.where(v < c, np.log(2.0 * v / c), np.log(2.0 * (1.0 - v) / (1.0 - c)))]
    raise KeyError(name)


def logpdf_cond(name, value, *params, **kw):
    ts = _terms(name, value, bind(name, *params, **kw))
    ts = np.broadcast_arrays(*ts)
    val = np.sum(ts, axis=0)
    cond = np.sum(np.abs(np.where(np.isfinite(ts), ts, 0.0)), axis=0)
    if name == "dirichlet":
        p = bind(name, *params, **kw)
        cond = cond + np.sum(np.abs(sp.xlogy(p["concentration"] - 1.0, _f(value))), axis=-1)
    if name in ("multinomial",):
        cond = cond + np.sum(sp.gammaln(_f(value) + 1.0), axis=-1)
    return val, cond


def logpdf(name, value, *params, **kw):
    return logpdf_cond(name, value, *params, **kw)[0]


# --------------------------------------------------------------------------
# scipy.stats frozen distributions (univariate) -- an independent second route
# --------------------------------------------------------------------------
def frozen(name, *params, **kw):
    p = bind(name, *params, **kw)
    if name == "bernoulli":
        return st.bernoulli(_probs(p)[0])
    if name == "flip":
        return st.bernoulli(p["p"])
    if name == "bernoulli_sum5":
        return st.binom(5, p["p"])
    if name == "beta":
        return st.beta(p["concentration1"], p["concentration0"])
    if name == "categorical_probs":
        return frozen("categorical", np.log(p["probs"]))
    if name == "categorical":
        pr = np.exp(_logp_vec(p))
        return st.rv_discrete(values=(np.arange(pr.shape[-1]), pr / pr.sum()))
    if name == "geometric":
        return st.geom(_probs(p)[0], loc=-1)
    if name == "normal":
        return st.norm(p["loc"], p["scale"])
    if name == "uniform":
        return st.uniform(p["low"], p["high"] - p["low"])
    if name == "exponential":
        return st.expon(scale=1.0 / p["rate"])
    if name == "poisson":
        return st.poisson(_rate(p)[0])
    if name == "binomial":
        return st.binom(p["total_count"], _probs({k: x for k, x in p.items() if k != "total_count"})[0])
    if name == "gamma":
        return st.gamma(p["concentration"], scale=1.0 / _rate({k: x for k, x in p.items() if k != "concentration"})[0])
    if name == "log_normal":
        return st.lognorm(s=p["scale"], scale=np.exp(p["loc"]))
    if name == "student_t":
        return st.t(p["df"], p["loc"], p["scale"])
    if name == "laplace":
        return st.laplace(p["loc"], p["scale"])
    if name == "half_normal":
        return st.halfnorm(scale=p["scale"])
    if name == "inverse_gamma":
        return st.invgamma(p["concentration"], scale=p["scale"])
    if name == "weibull":
        return st.weibull_min(p["concentration"], scale=p["scale"])
    if name == "cauchy":
        return st.cauchy(p["loc"], p["scale"])
    if name == "chi2":
        return st.chi2(p["df"])
    if name == "negative_binomial":
        q = _probs({k: x for k, x in p.items() if k != "total_count"})[0]
        return st.nbinom(p["total_count"], 1.0 - q)
    if name == "zipf":
        return st.zipf(p["power"])
    if name == "gumbel":
        return st.gumbel_r(p["loc"], p["scale"])
    if name == "logistic":
        return st.logistic(p["loc"], p["scale"])
    if name == "beta_binomial":
        return st.betabinom(p["total_count"], p["concentration1"], p["concentration0"])
    if name == "triangular":
        return st.triang(p["mode"])
    raise KeyError(f"no univariate scipy form for {name}")


def cdf(name, value, *params, **kw):
    v = _f(value)
    if name == "zipf":  # scipy's zipf.cdf sums term by term: use the Hurwitz zeta
        a = bind(name, *params, **kw)["power"]
        k = np.floor(v)
        return np.where(k < 1, 0.0, 1.0 - sp.zeta(a, np.maximum(k, 0) + 1.0) / sp.zeta(a, 1.0))
    return frozen(name, *params, **kw).cdf(v)


def ppf(name, q, *params, **kw):
    if name == "zipf":
        a = bind(name, *params, **kw)["power"]
        q = np.atleast_1d(_f(q))
        out = np.empty_like(q)
        for i, qi in enumerate(q):
            lo, hi = 1, 2
            while cdf("zipf", hi, a) < qi:
                lo, hi = hi, hi * 2
            while lo < hi:
                mid = (lo + hi) // 2
                if cdf("zipf", mid, a) >= qi:
                    hi = mid
                else:
                    lo = mid + 1
            out[i] = lo
        return out
    return frozen(name, *params, **kw).ppf(_f(q))


# --------------------------------------------------------------------------
# shapes
# --------------------------------------------------------------------------
def batch_event_shape(name, *params, **kw):
    p = bind(name, *params, **kw)
    bs = ()
    for n, v in p.items():
        nd = event_ndims(name, n)
        bs = np.broadcast_shapes(bs, v.shape[: v.ndim - nd])
    if name in ("categorical", "categorical_probs"):
        ev = ()
    elif name in ("multivariate_normal", "mvn_tril", "iso_normal"):
        ev = (p["loc"].shape[-1],)
    elif name == "dirichlet":
        ev = (p["concentration"].shape[-1],)
    elif name == "multinomial":
        ev = (p["logits" if "logits" in p else "probs"].shape[-1],)
    else:
        ev = ()
    return tuple(bs), tuple(ev)


# --------------------------------------------------------------------------
# supports
# --------------------------------------------------------------------------
_QS = np.array([1e-6, 1e-4, 1e-3, 0.01, 0.03, 0.1, 0.2, 0.3, 0.4, 0.5, 0.6, 0.7, 0.8, 0.9, 0.97, 0.99, 0.999,
                1 - 1e-4, 1 - 1e-6])


def compositions(n, k):
    """All k-vectors of non-negative integers summing to n."""
    out = []
    for bars in itertools.combinations(range(n + k - 1), k - 1):
        prev, row = -1, []
        for b in bars:
            row.append(b - prev - 1)
            prev = b
        row.append(n + k - 1 - prev - 1)
        out.append(row)
    return np.array(out, dtype=np.float64)


def pmf_table(name, *params, tail=1e-9, max_points=4_000_000, **kw):
    """(values, probabilities, mass beyond the table) of a discrete distribution
    with un-batched parameters.  Values are float64 (bool semantics for flip
    are 0/1); multinomial values are rows."""
    p = bind(name, *params, **kw)
    if name in ("bernoulli", "flip"):
        vals = np.array([0.0, 1.0])
    elif name in ("categorical", "categorical_probs"):
        vals = np.arange(p["logits" if name == "categorical" else "probs"].shape[-1], dtype=np.float64)
    elif name in ("binomial", "beta_binomial"):
        vals = np.arange(int(round(float(p["total_count"]))) + 1, dtype=np.float64)
    elif name == "bernoulli_sum5":
        vals = np.arange(6, dtype=np.float64)
    elif name == "multinomial":
        k = p["logits" if "logits" in p else "probs"].shape[-1]
        vals = compositions(int(round(float(p["total_count"]))), k)
    else:
        lo = 1 if name == "zipf" else 0
        hi = int(ppf(name, 1.0 - tail, *params, **kw).max()) + 1
        hi = min(hi, lo + max_points - 1)
        vals = np.arange(lo, hi + 1, dtype=np.float64)
    pr = np.exp(logpdf(name, vals, *params, **kw))
    if name in ("geometric", "poisson", "negative_binomial", "zipf"):
        tl = float(1.0 - cdf(name, vals[-1], *params, **kw)) if name != "zipf" else float(
            sp.zeta(p["power"], vals[-1] + 1.0) / sp.zeta(p["power"], 1.0))
        tl = max(tl, 0.0)
    else:
        tl = 0.0
    return vals, pr, tl


def _f32(x):
    return np.asarray(np.asarray(x, dtype=np.float32), dtype=np.float64)


def support_grid(name, *params, n_mv=48, **kw):
    """Points in the support at which a float32 implementation can be compared
    with the reference: quantile grid (continuous), all / subsampled mass
    points (discrete), reference draws + structured points (multivariate).
    Values are exactly representable in float32.  Parameters un-batched."""
    k = kind(name)
    p = bind(name, *params, **kw)
    if k == "discrete":
        vals, pr, _ = pmf_table(name, *params, tail=1e-7, max_points=100000, **kw)
        if len(vals) > 160:
            head = vals[:80]
            rest = vals[80:]
            idx = np.unique(np.round(np.geomspace(1, len(rest), 80)).astype(int) - 1)
            vals = np.concatenate([head, rest[idx]])
        return vals
    if k == "continuous":
        g = _f32(ppf(name, _QS, *params, **kw))
        lo, hi = frozen(name, *params, **kw).support()
        lo, hi = float(np.min(lo)), float(np.max(hi))
        ok = np.isfinite(g) & (g > lo) & (g < hi)
        if name == "uniform":
            ok = np.isfinite(g) & (g >= lo) & (g <= hi)
        return np.unique(g[ok])
    rng = np.random.default_rng(20240913)
    if name in ("multivariate_normal", "mvn_tril", "iso_normal"):
        loc = p["loc"]
        d = loc.shape[-1]
        if name == "iso_normal":
            L = np.eye(d) * float(p["scale"])
        else:
            L = _chol(p, name)
        z = rng.standard_normal((n_mv, d)) * rng.choice([0.3, 1.0, 3.0], size=(n_mv, 1))
        pts = loc + z @ L.T
        pts = np.concatenate([pts, loc[None, :], loc[None, :] + 4.0 * L[:, 0][None, :]], axis=0)
        return _f32(pts)
    if name == "dirichlet":
        a = p["concentration"]
        pts = rng.dirichlet(a, size=n_mv)
        extra = rng.dirichlet(np.ones_like(a) * 0.3, size=n_mv // 2)
        pts = np.concatenate([pts, extra, np.ones((1, a.shape[-1])) / a.shape[-1]], axis=0)
        pts = np.clip(pts, 1e-12, None)
        pts = _f32(pts / pts.sum(-1, keepdims=True))
        return pts[(pts > 0).all(-1)]
    if name == "multinomial":
        return pmf_table(name, *params, **kw)[0]
    raise KeyError(name)


# --------------------------------------------------------------------------
# multivariate continuous -> iid N(0,1) columns (Rosenblatt transform)
# --------------------------------------------------------------------------
def to_normal(name, x, *params, **kw):
    p = bind(name, *params, **kw)
    x = _f(x)
    if name in ("multivariate_normal", "mvn_tril"):
        return _solve_tri(_chol(p, name), x - p["loc"])
    if name == "iso_normal":
        return (x - p["loc"]) / p["scale"][..., None]
    if name == "dirichlet":
        a = p["concentration"]
        k = a.shape[-1]
        cols = []
        rem = np.ones(x.shape[:-1])
        for i in range(k - 1):
            frac = np.clip(x[..., i] / np.where(rem > 0, rem, 1.0), 0.0, 1.0)
            u = st.beta(a[..., i], np.sum(a[..., i + 1:], axis=-1)).cdf(frac)
            cols.append(sp.ndtri(np.clip(u, 1e-300, 1 - 1e-16)))
            rem = rem - x[..., i]
        return np.stack(cols, axis=-1)
    raise KeyError(name)


# --------------------------------------------------------------------------
# self test
# --------------------------------------------------------------------------
def selftest(verbose=False):
    """Hand-checked values, then every term formula against scipy.stats."""
    ck = []

    def eq(what, a, b, tol=1e-12):
        a, b = np.asarray(a, dtype=float), np.asarray(b, dtype=float)
        ok = np.allclose(a, b, rtol=tol, atol=tol)
        ck.append((what, ok))
        if not ok:
            raise AssertionError(f"refdist selftest: {what}: {a} != {b}")

    ln = np.log
    # --- hand-checked
    eq("flip(0.3) True", logpdf("flip", 1, 0.3), ln(0.3))
    eq("flip(0.3) False", logpdf("flip", 0, 0.3), ln(0.7))
    eq("bernoulli(logits=0)", logpdf("bernoulli", 1, 0.0), ln(0.5))
    eq("bernoulli(probs=.2)", logpdf("bernoulli", 0, probs=0.2), ln(0.8))
    eq("categorical logits", logpdf("categorical", 1, np.log([1.0, 2.0, 5.0])), ln(2.0 / 8.0))
    eq("categorical unnormalised logits", logpdf("categorical", 2, np.log([1.0, 2.0, 5.0]) + 3.0), ln(5.0 / 8.0))
    eq("geometric failures k=0", logpdf("geometric", 0, probs=0.25), ln(0.25))
    eq("geometric failures k=2", logpdf("geometric", 2, probs=0.25), ln(0.75**2 * 0.25))
    eq("exponential rate", logpdf("exponential", 0.5, 4.0), ln(4.0) - 2.0)
    eq("normal", logpdf("normal", 1.0, 1.0, 2.0), -ln(2.0) - 0.5 * ln(2 * np.pi))
    eq("uniform", logpdf("uniform", 2.0, 1.0, 5.0), -ln(4.0))
    eq("uniform default", logpdf("uniform", 0.3), 0.0)
    eq("poisson", logpdf("poisson", 2, 3.0), ln(9.0 / 2.0) - 3.0)
    eq("poisson log_rate", logpdf("poisson", 2, log_rate=ln(3.0)), ln(9.0 / 2.0) - 3.0)
    eq("mvn covariance diag", logpdf("multivariate_normal", [1.0, 0.0], [0.0, 0.0], [[4.0, 0.0], [0.0, 1.0]]),
       -0.5 * (1.0 / 4.0) - 0.5 * ln(4.0) - ln(2 * np.pi))
    eq("mvn vs scipy", logpdf("multivariate_normal", [0.3, -1.0], [0.1, 0.2], [[2.0, 0.6], [0.6, 1.0]]),
       st.multivariate_normal([0.1, 0.2], [[2.0, 0.6], [0.6, 1.0]]).logpdf([0.3, -1.0]))
    eq("dirichlet(1,1,1)", logpdf("dirichlet", [0.2, 0.3, 0.5], [1.0, 1.0, 1.0]), ln(2.0))
    eq("dirichlet vs scipy", logpdf("dirichlet", [0.2, 0.3, 0.5], [0.7, 2.0, 3.5]),
       st.dirichlet([0.7, 2.0, 3.5]).logpdf([0.2, 0.3, 0.5]))
    eq("binomial", logpdf("binomial", 1, 3.0, probs=0.5), ln(3.0 / 8.0))
    eq("gamma rate", logpdf("gamma", 2.0, 2.0, 3.0), ln(9.0 * 2.0) - 6.0)
    eq("inverse_gamma scale", logpdf("inverse_gamma", 2.0, 1.0, 3.0), ln(3.0 / 4.0) - 1.5)
    eq("laplace", logpdf("laplace", 3.0, 1.0, 2.0), -ln(4.0) - 1.0)
    eq("half_normal", logpdf("half_normal", 0.0, 2.0), 0.5 * ln(2 / np.pi) - ln(2.0))
    eq("cauchy", logpdf("cauchy", 1.0, 1.0, 2.0), -ln(2 * np.pi))
    eq("chi2(2)", logpdf("chi2", 3.0, 2.0), -ln(2.0) - 1.5)
    eq("weibull(1,s) = expon", logpdf("weibull", 1.5, 1.0, 2.0), -ln(2.0) - 0.75)
    eq("log_normal", logpdf("log_normal", 1.0, 0.0, 1.0), -0.5 * ln(2 * np.pi))
    eq("student_t(1) = cauchy", logpdf("student_t", 0.7, 1.0, 0.0, 1.0), -ln(np.pi) - ln(1 + 0.49))
    eq("multinomial", logpdf("multinomial", [1, 1, 0], 2.0, probs=[0.2, 0.3, 0.5]), ln(2 * 0.2 * 0.3))
    eq("multinomial vs scipy", logpdf("multinomial", [1, 2, 2], 5.0, logits=np.log([0.2, 0.3, 0.5]) + 1.0),
       st.multinomial(5, [0.2, 0.3, 0.5]).logpmf([1, 2, 2]))
    eq("negative_binomial r=1: k successes then a failure", logpdf("negative_binomial", 2, 1.0, probs=0.25),
       ln(0.25**2 * 0.75))
    eq("zipf", logpdf("zipf", 2, 2.0), ln(0.25 / (np.pi**2 / 6)))
    eq("beta(2,1)", logpdf("beta", 0.25, 2.0, 1.0), ln(0.5))
    eq("gumbel", logpdf("gumbel", 1.0, 1.0, 2.0), -ln(2.0) - 1.0)
    eq("logistic", logpdf("logistic", 0.0, 0.0, 1.0), ln(0.25))
    eq("triangular", logpdf("triangular", 0.25, 0.5), ln(1.0))
    eq("categorical_probs", logpdf("categorical_probs", 2, [0.2, 0.3, 0.5]), ln(0.5))
    eq("iso_normal", logpdf("iso_normal", [1.0, 1.0], [1.0, 1.0], 2.0), -2 * ln(2.0) - ln(2 * np.pi))
    eq("mvn_tril", logpdf("mvn_tril", [0.3, -1.0], [0.1, 0.2], np.linalg.cholesky([[2.0, 0.6], [0.6, 1.0]])),
       st.multivariate_normal([0.1, 0.2], [[2.0, 0.6], [0.6, 1.0]]).logpdf([0.3, -1.0]))
    eq("cdf geometric", cdf("geometric", 1, probs=0.25), 1 - 0.75**2)
    eq("cdf exponential", cdf("exponential", 0.5, 4.0), 1 - np.exp(-2.0))
    eq("cdf zipf", cdf("zipf", 2, 2.0), 1.25 / (np.pi**2 / 6))
    eq("cdf neg binomial", cdf("negative_binomial", 1, 1.0, probs=0.25), 0.75 + 0.25 * 0.75)
    eq("cdf inverse_gamma", cdf("inverse_gamma", 2.0, 1.0, 3.0), np.exp(-1.5))
    # --- every univariate formula against scipy.stats at a generic point
    pts = {
        "bernoulli": ((0.4,), {}), "flip": ((0.3,), {}), "beta": ((0.6, 2.5), {}), "categorical": (([0.1, -1.0, 0.7],), {}),
        "geometric": ((), {"probs": 0.2}), "normal": ((0.5, 1.7), {}), "uniform": ((-1.0, 2.5), {}),
        "exponential": ((2.5,), {}), "poisson": ((4.2,), {}), "binomial": ((9.0, 0.4), {}),
        "gamma": ((0.7, 2.5), {}), "log_normal": ((0.3, 0.8), {}), "student_t": ((2.5, 0.5, 1.5), {}),
        "laplace": ((0.5, 1.5), {}), "half_normal": ((1.5,), {}), "inverse_gamma": ((2.5, 1.5), {}),
        "weibull": ((1.5, 2.5), {}), "cauchy": ((0.5, 1.5), {}), "chi2": ((3.5,), {}),
        "negative_binomial": ((3.5,), {"probs": 0.4}), "zipf": ((2.5,), {}), "gumbel": ((0.5, 1.5), {}),
        "logistic": ((0.5, 1.5), {}), "beta_binomial": ((9.0, 1.5, 2.5), {}), "triangular": ((0.3,), {}),
        "bernoulli_sum5": ((0.3,), {}),
    }
    for name, (a, k) in pts.items():
        g = support_grid(name, *a, **k)
        fr = frozen(name, *a, **k)
        ref = fr.logpmf(g) if kind(name) == "discrete" else fr.logpdf(g)
        eq(f"terms vs scipy.stats: {name}", logpdf(name, g, *a, **k), ref, tol=1e-9)
        if kind(name) == "discrete":
            vals, pr, tl = pmf_table(name, *a, **k)
            eq(f"pmf table sums to 1: {name}", pr.sum() + tl, 1.0, tol=1e-8)
    v = compositions(4, 3)
    eq("compositions count", len(v), 15)
    eq("multinomial sums to 1", np.exp(logpdf("multinomial", v, 4.0, probs=[0.2, 0.3, 0.5])).sum(), 1.0)
    rng = np.random.default_rng(0)
    cov = np.array([[2.0, 0.6, 0.1], [0.6, 1.0, -0.3], [0.1, -0.3, 0.5]])
    z = to_normal("multivariate_normal", rng.multivariate_normal([1.0, 2.0, 3.0], cov, size=20000), [1.0, 2.0, 3.0], cov)
    eq("whitening gives identity covariance", np.cov(z.T), np.eye(3), tol=0.05)
    z = to_normal("dirichlet", rng.dirichlet([0.7, 2.0, 3.5], size=20000), [0.7, 2.0, 3.5])
    eq("dirichlet rosenblatt gives identity covariance", np.cov(z.T), np.eye(2), tol=0.05)
    eq("batch/event shape", list(batch_event_shape("multivariate_normal", np.zeros((4, 3)), np.eye(3))[0]) +
       list(batch_event_shape("multivariate_normal", np.zeros((4, 3)), np.eye(3))[1]), [4, 3])
    if verbose:
        print(f"refdist selftest: {len(ck)} checks ok")
    return len(ck)


if __name__ == "__main__":
    selftest(verbose=True)
