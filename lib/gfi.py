"""Shared worker-side helpers for the GFI properties (C01-C05, C08-C10)."""

from __future__ import annotations

import math

import numpy as np

from lib import refmodel as R
from lib import spec

FAMILIES = {
    # name: generator config overrides
    "builtin": {"dists": ["normal", "uniform", "exponential", "flip", "categorical", "mvn"]},
    "probe": {"dists": ["p_normal", "p_uniform", "p_flip", "p_cat"]},
    "mixed": {},
    # a distribution / Vmap / Scan / Cond used directly, without an enclosing @gen function
    "bare": {"bare": True},
    "bare-discrete": {"bare": True, "dists": ["p_flip", "p_cat", "p_flip"], "sizes": [2, 2, 3], "max_stmts": 3},
    "discrete": {
        "dists": ["p_flip", "p_cat", "p_flip"],
        "max_stmts": 3,
        "sizes": [2, 2, 3],
        "max_depth": 2,
        "kinds": {"site": 5, "call": 1.0, "vmap": 1.2, "scan": 0.8, "cond": 1.2, "let": 0.3},
    },
}


def make_case_program(gseed, family, tier, extra_cfg=None):
    rng = np.random.default_rng(gseed)
    cfg = dict(FAMILIES[family])
    cfg.setdefault("max_depth", 2 if tier == "quick" else 3)
    if extra_cfg:
        cfg.update(extra_cfg)
    g = spec.Generator(rng, cfg)
    if cfg.get("bare"):
        prog = spec.bare_program(g)
    else:
        prog = g.program()
    return g, prog


def raise_key(op, raised):
    w = raised.where() or "?"
    # file:function (line numbers stripped so that the key survives edits)
    parts = w.split(":")
    loc = parts[0] + ":" + parts[-1] if len(parts) >= 3 else w
    return f"{op}|raises:{raised.type}@{loc}"


def kinds_of(prog):
    f = spec.features(prog)
    return sorted(f["kinds"])


# ---------------------------------------------------------------------------
def bit_equal(a, b):
    a, b = np.asarray(a), np.asarray(b)
    if a.shape != b.shape or a.dtype != b.dtype:
        return False
    return a.tobytes() == b.tobytes()


def diff_leaves(a, b):
    """Paths whose leaves are not bit-identical between two choice maps."""
    la, lb = R.flat_leaves(a), R.flat_leaves(b)
    out = []
    for p in sorted(set(la) | set(lb)):
        if p not in la or p not in lb or not bit_equal(la[p], lb[p]):
            out.append(p)
    return out


def leaf_changed(a, b):
    """path -> 'all' | 'none' | 'some' elementwise change classification."""
    la, lb = R.flat_leaves(a), R.flat_leaves(b)
    out = {}
    for p in la:
        if p not in lb:
            out[p] = "missing"
            continue
        x, y = np.asarray(la[p]), np.asarray(lb[p])
        if x.shape != y.shape:
            out[p] = "shape"
            continue
        d = x != y
        out[p] = "all" if d.all() else ("none" if not d.any() else "some")
    return out


def pstr(p):
    return "/".join(p)


# ---------------------------------------------------------------------------
# site events <-> reference sites
# ---------------------------------------------------------------------------
def _order_key(site):
    s = tuple(i for k, i in site.idx if k == "s")
    v = tuple(i for k, i in site.idx if k == "v")
    return (s, v)


def match_events(ref_sites, events, rel=2e-5):
    """Compare probe events with the reference sites of the same tag.

    ``ref_sites`` must come from a both-branch (ghost) reference run, because
    Cond evaluates both branches.  For every probe tag: the number of events equals the number of reference sites
    (one draw per lane / iteration), values are bit-equal and the parameters
    the site saw equal the reference parameters computed from the trace's own
    parent values.  Returns (n_matched, problems)."""
    by_tag_ref = {}
    for s in ref_sites:
        if s.dist in spec.PROBE_KIND:
            by_tag_ref.setdefault(s.tag, []).append(s)
    by_tag_ev = {}
    for e in events:
        by_tag_ev.setdefault(e.tag, []).append(e)
    problems = []
    n = 0
    for tag, sites in by_tag_ref.items():
        evs = list(by_tag_ev.get(tag, []))
        if len(evs) != len(sites):
            problems.append(
                {"what": "event-count", "path": pstr(sites[0].path), "events": len(evs), "reference_sites": len(sites)}
            )
            continue
        # order-free (multiset) matching: the execution order of call-backs under
        # nested vmaps is static but not lane-major, so each reference site looks
        # for an unused event that returned its value and saw its parameters
        used = [False] * len(evs)
        for s in sites:
            n += 1
            hit = None
            value_hit = None
            for j, e in enumerate(evs):
                if used[j] or not _value_equal(s.value, e.value):
                    continue
                value_hit = e
                if all(R.close(pe, ps, scale=1.0, rel=rel) for ps, pe in zip(s.params, e.params)):
                    hit = j
                    break
            if hit is not None:
                used[hit] = True
                continue
            if value_hit is None:
                problems.append(
                    {"what": "value-not-from-site", "path": pstr(s.path), "idx": list(s.idx),
                     "trace_value": np.asarray(s.value).tolist(),
                     "site_returned": sorted({repr(np.asarray(e.value).tolist()) for e in evs})[:8]}
                )
            else:
                problems.append(
                    {"what": "site-saw-wrong-parameters", "path": pstr(s.path), "idx": list(s.idx),
                     "site_saw": [np.asarray(x).tolist() for x in value_hit.params],
                     "reference": [np.asarray(x).tolist() for x in s.params]}
                )
            break
    return n, problems


def _value_equal(a, b):
    a, b = np.asarray(a), np.asarray(b)
    if a.dtype.kind == "f" or b.dtype.kind == "f":
        return np.float32(a) == np.float32(b)
    return bool(a == b)


def events_for_paths(prog, ref_sites, events):
    """path -> number of probe events whose tag belongs to that static path
    (either branch of a Cond)."""
    tag_path = {}
    for path, sts in spec.leaf_paths(prog).items():
        for st in sts:
            tag = st["callee"]["tag"] if st["k"] == "vmap" else st["tag"]
            tag_path[tag] = path
    out = {}
    for e in events:
        p = tag_path.get(e.tag)
        if p is not None:
            out[p] = out.get(p, 0) + 1
    return out


# ---------------------------------------------------------------------------
def choice_key(ch):
    """Hashable identity of a (discrete) choice map."""
    items = []
    for p, v in sorted(R.flat_leaves(ch).items()):
        a = np.asarray(v)
        items.append((p, a.shape, a.astype(np.int64).tobytes() if a.dtype.kind in "biu" else a.tobytes()))
    return tuple(items)


def finite(x):
    return bool(np.all(np.isfinite(np.asarray(x, dtype=np.float64))))


def fnum(x):
    if isinstance(x, (tuple, list)):
        return [fnum(v) for v in x]
    a = np.asarray(x, dtype=np.float64)
    return a.tolist()


# ---------------------------------------------------------------------------
# trace coherence (shared by C01-C05): score = -density of the visible choices
# under the recorded arguments, retval = program's return value on them
# ---------------------------------------------------------------------------
def coherence(ctx, op, prog, vals, tr, d, assess_fn=None, args=None, allow_outside=False):
    """Returns (status, ref) with status in 'ok' | 'skip' | 'bad' (violation emitted)."""
    ch = R.to_numpy(tr.get_choices())
    ref = R.run(prog, vals, choices=ch)
    dd = {**d, "choices": ch}
    if ref.min_margin < 1e-4:
        ctx.count("skipped_near_tie")
        return "skip", ref
    t = R.tol(ref.abs_sum(), len(ref.sites))
    score = tr.get_score()
    by = {pstr(p): v for p, v in ref.by_path().items()}
    if not math.isfinite(ref.total):
        if allow_outside:
            # kept old values can leave the support when arguments change: outside the claim
            ctx.count("skipped_outside_support")
            return "skip", ref
        ctx.violation(f"{op}|choices-outside-support", {**dd, "reference_by_address": by})
        return "bad", ref
    if np.shape(score) != () or not (abs(float(score) + ref.total) <= t):
        ctx.violation(
            f"{op}|score-not-minus-density",
            {**dd, "score": fnum(score), "reference_density": ref.total, "reference_by_address": by, "tol": t},
        )
        return "bad", ref
    if not R.close(tr.get_retval(), ref.retval, rel=2e-5):
        ctx.violation(f"{op}|retval-differs", {**dd, "retval": fnum(tr.get_retval()), "reference": fnum(ref.retval)})
        return "bad", ref
    if assess_fn is not None:
        res = assess_fn(tr.get_choices(), *args)
        if not (abs(float(res[0]) + float(score)) <= 1e-5 * (1 + ref.abs_sum()) + 2e-6 * len(ref.sites)):
            ctx.violation(f"{op}|score-not-minus-own-assess", {**dd, "score": fnum(score), "assess": fnum(res[0])})
            return "bad", ref
    return "ok", ref


def _is_broadcast_copy(a, b):
    """``a`` is ``b`` repeated along one or two inserted axes (leading: an unmapped argument recorded per lane;
    trailing: an argument recorded per element of a stacked repeat)."""
    import itertools

    a, b = np.asarray(a, np.float64), np.asarray(b, np.float64)
    extra = a.ndim - b.ndim
    if extra < 1 or extra > 2:
        return False
    for pos in itertools.combinations(range(a.ndim), extra):
        shp = list(b.shape)
        for p in pos:
            shp.insert(p, 1)
        try:
            if np.array_equal(np.broadcast_to(b.reshape(shp), a.shape), a):
                return True
        except ValueError:
            continue
    return False


def args_problem(tr, args):
    """None when the trace records the arguments it was produced with, in the (args, kwargs) convention of traces;
    otherwise a key suffix naming what is wrong ("" = the trace of the program under test itself)."""
    ra = tr.get_args()
    ok = isinstance(ra, tuple) and len(ra) == 2 and isinstance(ra[0], tuple) and len(ra[0]) == len(args) and ra[1] == {}
    ok = ok and all(bit_equal(a, b) for a, b in zip(ra[0], args))
    if not ok:
        return ""
    if hasattr(tr, "inner_args"):
        # bare generative function: the arguments recorded by ITS trace are the ones it was called with
        ia = tr.inner.get_args()
        want = tr.inner_args
        same = lambda a, b: np.shape(a) == np.shape(b) and np.array_equal(np.asarray(a, dtype=np.float64), np.asarray(b, dtype=np.float64))  # noqa: E731
        if not (isinstance(ia, tuple) and len(ia) == 2 and isinstance(ia[0], tuple) and len(ia[0]) == len(want) and ia[1] == {}):
            return f"|bare-{tr.kind}|not-in-(args,kwargs)-convention"
        bad = [(a, b) for a, b in zip(ia[0], want) if not same(a, b)]
        if bad:
            if tr.kind == "vmap" and all(_is_broadcast_copy(a, b) for a, b in bad):
                return "|bare-vmap|unmapped-argument-recorded-per-lane"
            return f"|bare-{tr.kind}"
    return None


def args_recorded(tr, args):
    return args_problem(tr, args) is None


def enumerate_ref(prog, vals, choices=None, max_leaves=20000):
    """Yields reference Results over all completions (discrete programs only)."""
    stack = [[]]
    leaves = 0
    while stack:
        prefix = stack.pop()
        pos = [0]
        log = []

        def chooser(path, idx, dist, params):
            sup = R.support(dist, params)
            if sup is None:
                raise ValueError("enumerate_ref: continuous site " + pstr(path))
            i = pos[0]
            k = prefix[i] if i < len(prefix) else 0
            pos[0] += 1
            log.append(len(sup))
            return sup[k]

        res = R.run(prog, vals, choices=choices, chooser=chooser)
        leaves += 1
        if leaves > max_leaves:
            raise OverflowError("too many completions")
        for i in range(len(prefix), len(log)):
            for alt in range(1, log[i]):
                stack.append(prefix + [0] * (i - len(prefix)) + [alt])
        yield res
