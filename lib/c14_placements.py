"""C14 — placements of a sampling site under compositions of JAX constructs.

A *placement* is ``(site kind, chain)`` where ``chain`` is a tuple of construct
names, outermost first, wrapped around a scalar function ``base(x)`` that
contains exactly one syntactic sampling site.  Every wrapper maps a function
``f32[] -> f32[]`` to a function ``f32[] -> f32[]`` and keeps the value of the
draw observable in the output (also through derivatives), so that "the result
depends on the key" is decidable by comparing two numbers.

Nothing here decides anything; the oracle lives in checks/c14_lowering.py.
jax / genjax are imported lazily (the coordinator imports this module without
them).
"""

from __future__ import annotations

import itertools

# constructs whose eager execution dispatches a staged sub-program through XLA
# (``apply_primitive`` of pjit/scan/while/cond) -- "something is compiled"
COMPILING = ("jit", "scan", "while", "fori", "cond", "switch", "map")
# constructs that evaluate their body op-by-op when called eagerly
EAGER = ("grad", "value_and_grad", "jvp", "checkpoint", "custom_jvp")
VMAP = ("vmap",)
CONSTRUCTS = COMPILING + EAGER + VMAP
# what the Seed interpreter documents as handled ("handles JAX control flow
# primitives (cond, scan)"): cond/switch bind cond_p; scan, a fori_loop with
# static trip count and lax.map bind scan_p
SEED_INTERPRETS = ("scan", "fori", "cond", "switch", "map")
SITES = ("normal", "flip", "gen", "adev")


def chains(max_depth):
    out = []
    for d in range(1, max_depth + 1):
        out.extend(itertools.product(CONSTRUCTS, repeat=d))
    return out


def show(chain):
    return ">".join(chain)


def compiles(chain):
    return any(c in COMPILING for c in chain)


def has_vmap(chain):
    return "vmap" in chain


# ---------------------------------------------------------------------------
# sites
# ---------------------------------------------------------------------------
_CACHE = {}


def draw_fn(kind):
    """``x -> D`` : one sampling site, scalar float32 result that identifies
    the draw (distinct draws give distinct D with overwhelming probability)."""
    if kind in _CACHE:
        return _CACHE[kind]
    import jax.numpy as jnp

    if kind == "normal":
        from genjax import normal

        def d(x):
            return normal.sample(x, 1.0)

    elif kind == "flip":
        from genjax import flip

        w = jnp.asarray([2.0 ** -(i + 1) for i in range(24)], dtype=jnp.float32)

        def d(x):
            # 24 fair coins -> a dyadic rational, exact in float32
            bits = flip.sample(0.5 + 0.0 * x, sample_shape=(24,))
            return 1.0 + jnp.sum(jnp.where(bits, w, 0.0))

    elif kind == "gen":
        from genjax import gen, normal

        @gen
        def model(x):
            a = normal(x, 1.0) @ "a"
            b = normal(a, 0.5) @ "b"
            return a + 2.0 * b

        def d(x):
            return model.simulate(x).get_retval()

    elif kind == "adev":
        from genjax.adev import normal_reparam

        def d(x):
            return normal_reparam.sample(x, 1.0)

    elif kind == "control":
        # deterministic stand-in with the same type: validates the harness's
        # own composition (a chain JAX itself rejects is not a finding)
        def d(x):
            return 0.37 + 0.5 * x

    else:
        raise ValueError(kind)
    _CACHE[kind] = d
    return d


def base_fn(kind):
    import jax.numpy as jnp

    d = draw_fn(kind)

    def base(x):
        D = d(x)
        # every derivative in x keeps a factor that depends on the draw
        return jnp.sin(x + 0.3) * D + 0.25 * D

    return base


# ---------------------------------------------------------------------------
# constructs
# ---------------------------------------------------------------------------
def wrap(name, g):
    import jax
    import jax.numpy as jnp
    from jax import lax

    if name == "jit":
        return jax.jit(g)
    if name == "scan":

        def f(x):
            def body(c, t):
                return c + (1.0 + t) * g(x + 0.1 * t), None

            return lax.scan(body, 0.0 * x, jnp.arange(2, dtype=jnp.float32))[0]

        return f
    if name == "while":

        def f(x):
            def cond(c):
                return c[0] < 2

            def body(c):
                i, acc = c
                return i + 1, acc + (1.0 + i) * g(x + 0.1 * i)

            return lax.while_loop(cond, body, (jnp.int32(0), 0.0 * x))[1]

        return f
    if name == "fori":

        def f(x):
            return lax.fori_loop(0, 2, lambda i, c: c + (1.0 + i) * g(x + 0.1 * i), 0.0 * x)

        return f
    if name == "cond":
        # site in both branches; the taken one is the true branch (index 1)
        def f(x):
            return lax.cond(x > -50.0, lambda y: g(y), lambda y: 3.0 * g(y + 1.0), x)

        return f
    if name == "switch":
        # site in the first and the last branch; the last one is taken
        def f(x):
            idx = jnp.int32(2) - (x > 50.0).astype(jnp.int32)
            return lax.switch(idx, [lambda y: 3.0 * g(y + 1.0), lambda y: 0.5 * y, lambda y: g(y)], x)

        return f
    if name == "grad":
        return jax.grad(g)
    if name == "value_and_grad":

        def f(x):
            v, dv = jax.value_and_grad(g)(x)
            return v + 2.0 * dv

        return f
    if name == "jvp":

        def f(x):
            p, t = jax.jvp(g, (x,), (jnp.ones_like(x),))
            return p + 3.0 * t

        return f
    if name == "checkpoint":
        return jax.checkpoint(g)
    if name == "custom_jvp":

        @jax.custom_jvp
        def h(x):
            return g(x)

        @h.defjvp
        def h_jvp(primals, tangents):
            (x,) = primals
            (t,) = tangents
            y = h(x)
            return y, t * (1.0 + y)  # tangent keeps the draw observable

        return lambda x: h(x)
    if name == "map":

        def f(x):
            ys = lax.map(lambda y: g(y), x + 0.1 * jnp.arange(2, dtype=jnp.float32))
            return ys[0] + 2.0 * ys[1]

        return f
    if name == "vmap":

        def f(x):
            ys = jax.vmap(g)(x + 0.1 * jnp.arange(3, dtype=jnp.float32))
            return ys[0] + 2.0 * ys[1] + 4.0 * ys[2]

        return f
    raise ValueError(name)


def build(kind, chain):
    f = base_fn(kind)
    for name in reversed(chain):
        f = wrap(name, f)
    return f


# ---------------------------------------------------------------------------
# staged-program inspection
# ---------------------------------------------------------------------------
def count_sample_primitives(closed_jaxpr):
    """Number of pjax sample_p / adev_sample_p equations anywhere in a staged
    program (sub-jaxprs found in eqn.params, at any depth)."""
    import jax
    from genjax import pjax

    core = jax.extend.core
    seen = 0

    def subjaxprs(v):
        if isinstance(v, core.ClosedJaxpr):
            yield v.jaxpr
        elif isinstance(v, core.Jaxpr):
            yield v
        elif isinstance(v, (tuple, list)):
            for u in v:
                yield from subjaxprs(u)
        elif isinstance(v, dict):
            for u in v.values():
                yield from subjaxprs(u)
        elif hasattr(v, "jaxpr") and isinstance(getattr(v, "jaxpr"), (core.Jaxpr, core.ClosedJaxpr)):
            yield from subjaxprs(v.jaxpr)

    def walk(j):
        nonlocal seen
        for eqn in j.eqns:
            prim, _ = pjax.PPPrimitive.unwrap(eqn.primitive)
            if prim is pjax.sample_p or prim is pjax.adev_sample_p:
                seen += 1
            for v in eqn.params.values():
                for sj in subjaxprs(v):
                    walk(sj)

    walk(closed_jaxpr.jaxpr)
    return seen
