"""Selection-expression specs: JSON-able AST, builder of real genjax
selections, and an independent *set-of-leaf-paths* reference (DESIGN §C16).

AST (lists, JSON friendly):
  ["none"] | ["all"] | ["str", a] | ["tup", [a, b, ...]] (len >= 1)
  | ["dict", {a: expr, ...}] | ["or", e, e] | ["and", e, e] | ["not", e]
"""

from __future__ import annotations

import itertools


# --------------------------------------------------------------------------
# reference semantics: is the leaf at ``path`` (tuple of str, len >= 1) selected?
# --------------------------------------------------------------------------
def ref_selected(e, path) -> bool:
    k = e[0]
    if k == "none":
        return False
    if k == "all":
        return True
    if k == "str":
        return len(path) >= 1 and path[0] == e[1]
    if k == "tup":
        t = tuple(e[1])
        return len(t) >= 1 and len(path) >= len(t) and tuple(path[: len(t)]) == t
    if k == "dict":
        if len(path) == 0 or path[0] not in e[1]:
            return False
        return ref_selected(e[1][path[0]], path[1:])
    if k == "or":
        return ref_selected(e[1], path) or ref_selected(e[2], path)
    if k == "and":
        return ref_selected(e[1], path) and ref_selected(e[2], path)
    if k == "not":
        return not ref_selected(e[1], path)
    raise ValueError(e)


def ref_set(e, leaf_paths):
    return frozenset(p for p in leaf_paths if ref_selected(e, p))


# --------------------------------------------------------------------------
# real selections
# --------------------------------------------------------------------------
def build(e):
    from genjax import sel

    k = e[0]
    if k == "none":
        return sel()
    if k == "all":
        return sel(())
    if k == "str":
        return sel(e[1])
    if k == "tup":
        return sel(tuple(e[1]))
    if k == "dict":
        return sel({a: build(s) for a, s in e[1].items()})
    if k == "or":
        return build(e[1]) | build(e[2])
    if k == "and":
        return build(e[1]) ^ build(e[2])
    if k == "not":
        return ~build(e[1])
    raise ValueError(e)


def real_selected(s, path) -> bool:
    """The decision the GFI makes: thread the remainder down the path with
    ``match`` and apply the leaf test ``() in remainder`` (Distribution.regenerate)."""
    for comp in path:
        _, s = s.match(comp)
    return () in s


def show(e) -> str:
    k = e[0]
    if k == "none":
        return "sel()"
    if k == "all":
        return "sel(())"
    if k == "str":
        return f"sel({e[1]!r})"
    if k == "tup":
        return f"sel({tuple(e[1])!r})"
    if k == "dict":
        return "sel({" + ", ".join(f"{a!r}: {show(s)}" for a, s in sorted(e[1].items())) + "})"
    if k == "or":
        return f"({show(e[1])} | {show(e[2])})"
    if k == "and":
        return f"({show(e[1])} ^ {show(e[2])})"
    if k == "not":
        return f"~{show(e[1])}"
    raise ValueError(e)


# --------------------------------------------------------------------------
# enumeration / sampling
# --------------------------------------------------------------------------
def atoms(alphabet, max_tup=3):
    out = [["none"], ["all"]]
    out += [["str", a] for a in alphabet]
    for n in range(1, max_tup + 1):
        for t in itertools.product(alphabet, repeat=n):
            out.append(["tup", list(t)])
    return out


def depth1(alphabet, base):
    out = []
    for a in base:
        out.append(["not", a])
    for a, b in itertools.product(base, repeat=2):
        out.append(["or", a, b])
        out.append(["and", a, b])
    for x in alphabet:
        for a in base:
            out.append(["dict", {x: a}])
    return out


def random_expr(rng, alphabet, depth, max_tup=3):
    """Random expression of nesting depth <= depth."""
    if depth <= 0 or rng.random() < 0.15:
        r = rng.random()
        if r < 0.08:
            return ["none"]
        if r < 0.16:
            return ["all"]
        if r < 0.5:
            return ["str", alphabet[rng.integers(len(alphabet))]]
        n = int(rng.integers(1, max_tup + 1))
        return ["tup", [alphabet[rng.integers(len(alphabet))] for _ in range(n)]]
    r = rng.random()
    if r < 0.25:
        return ["not", random_expr(rng, alphabet, depth - 1, max_tup)]
    if r < 0.5:
        return ["or", random_expr(rng, alphabet, depth - 1, max_tup), random_expr(rng, alphabet, depth - 1, max_tup)]
    if r < 0.75:
        return ["and", random_expr(rng, alphabet, depth - 1, max_tup), random_expr(rng, alphabet, depth - 1, max_tup)]
    nkeys = int(rng.integers(1, min(3, len(alphabet)) + 1))
    keys = list(rng.choice(len(alphabet), size=nkeys, replace=False))
    return ["dict", {alphabet[int(i)]: random_expr(rng, alphabet, depth - 1, max_tup) for i in keys}]


def size(e) -> int:
    k = e[0]
    if k in ("none", "all", "str", "tup"):
        return 1
    if k == "dict":
        return 1 + sum(size(s) for s in e[1].values())
    if k == "not":
        return 1 + size(e[1])
    return 1 + size(e[1]) + size(e[2])


def leaf_paths(tree, prefix=()):
    """tree: nested dict whose leaves are anything that is not a dict."""
    out = []
    for k, v in tree.items():
        if isinstance(v, dict):
            out += leaf_paths(v, prefix + (k,))
        else:
            out.append(prefix + (k,))
    return out
