"""C17 reference: conjugate linear-Gaussian targets, Gaussian variational
families and the ELBO / gradient estimators, in float64 numpy + scipy only.

No genjax, no jax, no TFP.  Two *independent* routes are implemented and
cross-checked against each other (``self_check``):

  matrix route   joint Gaussian algebra: log p(y), posterior, closed-form
                 ELBO(mu, Sigma) and its gradient
  program route  the model and the family re-executed site by site, per draw:
                 F(theta; noise) = sum_sites log p - sum_sites log q  and the
                 per-draw gradient estimator (pathwise + score function),
                 differentiated by Richardson central differences; means /
                 variances / third moments over the noise by tensor
                 Gauss-Hermite quadrature (exact: all integrands are polynomials)

Target spec (JSON-able dict, numbers are float32-exact python floats):
  kind "scalar":  mu ~ N(m0, s0) @ "mu";  y_i ~ N(mu, sx), i < n           (vmapped site "y")
  kind "mvlg":    x ~ MVN(m0, S0) @ "x";  y_i ~ N((A x + b)_i, r_i)         (vmapped site "y")
  kind "mvlg_mvn":x ~ MVN(m0, S0) @ "x";  y ~ MVN(A x + b, R) @ "y"
  kind "xindep":  x_i ~ N(m0_i, s0_i) (vmapped site "x"); y_i ~ N((A x + b)_i, r_i)
  kind "chain":   z1 ~ N(m, s1) @ "z1";  [under "g"] z2 ~ N(a z1 + c, s2) @ "z2",
                  y_i ~ N(w_i z2 + v_i z1 + bb_i, sy) @ "y";  y1 ~ N(u z1, s3) @ "y1"
Family spec:
  kind "mf"  library mean_field_normal_family(d, est): theta = [means, log_stds]
  kind "fc"  library full_covariance_normal_family(d, est): theta = [mean, chol_cov.ravel()], cov = C C^T
  kind "hw_scalar"  z ~ normal_<est>(theta0, exp(theta1))
  kind "hw_chain"   z1 ~ normal_<est1>(t0, exp t1);  z2 ~ normal_<est2>(t2 + t3 z1, exp t4)
"""

from __future__ import annotations

import itertools
import math
from fractions import Fraction

import numpy as np
from scipy.stats import norm as _norm

LOG2PI = math.log(2.0 * math.pi)


def A64(x):
    return np.asarray(x, dtype=np.float64)


# ---------------------------------------------------------------------------
# densities
# ---------------------------------------------------------------------------
def norm_lp(v, mu, sd):
    return -0.5 * LOG2PI - np.log(sd) - 0.5 * ((v - mu) / sd) ** 2


def mvn_lp(v, mu, cov):
    """v, mu: (..., d); cov: (d, d)."""
    cov = A64(cov)
    d = cov.shape[0]
    L = np.linalg.cholesky(cov)
    diff = np.atleast_2d(v - mu)
    r = diff @ np.linalg.inv(L).T  # d <= 3, well conditioned; avoids a LAPACK call per batch
    return -0.5 * d * LOG2PI - np.sum(np.log(np.diag(L))) - 0.5 * np.sum(r * r, axis=-1)


def norm_lp_pieces(v, mu, sd):
    """log N(v; mu, sd) split into the pieces a float32 implementation adds up
    (constant - log sd, quadratic form): needed for cancellation-aware error scales."""
    v, mu, sd = np.broadcast_arrays(A64(v), A64(mu), A64(sd))
    return np.stack([-0.5 * LOG2PI - np.log(sd), -0.5 * ((v - mu) / sd) ** 2], axis=-1)


def mvn_lp_pieces(v, mu, cov):
    cov = A64(cov)
    d = cov.shape[0]
    L = np.linalg.cholesky(cov)
    r = np.atleast_2d(v - mu) @ np.linalg.inv(L).T
    const = np.full((r.shape[0], 1), -0.5 * d * LOG2PI - np.sum(np.log(np.diag(L))))
    return np.concatenate([const, -0.5 * r * r], axis=-1)


# ---------------------------------------------------------------------------
# targets
# ---------------------------------------------------------------------------
def latent_dim(tgt):
    k = tgt["kind"]
    if k == "scalar":
        return 1
    if k == "chain":
        return 2
    return len(tgt["m0"])


def model_terms(tgt, Z):
    """Per-site log densities of the joint at latent values Z (N, d), observed
    values from the spec.  Returns (N, n_terms); the joint is the row sum."""
    Z = np.atleast_2d(A64(Z))
    k = tgt["kind"]
    cols = []
    if k == "scalar":
        mu = Z[:, 0]
        cols.append(norm_lp(mu, tgt["m0"], tgt["s0"]))
        for yi in tgt["y"]:
            cols.append(norm_lp(yi, mu, tgt["sx"]))
    elif k in ("mvlg", "mvlg_mvn", "xindep"):
        A, b = A64(tgt["A"]), A64(tgt["b"])
        y = A64(tgt["y"])
        if k == "xindep":
            for i in range(Z.shape[1]):
                cols.append(norm_lp(Z[:, i], tgt["m0"][i], tgt["s0"][i]))
        else:
            cols.append(mvn_lp(Z, A64(tgt["m0"]), A64(tgt["S0"])))
        mean = Z @ A.T + b
        if k == "mvlg_mvn":
            cols.append(mvn_lp(y, mean, A64(tgt["R"])))
        else:
            for i in range(len(y)):
                cols.append(norm_lp(y[i], mean[:, i], tgt["r"][i]))
    elif k == "chain":
        z1, z2 = Z[:, 0], Z[:, 1]
        cols.append(norm_lp(z1, tgt["m"], tgt["s1"]))
        cols.append(norm_lp(z2, tgt["a"] * z1 + tgt["c"], tgt["s2"]))
        for i, yi in enumerate(tgt["y"]):
            cols.append(norm_lp(yi, tgt["w"][i] * z2 + tgt["v"][i] * z1 + tgt["bb"][i], tgt["sy"]))
        cols.append(norm_lp(tgt["y1"], tgt["u"] * z1, tgt["s3"]))
    else:
        raise ValueError(k)
    return np.stack(cols, axis=-1)


def matrix_form(tgt):
    """(m0, S0, A, b, R, y): z ~ N(m0, S0), y = A z + b + N(0, R)."""
    k = tgt["kind"]
    if k == "scalar":
        n = len(tgt["y"])
        return (
            A64([tgt["m0"]]),
            A64([[tgt["s0"] ** 2]]),
            np.ones((n, 1)),
            np.zeros(n),
            np.eye(n) * tgt["sx"] ** 2,
            A64(tgt["y"]),
        )
    if k == "mvlg":
        return A64(tgt["m0"]), A64(tgt["S0"]), A64(tgt["A"]), A64(tgt["b"]), np.diag(A64(tgt["r"]) ** 2), A64(tgt["y"])
    if k == "xindep":
        return (
            A64(tgt["m0"]),
            np.diag(A64(tgt["s0"]) ** 2),
            A64(tgt["A"]),
            A64(tgt["b"]),
            np.diag(A64(tgt["r"]) ** 2),
            A64(tgt["y"]),
        )
    if k == "mvlg_mvn":
        return A64(tgt["m0"]), A64(tgt["S0"]), A64(tgt["A"]), A64(tgt["b"]), A64(tgt["R"]), A64(tgt["y"])
    if k == "chain":
        m, s1, a, c, s2 = tgt["m"], tgt["s1"], tgt["a"], tgt["c"], tgt["s2"]
        m0 = A64([m, a * m + c])
        S0 = A64([[s1**2, a * s1**2], [a * s1**2, a * a * s1**2 + s2**2]])
        ky = len(tgt["y"])
        A = np.zeros((ky + 1, 2))
        A[:ky, 0] = tgt["v"]
        A[:ky, 1] = tgt["w"]
        A[ky, 0] = tgt["u"]
        b = np.concatenate([A64(tgt["bb"]), [0.0]])
        R = np.diag([tgt["sy"] ** 2] * ky + [tgt["s3"] ** 2])
        y = np.concatenate([A64(tgt["y"]), [tgt["y1"]]])
        return m0, S0, A, b, R, y
    raise ValueError(k)


class Closed:
    """Matrix route: evidence, posterior, ELBO(mu, Sigma), dELBO/dmu, dELBO/dSigma."""

    def __init__(self, tgt):
        m0, S0, A, b, R, y = matrix_form(tgt)
        self.d = len(m0)
        S0i = np.linalg.inv(S0)
        Ri = np.linalg.inv(R)
        self.Lam = S0i + A.T @ Ri @ A
        self.h = S0i @ m0 + A.T @ Ri @ (y - b)
        k = len(y)
        self.c0 = -0.5 * (self.d * LOG2PI + np.linalg.slogdet(S0)[1] + m0 @ S0i @ m0) - 0.5 * (
            k * LOG2PI + np.linalg.slogdet(R)[1] + (y - b) @ Ri @ (y - b)
        )
        self.post_cov = np.linalg.inv(self.Lam)
        self.post_mean = self.post_cov @ self.h
        # evidence by the marginal of y (a different formula than the ELBO at the posterior)
        self.logpx = float(mvn_lp(y, A @ m0 + b, A @ S0 @ A.T + R)[0])

    def elbo(self, mu, Sig):
        mu, Sig = A64(mu), A64(Sig)
        e_logp = self.c0 - 0.5 * (mu @ self.Lam @ mu + np.trace(self.Lam @ Sig)) + self.h @ mu
        ent = 0.5 * (self.d * (LOG2PI + 1.0) + np.linalg.slogdet(Sig)[1])
        return float(e_logp + ent)

    def value_variance(self, mu, Sig):
        """Var_q[log p(y,z) - log q(z)] for q = N(mu, Sig)."""
        L = np.linalg.cholesky(A64(Sig))
        g = L.T @ (self.h - self.Lam @ A64(mu))
        M = np.eye(self.d) - L.T @ self.Lam @ L
        return float(g @ g + 0.5 * np.trace(M @ M))


# ---------------------------------------------------------------------------
# families
# ---------------------------------------------------------------------------
def fam_dim(fam):
    return fam["d"]


def n_params(fam):
    k = fam["kind"]
    if k == "mf":
        return 2 * fam["d"]
    if k == "fc":
        return fam["d"] + fam["d"] ** 2
    if k == "hw_scalar":
        return 2
    if k == "hw_chain":
        return 5
    raise ValueError(k)


def site_estimators(fam):
    """Estimator of each latent coordinate (library families: one vector site)."""
    k = fam["kind"]
    if k in ("mf", "fc"):
        return [fam["est"]] * fam["d"]
    if k == "hw_scalar":
        return [fam["est"]]
    if k == "hw_chain":
        return [fam["est1"], fam["est2"]]
    raise ValueError(k)


def moments(fam, theta):
    """(mu, Sigma) of q(z; theta) under the DOCUMENTED parameterisation."""
    th = A64(theta)
    k = fam["kind"]
    d = fam["d"]
    if k == "mf":
        return th[:d], np.diag(np.exp(2.0 * th[d:]))
    if k == "fc":
        C = th[d:].reshape(d, d)
        return th[:d], C @ C.T
    if k == "hw_scalar":
        return th[:1], np.array([[math.exp(2.0 * th[1])]])
    if k == "hw_chain":
        v1 = math.exp(2.0 * th[1])
        v2 = math.exp(2.0 * th[4])
        mu = np.array([th[0], th[2] + th[3] * th[0]])
        Sig = np.array([[v1, th[3] * v1], [th[3] * v1, th[3] ** 2 * v1 + v2]])
        return mu, Sig
    raise ValueError(k)


def fam_eval(fam, theta, noise):
    """Re-execute the family at ``theta`` with the noise held fixed:
    reparameterised sites re-use their standard-normal ``eps``; score-function
    sites keep their value ``zfix``.  Returns
      Z (N, d), lq_terms (N, n_q_sites)  [log q per site],  S (N, n_pieces)  [pieces whose sum is the
      log q of the score-function sites; kept apart for cancellation-aware error scales]."""
    th = A64(theta)
    eps, zfix = noise
    k = fam["kind"]
    d = fam["d"]
    N = eps.shape[0]
    if k in ("mf", "fc"):
        mu, Sig = moments(fam, th)
        if fam["est"] == "reparam":
            L = np.linalg.cholesky(Sig)
            Z = mu + eps @ L.T
        else:
            Z = zfix
        if k == "mf":
            sd = np.exp(th[d:])
            lq = np.sum(norm_lp(Z, mu, sd), axis=-1)
            pieces = norm_lp_pieces(Z, mu, sd).reshape(N, -1)
        else:
            lq = mvn_lp(Z, mu, Sig)
            pieces = mvn_lp_pieces(Z, mu, Sig)
        S = pieces if fam["est"] == "reinforce" else np.zeros((N, 1))
        return Z, lq[:, None], S
    if k == "hw_scalar":
        sd = math.exp(th[1])
        z = th[0] + sd * eps[:, 0] if fam["est"] == "reparam" else zfix[:, 0]
        lq = norm_lp(z, th[0], sd)
        S = norm_lp_pieces(z, th[0], sd) if fam["est"] == "reinforce" else np.zeros((N, 1))
        return z[:, None], lq[:, None], S
    if k == "hw_chain":
        sd1, sd2 = math.exp(th[1]), math.exp(th[4])
        z1 = th[0] + sd1 * eps[:, 0] if fam["est1"] == "reparam" else zfix[:, 0]
        lq1 = norm_lp(z1, th[0], sd1)
        mean2 = th[2] + th[3] * z1
        z2 = mean2 + sd2 * eps[:, 1] if fam["est2"] == "reparam" else zfix[:, 1]
        lq2 = norm_lp(z2, mean2, sd2)
        S = [np.zeros((N, 1))]
        if fam["est1"] == "reinforce":
            S.append(norm_lp_pieces(z1, th[0], sd1))
        if fam["est2"] == "reinforce":
            S.append(norm_lp_pieces(z2, mean2, sd2))
        return np.stack([z1, z2], -1), np.stack([lq1, lq2], -1), np.concatenate(S, axis=-1)
    raise ValueError(k)


def noise_from_eps(fam, theta0, eps):
    """All sites driven by standard normals at theta0 (forward sampling)."""
    eps = np.atleast_2d(A64(eps))
    th = A64(theta0)
    k = fam["kind"]
    if k in ("mf", "fc"):
        mu, Sig = moments(fam, th)
        Z = mu + eps @ np.linalg.cholesky(Sig).T
    elif k == "hw_scalar":
        Z = (th[0] + math.exp(th[1]) * eps[:, 0])[:, None]
    elif k == "hw_chain":
        z1 = th[0] + math.exp(th[1]) * eps[:, 0]
        z2 = th[2] + th[3] * z1 + math.exp(th[4]) * eps[:, 1]
        Z = np.stack([z1, z2], -1)
    else:
        raise ValueError(k)
    return eps, Z


def noise_from_z(fam, theta0, Z):
    """Invert the sampling at theta0: recover eps from observed latent values."""
    Z = np.atleast_2d(A64(Z))
    th = A64(theta0)
    k = fam["kind"]
    if k in ("mf", "fc"):
        mu, Sig = moments(fam, th)
        L = np.linalg.cholesky(Sig)
        eps = (Z - mu) @ np.linalg.inv(L).T
    elif k == "hw_scalar":
        eps = (Z - th[0]) / math.exp(th[1])
    elif k == "hw_chain":
        e1 = (Z[:, 0] - th[0]) / math.exp(th[1])
        e2 = (Z[:, 1] - th[2] - th[3] * Z[:, 0]) / math.exp(th[4])
        eps = np.stack([e1, e2], -1)
    else:
        raise ValueError(k)
    return eps, Z


# ---------------------------------------------------------------------------
# per-draw estimators (program route)
# ---------------------------------------------------------------------------
def draw_terms(tgt, fam, theta, noise):
    """T (N, n_terms) with F = T.sum(-1) = log p(y, z) - log q(z);  S (N, n_pieces), S.sum(-1) = log q of
    the score-function sites;  Z (N, d)."""
    Z, lq, S = fam_eval(fam, theta, noise)
    T = np.concatenate([model_terms(tgt, Z), -lq], axis=-1)
    return T, S, Z


def per_draw(tgt, fam, theta0, noise, h=2e-3, want_grad=True):
    """Reference per-draw value and gradient estimate.

    value_i = F(theta0; noise_i)
    grad_i  = d/dtheta F(theta; noise_i) + F(theta0; noise_i) * d/dtheta S(theta; noise_i)
              (pathwise derivative through reparameterised sites, score-function
              term for the others — the ADEV composition rule)
    Also returns condition scales for tolerances:
      vscale_i = sum_t |T_t|,  gscale_ip = sum_t |dT_t/dtheta_p| + (|F| + sum_t |T_t|) * sum_pieces |dS_piece/dtheta_p|."""
    th0 = A64(theta0)
    T0, S0, Z0 = draw_terms(tgt, fam, th0, noise)
    F0 = T0.sum(-1)
    vscale = np.abs(T0).sum(-1)
    if not want_grad:
        return F0, vscale, None, None, Z0
    P = len(th0)
    N = T0.shape[0]
    grad = np.zeros((N, P))
    gscale = np.zeros((N, P))
    for p in range(P):
        def D(step):
            tp, tm = th0.copy(), th0.copy()
            tp[p] += step
            tm[p] -= step
            Tp, Sp, _ = draw_terms(tgt, fam, tp, noise)
            Tm, Sm, _ = draw_terms(tgt, fam, tm, noise)
            return (Tp - Tm) / (2 * step), (Sp - Sm) / (2 * step)

        dT1, dS1 = D(h)
        dT2, dS2 = D(h / 2)
        dT = (4 * dT2 - dT1) / 3.0
        dS = (4 * dS2 - dS1) / 3.0
        grad[:, p] = dT.sum(-1) + F0 * dS.sum(-1)
        gscale[:, p] = np.abs(dT).sum(-1) + (np.abs(F0) + vscale) * np.abs(dS).sum(-1)
    return F0, vscale, grad, gscale, Z0


def gauss_hermite(d, n=10):
    x, w = np.polynomial.hermite_e.hermegauss(n)
    w = w / math.sqrt(2 * math.pi)
    nodes = np.array(list(itertools.product(x, repeat=d)))
    weights = np.prod(np.array(list(itertools.product(w, repeat=d))), axis=-1)
    return nodes, weights


def estimator_moments(tgt, fam, theta0):
    """Exact mean / variance / skewness (over the standard-normal noise) of the
    per-draw value and of every gradient component, by tensor Gauss-Hermite
    quadrature of the program-route per-draw formulas (polynomials of degree <= 4
    in the noise; 10 nodes per axis integrate degree <= 19 exactly)."""
    d = fam["d"]
    nodes, w = gauss_hermite(d)
    noise = noise_from_eps(fam, theta0, nodes)
    F, _, G, _, _ = per_draw(tgt, fam, theta0, noise)

    def mom(x):
        m = np.sum(w * x)
        c = x - m
        v = np.sum(w * c * c)
        s3 = np.sum(w * c**3)
        skew = s3 / v**1.5 if v > 0 else 0.0
        return float(m), float(v), float(skew)

    return mom(F), [mom(G[:, p]) for p in range(G.shape[1])]


def closed_gradient(cl, fam, theta0, h=1e-3):
    """Gradient of the closed-form ELBO(moments(theta)) by Richardson central differences."""
    th0 = A64(theta0)
    out = np.zeros(len(th0))
    for p in range(len(th0)):
        def D(step):
            tp, tm = th0.copy(), th0.copy()
            tp[p] += step
            tm[p] -= step
            return (cl.elbo(*moments(fam, tp)) - cl.elbo(*moments(fam, tm))) / (2 * step)

        out[p] = (4 * D(h / 2) - D(h)) / 3.0
    return out


def analytic_gradient(cl, fam, theta0):
    """Hand-derived gradient for the two library families (None otherwise)."""
    th = A64(theta0)
    d = fam["d"]
    mu, Sig = moments(fam, th)
    gmu = cl.h - cl.Lam @ mu
    G = -0.5 * cl.Lam + 0.5 * np.linalg.inv(Sig)
    if fam["kind"] == "mf":
        s2 = np.exp(2.0 * th[d:])
        return np.concatenate([gmu, 2.0 * np.diag(G) * s2])
    if fam["kind"] == "fc":
        C = th[d:].reshape(d, d)
        return np.concatenate([gmu, (2.0 * G @ C).ravel()])
    return None


def self_check(tgt, fam, theta0, cl=None):
    """Cross-check the two routes; raises AssertionError (harness bug) on disagreement.
    Returns dict with the agreed reference quantities."""
    cl = cl or Closed(tgt)
    mu, Sig = moments(fam, theta0)
    elbo = cl.elbo(mu, Sig)
    gcl = closed_gradient(cl, fam, theta0)
    ga = analytic_gradient(cl, fam, theta0)
    (vm, vv, vs), gm = estimator_moments(tgt, fam, theta0)
    sc = 1.0 + abs(elbo) + abs(cl.logpx)
    assert abs(vm - elbo) <= 1e-8 * sc, ("GH mean of per-draw value != closed-form ELBO", vm, elbo)
    assert abs(vv - cl.value_variance(mu, Sig)) <= 1e-7 * (1 + vv), ("value variance", vv, cl.value_variance(mu, Sig))
    assert elbo <= cl.logpx + 1e-9 * sc, ("closed-form ELBO above evidence", elbo, cl.logpx)
    pe = cl.elbo(cl.post_mean, cl.post_cov)
    assert abs(pe - cl.logpx) <= 1e-9 * sc, ("ELBO at posterior != evidence", pe, cl.logpx)
    gmean = np.array([m for m, _, _ in gm])
    gs = 1.0 + np.abs(gcl).max()
    assert np.all(np.abs(gmean - gcl) <= 1e-6 * gs), ("GH mean of per-draw gradient != closed-form gradient", gmean, gcl)
    if ga is not None:
        assert np.all(np.abs(ga - gcl) <= 1e-6 * gs), ("analytic gradient != FD gradient", ga, gcl)
    return {
        "elbo": elbo,
        "logpx": cl.logpx,
        "value_var": vv,
        "value_skew": vs,
        "grad": gcl,
        "grad_var": np.array([v for _, v, _ in gm]),
        "grad_skew": np.array([s for _, _, s in gm]),
    }


def posterior_theta(tgt, fam, cl=None, rot=None):
    """Family parameters representing the exact posterior (None if not representable)."""
    cl = cl or Closed(tgt)
    mu, Sig = cl.post_mean, cl.post_cov
    k = fam["kind"]
    d = fam["d"]
    if k == "mf":
        off = Sig - np.diag(np.diag(Sig))
        if np.abs(off).max() > 1e-12 * np.abs(Sig).max():
            return None
        return np.concatenate([mu, 0.5 * np.log(np.diag(Sig))])
    if k == "fc":
        C = np.linalg.cholesky(Sig)
        if rot is not None:
            C = C @ A64(rot)
        return np.concatenate([mu, C.ravel()])
    if k == "hw_scalar":
        return np.array([mu[0], 0.5 * math.log(Sig[0, 0])])
    if k == "hw_chain":
        beta = Sig[1, 0] / Sig[0, 0]
        return np.array(
            [mu[0], 0.5 * math.log(Sig[0, 0]), mu[1] - beta * mu[0], beta, 0.5 * math.log(Sig[1, 1] - Sig[1, 0] ** 2 / Sig[0, 0])]
        )
    raise ValueError(k)


# ---------------------------------------------------------------------------
# statistics
# ---------------------------------------------------------------------------
def z_threshold(alpha, n, skew):
    """Two-sided threshold x with  2 * Phibar(x) * exp(|skew| x^3 / (6 sqrt n)) <= alpha
    (normal tail with the first Edgeworth / Cramer correction for the skewness of
    the per-draw law, so that polynomial-chaos tails do not inflate the false-alarm rate)."""
    lo, hi = 3.0, 40.0
    la = math.log(alpha)

    def lt(x):
        return math.log(2.0) + _norm.logsf(x) + abs(skew) * x**3 / (6.0 * math.sqrt(n))

    for _ in range(80):
        mid = 0.5 * (lo + hi)
        if lt(mid) <= la:
            hi = mid
        else:
            lo = mid
    return hi


# ---------------------------------------------------------------------------
# exact float32 arithmetic for the update rule
# ---------------------------------------------------------------------------
def f32_nearest(exact: Fraction):
    """All float32 values that are nearest to the exact rational (ties give two)."""
    c = np.float32(float(exact))
    cands = {float(c), float(np.nextafter(c, np.float32(np.inf))), float(np.nextafter(c, np.float32(-np.inf)))}
    cands = [x for x in cands if math.isfinite(x)]
    best = min(abs(Fraction(x) - exact) for x in cands)
    return [np.float32(x) for x in cands if abs(Fraction(x) - exact) == best]


def update_candidates(p, lr32, g):
    """Float32 results an implementation of ``p + lr * g`` may legitimately give:
    multiply rounded then add (two roundings) or fused multiply-add (one rounding)."""
    p = np.float32(p)
    g = np.float32(g)
    lr32 = np.float32(lr32)
    two = np.float32(p + np.float32(lr32 * g))
    exact = Fraction(float(p)) + Fraction(float(lr32)) * Fraction(float(g))
    return [two] + f32_nearest(exact)
