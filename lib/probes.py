"""Probe sites (DESIGN §3.2): sampling sites whose keyed sampler is a host
call-back.  Everything around the site - the ``sample_p`` primitive, its
batching rule, the Seed interpreter's key plumbing, Scan/Cond/Vmap - stays the
real code.  The host sees the per-element parameters the site actually
received, logs a *site event* and returns either a host-drawn value (observe
mode) or the next entry of an outcome script (script mode).

Import only inside workers (needs jax + the genjax copy).
"""

from __future__ import annotations

import math
from functools import partial

import numpy as np

KINDS = ("flip", "cat", "normal", "uniform")
DISCRETE = ("flip", "cat")


class Event:
    __slots__ = ("tag", "kind", "elem", "params", "value", "probs", "chosen", "scripted", "call")

    def __init__(self, tag, kind, elem, params, value, probs=None, chosen=None, scripted=False):
        self.tag = tag
        self.kind = kind
        self.elem = elem  # index of the element inside this call (lane / sample_shape position)
        self.params = params  # tuple of float64 numpy values for this element
        self.value = value
        self.probs = probs  # discrete: reference pmf over outcomes under ``params``
        self.chosen = chosen
        self.scripted = scripted
        self.call = None  # index of the host call this element belongs to

    def as_dict(self):
        return {
            "tag": self.tag,
            "kind": self.kind,
            "elem": self.elem,
            "params": [np.asarray(p).tolist() for p in self.params],
            "value": np.asarray(self.value).tolist(),
        }


def pmf(kind, params):
    if kind == "flip":
        p = float(params[0])
        return np.array([1.0 - p, p])
    if kind == "cat":
        lg = np.asarray(params[0], dtype=np.float64)
        m = lg.max()
        w = np.exp(lg - m)
        return w / w.sum()
    raise ValueError(kind)


class Host:
    """Process-wide state of the probe call-backs."""

    def __init__(self):
        self.reset("observe", 0)

    def reset(self, mode="observe", seed=0, script=None, cont_values=None):
        self.mode = mode
        self.rng = np.random.default_rng(seed)
        self.script = list(script or [])
        self.pos = 0
        self.events: list[Event] = []
        self.calls = 0
        # continuous sites in script mode: values by tag (list consumed in order) or host-drawn
        self.cont_values = {k: list(v) for k, v in (cont_values or {}).items()}

    # one element
    def _draw(self, tag, kind, elem, params):
        if kind in DISCRETE:
            probs = pmf(kind, params)
            if self.mode == "script":
                if self.pos < len(self.script):
                    idx = int(self.script[self.pos])
                else:
                    idx = int(np.argmax(probs > 0))  # first outcome of positive mass
                self.pos += 1
                scripted = True
            else:
                idx = int(self.rng.choice(len(probs), p=probs))
                scripted = False
            val = bool(idx) if kind == "flip" else np.int32(idx)
            ev = Event(tag, kind, elem, params, val, probs, idx, scripted)
        else:
            q = self.cont_values.get(tag)
            if q:
                val = np.float32(q.pop(0))
                scripted = True
            elif kind == "normal":
                mu, sg = float(params[0]), float(params[1])
                val = np.float32(mu + sg * self.rng.standard_normal())
                scripted = False
            else:
                lo, hi = float(params[0]), float(params[1])
                val = np.float32(lo + (hi - lo) * self.rng.random())
                if val >= hi or val <= lo:  # rounding onto the boundary
                    val = np.float32(0.5 * (lo + hi))
                scripted = False
            ev = Event(tag, kind, elem, params, val, None, None, scripted)
        ev.call = self.calls
        self.events.append(ev)
        return val

    def callback(self, kind, tag, out_shape, *params):
        """``params`` arrive broadcast to out_shape (+ event axis for cat)."""
        self.calls += 1
        n = int(np.prod(out_shape)) if len(out_shape) else 1
        dtype = {"flip": np.bool_, "cat": np.int32, "normal": np.float32, "uniform": np.float32}[kind]
        out = np.empty((n,), dtype=dtype)
        flat = []
        for p in params:
            p = np.asarray(p, dtype=np.float64)
            if kind == "cat":
                flat.append(p.reshape((n, p.shape[-1])))
            else:
                flat.append(p.reshape((n,)))
        for i in range(n):
            out[i] = self._draw(tag, kind, i, tuple(f[i] for f in flat))
        return out.reshape(out_shape)


HOST = Host()

_CACHE: dict = {}


def probe(kind: str, tag: int):
    """A genjax Distribution (public constructor path) whose sampler is the host."""
    key = (kind, tag)
    if key in _CACHE:
        return _CACHE[key]
    import jax
    import jax.numpy as jnp
    from jax.experimental import io_callback
    from genjax.core import distribution
    from genjax.pjax import wrap_logpdf, wrap_sampler

    out_dtype = {"flip": jnp.bool_, "cat": jnp.int32, "normal": jnp.float32, "uniform": jnp.float32}[kind]

    def keyful(key, *params, sample_shape=()):
        del key
        params = tuple(jax.lax.stop_gradient(jnp.asarray(p, dtype=jnp.float32)) for p in params)
        if kind == "cat":
            batch = params[0].shape[:-1]
            out_shape = tuple(sample_shape) + tuple(batch)
            bparams = (jnp.broadcast_to(params[0], out_shape + params[0].shape[-1:]),)
        else:
            batch = jnp.broadcast_shapes(*[p.shape for p in params])
            out_shape = tuple(sample_shape) + tuple(batch)
            bparams = tuple(jnp.broadcast_to(p, out_shape) for p in params)
        return io_callback(
            partial(HOST.callback, kind, tag, out_shape),
            jax.ShapeDtypeStruct(out_shape, out_dtype),
            *bparams,
            # unordered: the lane-wise sampler map of the sample batching rule
            # vmaps this call-back (sequentially, lane by lane); XLA's schedule
            # is static, so the event order is still deterministic per program
            ordered=False,
        )

    if kind == "flip":

        def logpdf(v, p):
            return jnp.where(v, jnp.log(p), jnp.log1p(-p))

    elif kind == "cat":

        def logpdf(v, logits):
            lp = jax.nn.log_softmax(logits, axis=-1)
            return jnp.take_along_axis(lp, jnp.asarray(v, jnp.int32)[..., None], axis=-1)[..., 0]

    elif kind == "normal":

        def logpdf(v, mu, sigma):
            z = (v - mu) / sigma
            return -0.5 * z * z - jnp.log(sigma) - 0.5 * math.log(2 * math.pi)

    else:

        def logpdf(v, lo, hi):
            inside = (v >= lo) & (v <= hi)
            return jnp.where(inside, -jnp.log(hi - lo), -jnp.inf)

    d = distribution(
        wrap_sampler(keyful, name=f"probe_{kind}_{tag}"),
        wrap_logpdf(logpdf),
        name=f"probe_{kind}_{tag}",
    )
    _CACHE[key] = d
    return d


# --------------------------------------------------------------------------
# outcome-script exploration (DESIGN §3.4)
# --------------------------------------------------------------------------
def explore(run, max_leaves=4096, seed=0):
    """Depth-first enumeration of all discrete outcome scripts.

    ``run()`` executes the real operation once with HOST already reset in
    script mode and returns any result.  Yields (result, prob, events) per
    complete script.  Returns None from the generator early (StopIteration)
    when ``max_leaves`` would be exceeded: the caller must treat the instance
    as not explored."""
    stack = [[]]
    leaves = 0
    while stack:
        prefix = stack.pop()
        HOST.reset("script", seed, script=prefix)
        result = run()
        events = [e for e in HOST.events if e.kind in DISCRETE]
        path = [e.chosen for e in events]
        prob = 1.0
        for e in events:
            prob *= float(e.probs[e.chosen])
        leaves += 1
        if leaves > max_leaves:
            raise TooManyLeaves(leaves)
        for i in range(len(prefix), len(events)):
            probs = events[i].probs
            first = path[i]
            for alt in range(len(probs)):
                if alt != first and probs[alt] > 0:
                    stack.append(path[:i] + [alt])
        yield result, prob, list(HOST.events)


class TooManyLeaves(Exception):
    pass
