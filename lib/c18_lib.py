"""C18 helpers: small @gen models, kernels (mh / mala / hmc / composites), and
the step recorder that wraps a kernel so that every application reports its
(input trace leaves, output trace leaves, accept decision) to the host through
an ordered ``jax.debug.callback``.

Nothing here re-implements ``chain``: the recorder only *observes* what each
kernel application received and returned while the real ``chain`` drives it
(under ``seed``, ``state``, ``lax.scan`` and, for several chains,
``modular_vmap``).  Imported only inside workers (imports jax / genjax).
"""

from __future__ import annotations

import hashlib
import re

import numpy as np
import jax
import jax.numpy as jnp
import jax.tree_util as jtu

import genjax
from genjax import gen, normal, multivariate_normal, seed, const, sel, Scan
from genjax.inference import mh, mala, hmc
import genjax.inference.mcmc as _mcmc
from genjax.state import save as _state_save, namespace

# ---------------------------------------------------------------------------
# recorder
# ---------------------------------------------------------------------------
LOG: list = []  # one entry per kernel application: (in_leaves, out_leaves, accept)
_SLOT = {"accept": None, "n_saves": 0}  # last value passed to save(accept=...) while tracing a step


def _rec(ins, outs, acc):
    LOG.append((np.asarray(ins), np.asarray(outs), np.asarray(acc)))


def _pack(tree):
    """All leaves of a trace as one float32 vector (bit-preserving: the leaves
    of the C18 models are float32 or weakly typed python floats)."""
    leaves = [jnp.asarray(x) for x in jtu.tree_leaves(tree)]
    for x in leaves:
        if x.dtype != jnp.float32:
            raise RuntimeError(f"c18 harness: non-float32 trace leaf {x.dtype}")
    return jnp.concatenate([jnp.ravel(x) for x in leaves])


def unpack(vec, shapes):
    """Host side: split a packed vector back into leaves of the given shapes."""
    out, i = [], 0
    for shp in shapes:
        k = int(np.prod(shp, dtype=np.int64))
        out.append(vec[i : i + k].reshape(shp))
        i += k
    if i != vec.shape[0]:
        raise RuntimeError("c18 harness: packed vector length mismatch")
    return out


def install_save_probe():
    """mh/mala/hmc call the module global ``mcmc.save``; observe the value
    they pass under the name ``accept`` (the tracer is stashed, the recorder
    ships it to the host together with the step's input and output)."""
    if getattr(_mcmc.save, "_c18_probe", False):
        return
    orig = _mcmc.save

    def save_probe(*values, **tagged):
        if "accept" in tagged:
            _SLOT["accept"] = tagged["accept"]
            _SLOT["n_saves"] += 1
        return orig(*values, **tagged)

    save_probe._c18_probe = True
    _mcmc.save = save_probe


def hsave(**tagged):
    """``save`` for harness-written composite kernels (same observation)."""
    if "accept" in tagged:
        _SLOT["accept"] = tagged["accept"]
        _SLOT["n_saves"] += 1
    return _state_save(**tagged)


def recorded(kernel):
    """trace -> trace kernel that also reports the step to the host."""

    def wrapped(trace):
        _SLOT["accept"] = None
        out = kernel(trace)
        acc = _SLOT["accept"]
        if acc is None:
            raise RuntimeError("c18 harness: kernel saved no accept")
        jax.debug.callback(_rec, _pack(trace), _pack(out), jnp.asarray(acc), ordered=True)
        return out

    return wrapped


# ---------------------------------------------------------------------------
# compile reuse for eagerly dispatched scans
# ---------------------------------------------------------------------------
SCAN_STATS = {"compiled": 0, "reused": 0}
_SCAN_FUNS: dict = {}
_HEX = re.compile(r"0x[0-9a-fA-F]+")


def install_scan_compile_cache():
    """``seed(chain(kernel))(...)`` run eagerly ends in one eager ``scan_p.bind``
    whose body is a freshly traced jaxpr, so JAX lowers and compiles the same
    program again for every (burn_in, thinning) although only the indexing
    *after* the scan differs.  JAX keys its eager-primitive cache on the identity
    of the jaxpr object; here the key is the printed jaxpr (every equation,
    parameter, literal and nested jaxpr) plus all other scan parameters and the
    argument avals, so a structurally identical scan reuses the executable.  All
    of genjax (chain, state, seed, the kernel) is still traced on every call; a
    mutant that changes the traced program changes the key."""
    from jax._src import dispatch
    from jax.lax import scan_p

    if getattr(scan_p.impl, "_c18_cache", False):
        return

    def impl(*args, **params):
        parts = [k + "=" + _HEX.sub("0x", str(params[k])) for k in sorted(params)]
        for a in args:
            av = jax.typeof(a)
            parts.append(f"{av}|{getattr(av, 'weak_type', None)}")
        key = hashlib.sha1("\n".join(parts).encode()).hexdigest()
        fun = _SCAN_FUNS.get(key)
        if fun is None:
            SCAN_STATS["compiled"] += 1
            fun = _SCAN_FUNS[key] = dispatch.xla_primitive_callable(scan_p, **params)
        else:
            SCAN_STATS["reused"] += 1
        return fun(*args)

    impl._c18_cache = True
    scan_p.def_impl(impl)


# ---------------------------------------------------------------------------
# models
# ---------------------------------------------------------------------------
@gen
def m_scalar(shift, scale):
    e = normal(0.0, 1.0) @ "e"  # noqa: F841  (free nuisance address: regenerating it is always accepted)
    mu = normal(shift, 1.0) @ "mu"
    x = normal(mu, scale) @ "x"
    y = normal(mu + x, 0.9) @ "y"  # noqa: F841
    return mu + 2.0 * x


_nv = normal.vmap(in_axes=(0, None))


@gen
def m_vector(loc):
    e = normal(0.0, 1.0) @ "e"  # noqa: F841
    v = _nv(loc, 1.0) @ "v"
    w = multivariate_normal(v[:2], 0.5 * jnp.eye(2)) @ "w"
    z = normal(jnp.sum(v) + w[0], 1.5) @ "z"  # noqa: F841
    return v * 2.0, w[1]


@gen
def _inner(a):
    b = normal(a, 1.0) @ "b"
    c = normal(b, 0.7) @ "c"
    return b + c


@gen
def _step(carry, x):
    h = normal(carry + x, 0.8) @ "h"
    return h, 2.0 * h


_scan3 = Scan(_step, length=const(3))


@gen
def m_scan(xs):
    e = normal(0.0, 1.0) @ "e"  # noqa: F841
    r = _inner(0.3) @ "in"
    final, ys = _scan3(r, xs) @ "sc"
    o = normal(final, 1.2) @ "o"  # noqa: F841
    return final, ys


MODELS = {
    "scalar": dict(gf=m_scalar, obs="y", nargs="scalar2"),
    "vector": dict(gf=m_vector, obs="z", nargs="vec3"),
    "scan": dict(gf=m_scan, obs="o", nargs="vec3"),
}


def initial_trace(model, rng):
    """Initial trace with the observed address constrained; everything else is a
    prior draw under a harness-chosen key."""
    spec = MODELS[model]
    obs = float(np.round(rng.uniform(-1.5, 1.5), 3))
    key = int(rng.integers(0, 2**31 - 1))
    if spec["nargs"] == "scalar2":
        args_py = [float(np.round(rng.uniform(-0.5, 0.5), 3)), float(np.round(rng.uniform(0.8, 1.4), 3))]
        args = tuple(args_py)  # python floats on purpose (users do this)
    else:
        args_py = [[float(v) for v in np.round(rng.uniform(-0.5, 0.5, size=3), 3)]]
        args = (jnp.asarray(args_py[0], dtype=jnp.float32),)
    tr, _ = seed(spec["gf"].generate)(jax.random.key(key), {spec["obs"]: obs}, *args)
    return tr, {"obs": obs, "init_key": key, "args": args_py}


# ---------------------------------------------------------------------------
# kernels.  ``effect`` = True when a rejected step must return its input
# unchanged and an accepted one must move a continuous choice.
# ---------------------------------------------------------------------------
def _k_scalar_seq_diag(trace):
    # plain sequence of two kernels, both save "accept" (later write wins: the
    # chain's accept is the second kernel's), then several extra diagnostics
    t1 = mh(trace, sel("e"))
    t2 = mala(t1, sel("mu") | sel("x"), 1.0)
    c0, c2 = trace.get_choices(), t2.get_choices()
    hsave(
        energy=-t2.get_score(),
        jump=jnp.abs(c2["mu"] - c0["mu"]),
        first_moved=c2["e"] != c0["e"],
        rejected=c2["mu"] == c0["mu"],
    )
    return t2


def _k_vector_seq_always(trace):
    # second kernel regenerates a free address: always accepted, state moves every step
    hsave(score_in=trace.get_score())
    t1 = hmc(trace, sel("v") | sel("w"), 0.45, 3)
    t2 = mh(t1, sel("e"))
    hsave(delta=t2.get_choices()["v"] - trace.get_choices()["v"], still=t1.get_score() == trace.get_score())
    return t2


def _k_scan_ns_moved(trace):
    # sub-kernels under namespaces; the composite defines and saves its own accept
    t1 = namespace(lambda t: hmc(t, sel("in"), 1.2, 2), "first")(trace)
    t2 = namespace(lambda t: mh(t, sel("sc")), "second")(t1)
    c0, c2 = trace.get_choices(), t2.get_choices()
    moved_sc = c2["sc"]["h"] != c0["sc"]["h"]
    moved = jnp.any(moved_sc) | (c2["in"]["b"] != c0["in"]["b"])
    hsave(not_moved=~moved, accept=moved, score=t2.get_score(), n_moved=jnp.sum(moved_sc))
    return t2


KERNELS = {
    ("scalar", "mh"): dict(fn=lambda t: mh(t, sel("mu") | sel("x")), effect=True),
    ("scalar", "mala"): dict(fn=lambda t: mala(t, sel("mu") | sel("x"), 0.9), effect=True),
    ("scalar", "hmc"): dict(fn=lambda t: hmc(t, sel("mu") | sel("x"), 1.0, 3), effect=True),
    ("scalar", "seq_diag"): dict(fn=_k_scalar_seq_diag, effect=False),
    ("vector", "mh"): dict(fn=lambda t: mh(t, sel("v")), effect=True),
    ("vector", "mala"): dict(fn=lambda t: mala(t, sel("v") | sel("w"), 0.7), effect=True),
    ("vector", "hmc"): dict(fn=lambda t: hmc(t, sel("v") | sel("w"), 0.6, 3), effect=True),
    ("vector", "seq_always"): dict(fn=_k_vector_seq_always, effect=False),
    ("scan", "mh"): dict(fn=lambda t: mh(t, sel("in")), effect=True),
    ("scan", "mala"): dict(fn=lambda t: mala(t, sel("in") | sel("sc"), 0.7), effect=True),
    ("scan", "hmc"): dict(fn=lambda t: hmc(t, sel("in") | sel("sc"), 0.55, 3), effect=True),
    ("scan", "ns_moved"): dict(fn=_k_scan_ns_moved, effect=False),
}

_RECORDED = {}


def recorded_kernel(model, kernel):
    k = (model, kernel)
    if k not in _RECORDED:
        _RECORDED[k] = recorded(KERNELS[k]["fn"])
    return _RECORDED[k]


# ---------------------------------------------------------------------------
# leaves with labels
# ---------------------------------------------------------------------------
def leaf_labels(trace):
    """(category, path string) per leaf of a trace pytree, flatten order."""
    out = []
    for p, _ in jtu.tree_flatten_with_path(trace)[0]:
        s = jtu.keystr(p)
        cat = "other"
        for name in ("_choices", "_score", "_retval", "_args"):
            if s.startswith("." + name):
                cat = name[1:]
                break
        out.append((cat, s))
    return out


def np_leaves(tree):
    return [np.asarray(jnp.asarray(x)) for x in jtu.tree_leaves(tree)]
