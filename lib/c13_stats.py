"""Calibrated goodness-of-fit monitors and quadrature nodes for check C13
(DESIGN §3.5).  numpy / scipy only.

Every test here has an *exact finite-n* or conservative null law, so the
stated false-alarm level holds for the far tail that a 1e-9 family-wise level
needs (the asymptotic chi-square law does not: its tail under-states a
multinomial's by orders of magnitude at 1e-14):

  ks_dkw        sup |F_n - F| against the Dvoretzky-Kiefer-Wolfowitz-Massart
                bound  P(D_n > e) <= 2 exp(-2 n e^2)  (valid for every n, every F)
  cells_exact   chi-square-style cell test: cells pooled to >= min_expected,
                every cell count judged by its exact Binomial(n, p_cell) two-sided
                tail, Bonferroni over cells; Pearson X^2 is reported as well
  iid_normal    columns claimed iid N(0,1): DKW on every column, on every
                pairwise (z_i + z_j)/sqrt(2) and on the squared radius (chi2_d)
"""

from __future__ import annotations

import numpy as np
from scipy import special as sp
from scipy import stats as st


def dkw_eps(n, alpha):
    return float(np.sqrt(np.log(2.0 / alpha) / (2.0 * n)))


def ks_stat(u):
    """Kolmogorov distance between the empirical law of ``u`` and U(0,1)."""
    u = np.sort(np.asarray(u, dtype=np.float64).ravel())
    n = u.size
    i = np.arange(1, n + 1)
    return float(max(np.max(i / n - u), np.max(u - (i - 1) / n)))


def ks_dkw(u, alpha):
    u = np.asarray(u, dtype=np.float64).ravel()
    if not np.all(np.isfinite(u)):
        return {"ok": False, "D": float("nan"), "eps": dkw_eps(u.size, alpha), "n": int(u.size), "nonfinite": True}
    d = ks_stat(u)
    eps = dkw_eps(u.size, alpha)
    return {"ok": d <= eps, "D": d, "eps": eps, "n": int(u.size)}


def pool_cells(probs, n, min_expected=20.0):
    """Greedy pooling of adjacent cells (in the given order) until every pooled
    cell has expectation >= min_expected.  Returns an int label per cell."""
    probs = np.asarray(probs, dtype=np.float64)
    labels = np.zeros(len(probs), dtype=np.int64)
    cur, acc = 0, 0.0
    for i, p in enumerate(probs):
        labels[i] = cur
        acc += p * n
        if acc >= min_expected:
            cur += 1
            acc = 0.0
    if acc > 0 and cur > 0 and acc < min_expected:  # leftover joins the previous cell
        labels[labels == cur] = cur - 1
    return labels


def cells_exact(counts, probs, n, alpha, tail_prob=0.0, tail_count=0, min_expected=20.0):
    """counts[i] observations in cell i of probability probs[i]; ``tail_*`` is the
    mass / count outside the table.  Exact binomial judgement per pooled cell."""
    counts = np.asarray(counts, dtype=np.float64)
    probs = np.asarray(probs, dtype=np.float64)
    order = np.arange(len(probs))
    labels = pool_cells(probs[order], n, min_expected)
    m = int(labels.max()) + 1
    pc = np.bincount(labels, weights=probs, minlength=m)
    cc = np.bincount(labels, weights=counts, minlength=m)
    # the tail (beyond the table) is one more cell, pooled with the last if small
    if tail_prob * n >= min_expected:
        pc = np.append(pc, tail_prob)
        cc = np.append(cc, tail_count)
    else:
        pc[-1] += tail_prob
        cc[-1] += tail_count
    pc = np.clip(pc, 0.0, 1.0)
    ncell = len(pc)
    a_cell = alpha / max(ncell, 1)
    lo = st.binom.cdf(cc, n, pc)
    hi = st.binom.sf(cc - 1, n, pc)
    pval = np.minimum(1.0, 2.0 * np.minimum(lo, hi))
    worst = int(np.argmin(pval))
    exp = pc * n
    with np.errstate(divide="ignore", invalid="ignore"):
        x2 = float(np.sum(np.where(exp > 0, (cc - exp) ** 2 / np.where(exp > 0, exp, 1.0), 0.0)))
    return {
        "ok": bool(pval[worst] >= a_cell),
        "cells": ncell,
        "min_p": float(pval[worst]),
        "alpha_cell": a_cell,
        "worst_cell": worst,
        "worst_observed": float(cc[worst]),
        "worst_expected": float(exp[worst]),
        "pearson_x2": x2,
        "dof": ncell - 1,
        "n": int(n),
    }


def iid_normal(z, alpha):
    """z[n, d] claimed iid N(0,1) in every column and across columns."""
    z = np.asarray(z, dtype=np.float64)
    n, d = z.shape
    tests = [("col%d" % i, sp.ndtr(z[:, i])) for i in range(d)]
    for i in range(d):
        for j in range(i + 1, d):
            tests.append(("sum%d%d" % (i, j), sp.ndtr((z[:, i] + z[:, j]) / np.sqrt(2.0))))
            tests.append(("dif%d%d" % (i, j), sp.ndtr((z[:, i] - z[:, j]) / np.sqrt(2.0))))
    tests.append(("radius", st.chi2(d).cdf(np.sum(z * z, axis=1))))
    a = alpha / len(tests)
    worst = None
    for name, u in tests:
        r = ks_dkw(u, a)
        r["which"] = name
        if worst is None or (r["D"] != r["D"]) or r["D"] - r["eps"] > worst["D"] - worst["eps"]:
            worst = r
        if r["D"] != r["D"]:
            break
    worst["subtests"] = len(tests)
    return worst


# --------------------------------------------------------------------------
# quadrature: midpoint rule on a uniform grid in a transformed variable t.
# Analytic, decaying integrands -> geometric convergence; midpoints never touch
# a boundary of the support.
# --------------------------------------------------------------------------
def midpoints(lo, hi, m):
    h = (hi - lo) / m
    return lo + h * (np.arange(m) + 0.5), h


def nodes_real(center, scale, xlo, xhi, m):
    """x = center + scale*sinh(t) covering [xlo, xhi]; returns x, weights dx."""
    tlo = np.arcsinh((xlo - center) / scale)
    thi = np.arcsinh((xhi - center) / scale)
    t, h = midpoints(tlo, thi, m)
    return center + scale * np.sinh(t), h * scale * np.cosh(t)


def nodes_positive(xlo, xhi, m):
    """x = exp(t) covering [xlo, xhi] (xlo > 0)."""
    t, h = midpoints(np.log(xlo), np.log(xhi), m)
    x = np.exp(t)
    return x, h * x


def nodes_unit(xlo, xhi, m):
    """x = sigmoid(t) covering [xlo, xhi] inside (0,1)."""
    t, h = midpoints(sp.logit(xlo), sp.logit(xhi), m)
    x = sp.expit(t)
    return x, h * x * sp.expit(-t)


def nodes_interval(lo, hi, m):
    x, h = midpoints(lo, hi, m)
    return x, np.full(m, h)


def nodes_simplex(tlo, thi, m):
    """Stick-breaking sigmoid coordinates for the (k-1)-simplex, k = len(tlo)+1.
    Returns points x[N, k] (rows sum to 1 exactly in float64) and weights of
    Lebesgue measure in (x_1..x_{k-1})."""
    k1 = len(tlo)
    axes = [midpoints(tlo[i], thi[i], m) for i in range(k1)]
    grids = np.meshgrid(*[a[0] for a in axes], indexing="ij")
    T = np.stack([g.ravel() for g in grids], axis=-1)
    hprod = float(np.prod([a[1] for a in axes]))
    N = T.shape[0]
    x = np.empty((N, k1 + 1))
    rem = np.ones(N)
    w = np.full(N, hprod)
    for i in range(k1):
        s = sp.expit(T[:, i])
        x[:, i] = rem * s
        w = w * rem * s * sp.expit(-T[:, i])
        rem = rem * sp.expit(-T[:, i])
    x[:, k1] = rem
    return x, w


def selftest():
    rng = np.random.default_rng(1)
    a = 1e-12
    assert ks_dkw(rng.uniform(size=20000), a)["ok"]
    assert not ks_dkw(rng.uniform(size=20000) ** 1.2, a)["ok"]
    p = np.array([0.1, 0.2, 0.3, 0.4])
    c = rng.multinomial(20000, p)
    assert cells_exact(c, p, 20000, a)["ok"]
    assert not cells_exact(c, [0.13, 0.17, 0.3, 0.4], 20000, a)["ok"]
    z = rng.standard_normal((20000, 3))
    assert iid_normal(z, a)["ok"]
    z2 = z.copy()
    z2[:, 1] = 0.9 * z[:, 1] + np.sqrt(1 - 0.81) * z[:, 0]
    assert not iid_normal(z2, a)["ok"]
    x, w = nodes_real(0.0, 1.0, -40.0, 40.0, 4000)
    assert abs(np.sum(st.norm.pdf(x) * w) - 1) < 1e-10
    x, w = nodes_positive(1e-30, 1e3, 4000)
    assert abs(np.sum(st.gamma(0.4).pdf(x) * w) - 1) < 1e-8
    x, w = nodes_unit(1e-30, 1 - 1e-12, 4000)
    assert abs(np.sum(st.beta(0.5, 0.7).pdf(x) * w) - 1) < 1e-6
    x, w = nodes_simplex([-60, -60], [60, 60], 400)
    assert abs(np.sum(st.dirichlet([0.6, 1.5, 2.5]).pdf(x.T) * w) - 1) < 1e-6
    return True


if __name__ == "__main__":
    selftest()
    print("c13_stats selftest ok")
