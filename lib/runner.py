"""Coordinator: build the translated copy, fan cases out to worker
subprocesses, aggregate their JSONL streams, apply the known-findings file,
write evidence, print the verdict lines (DESIGN §3.1, §3.7, §3.8).

The coordinator never imports jax or genjax.
"""

from __future__ import annotations

import argparse
import glob
import hashlib
import importlib
import json
import os
import shutil
import subprocess
import sys
import tempfile
import time

HERE = os.path.dirname(os.path.abspath(__file__))
VERIF = os.path.dirname(HERE)
PY = "/venv/bin/python" if os.path.exists("/venv/bin/python") else sys.executable

MAX_SAMPLES = 6
MAX_VIOL_PRINT = 12


def find_module(prop: str):
    hits = sorted(glob.glob(os.path.join(VERIF, "checks", prop.lower() + "_*.py")))
    if not hits:
        raise SystemExit(f"no check module for {prop}")
    name = os.path.splitext(os.path.basename(hits[0]))[0]
    return importlib.import_module("checks." + name), "checks." + name


def load_known():
    p = os.path.join(VERIF, "known_findings.json")
    if not os.path.exists(p):
        return []
    with open(p) as f:
        return json.load(f).get("findings", [])


def worker_env(build_dir: str) -> dict:
    env = dict(os.environ)
    env["PYTHONPATH"] = build_dir + os.pathsep + VERIF
    env["JAX_PLATFORMS"] = "cpu"
    env["PYTHONHASHSEED"] = "0"
    env["OMP_NUM_THREADS"] = "1"
    env["OPENBLAS_NUM_THREADS"] = "1"
    env["MKL_NUM_THREADS"] = "1"
    env["TF_CPP_MIN_LOG_LEVEL"] = "3"
    env.setdefault(
        "XLA_FLAGS",
        "--xla_cpu_multi_thread_eigen=false intra_op_parallelism_threads=1",
    )
    env["PYTHONDONTWRITEBYTECODE"] = "1"
    env["VERIF_BUILD_DIR"] = build_dir
    env.pop("JAX_ENABLE_X64", None)
    return env


def run_workers(modname, cases, tier, seed, build_dir, nworkers, timeout_s, scratch):
    nworkers = max(1, min(nworkers, len(cases)))
    shards = [cases[i::nworkers] for i in range(nworkers)]
    procs = []
    env = worker_env(build_dir)
    for i, shard in enumerate(shards):
        fin = os.path.join(scratch, f"in_{i}.json")
        fout = os.path.join(scratch, f"out_{i}.jsonl")
        ferr = os.path.join(scratch, f"err_{i}.log")
        with open(fin, "w") as f:
            json.dump({"cases": shard, "tier": tier, "seed": seed, "worker": i}, f)
        p = subprocess.Popen(
            [PY, "-m", "lib.worker", modname, fin, fout],
            env=env,
            cwd=VERIF,
            stdout=open(ferr, "w"),
            stderr=subprocess.STDOUT,
        )
        procs.append((p, fout, ferr, len(shard)))
    deadline = time.time() + timeout_s
    timed_out = 0
    for p, _, _, _ in procs:
        left = max(1.0, deadline - time.time())
        try:
            p.wait(timeout=left)
        except subprocess.TimeoutExpired:
            p.kill()
            p.wait()
            timed_out += 1
    records = []
    crashed = []
    for p, fout, ferr, n in procs:
        done = False
        if os.path.exists(fout):
            with open(fout) as f:
                for line in f:
                    line = line.strip()
                    if not line:
                        continue
                    try:
                        r = json.loads(line)
                    except json.JSONDecodeError:
                        continue
                    if r.get("kind") == "done":
                        done = True
                    records.append(r)
        if not done and p.returncode not in (0, -9):
            tail = ""
            try:
                with open(ferr) as f:
                    tail = f.read()[-3000:]
            except OSError:
                pass
            crashed.append({"returncode": p.returncode, "tail": tail})
    return records, timed_out, crashed


def aggregate(records):
    counters: dict[str, float] = {}
    distinct: dict[str, set] = {}
    samples = []
    violations = []
    harness_errors = []
    notes = []
    evaluations = 0
    for r in records:
        k = r.get("kind")
        if k == "summary":
            for name, v in r.get("counters", {}).items():
                counters[name] = counters.get(name, 0) + v
            for name, hs in r.get("distinct", {}).items():
                distinct.setdefault(name, set()).update(hs)
            for s in r.get("samples", []):
                if len(samples) < MAX_SAMPLES:
                    samples.append(s)
            evaluations += r.get("evaluations", 0)
            for n in r.get("notes", []):
                if n not in notes:
                    notes.append(n)
        elif k == "violation":
            violations.append(r)
        elif k == "harness_error":
            harness_errors.append(r)
    return counters, distinct, samples, violations, harness_errors, notes, evaluations


def main(argv=None):
    ap = argparse.ArgumentParser()
    ap.add_argument("prop")
    ap.add_argument("--tier", default=os.environ.get("VERIF_TIER", "quick"))
    ap.add_argument("--seed", type=int, default=int(os.environ.get("VERIF_SEED", "0") or 0))
    ap.add_argument("--replay", default=None)
    ap.add_argument("--workers", type=int, default=int(os.environ.get("VERIF_WORKERS", "0") or 0))
    ap.add_argument("--case", type=int, default=None, help="run only case index i (debug)")
    ap.add_argument("--keep", action="store_true", help="keep scratch dir (debug)")
    ap.add_argument("--no-evidence", action="store_true")
    args = ap.parse_args(argv)
    if args.tier not in ("quick", "thorough"):
        args.tier = "quick"
    prop = args.prop.upper()
    sys.path.insert(0, VERIF)
    mod, modname = find_module(prop)
    t0 = time.time()

    from lib import build as build_mod

    scratch = tempfile.mkdtemp(prefix=f"verif_{prop}_")
    try:
        build_dir = os.path.join(scratch, "build")
        os.makedirs(build_dir)
        report = build_mod.build(build_dir)

        if args.replay:
            with open(args.replay) as f:
                rp = json.load(f)
            cases = [rp["case"]]
            tier = rp.get("tier", args.tier)
            seed = rp.get("seed", args.seed)
        else:
            tier, seed = args.tier, args.seed
            cases = mod.plan(tier, seed)
            for i, c in enumerate(cases):
                c.setdefault("index", i)
            if args.case is not None:
                cases = [c for c in cases if c["index"] == args.case]
        nworkers = args.workers or min(16, os.cpu_count() or 4)
        timeout_s = getattr(mod, "TIMEOUT_S", {"quick": 900, "thorough": 5400})[tier]
        records, timed_out, crashed = run_workers(
            modname, cases, tier, seed, build_dir, nworkers, timeout_s, scratch
        )
    finally:
        if not args.keep:
            shutil.rmtree(scratch, ignore_errors=True)
        else:
            print("scratch kept at", scratch)

    counters, distinct, samples, violations, herrs, notes, evaluations = aggregate(records)
    wall = time.time() - t0

    # ----- classify violations against the known-findings file
    known = {
        (k["property"], k["key"]): k
        for k in load_known()
        if k.get("status") == "known"
    }
    known_hits: dict[str, int] = {}
    fresh = []
    for v in violations:
        kk = (prop, v["key"])
        if kk in known:
            known_hits[v["key"]] = known_hits.get(v["key"], 0) + 1
        else:
            fresh.append(v)

    # ----- inconclusive?
    floors = getattr(mod, "FLOORS", {}).get(tier, {})
    def _observed(name):
        if name.startswith("distinct:"):
            return len(distinct.get(name[len("distinct:"):], ()))
        return counters.get(name, 0)

    missed = {name: (_observed(name), need) for name, need in floors.items() if _observed(name) < need}
    inconclusive = bool(missed) or timed_out > 0
    if args.replay or args.case is not None:
        inconclusive = False

    distinct_counts = {k: len(v) for k, v in distinct.items()}
    dn = distinct_counts.get("nontrivial", 0)
    coverage = {
        "evaluations": int(evaluations),
        "distinct_nontrivial": int(dn),
        "rule": getattr(mod, "RULE", ""),
        "samples": samples,
        "counters": {k: (int(v) if float(v).is_integer() else v) for k, v in sorted(counters.items())},
        "distinct": distinct_counts,
        "cases_planned": len(cases),
        "workers": nworkers,
        "workers_timed_out": timed_out,
        "known_findings_hit": known_hits,
        "build": {
            "translated": report["translated"],
            "rewrites": report["rewrites"],
        },
        "inconclusive": inconclusive,
        "floors_missed": {k: list(v) for k, v in missed.items()},
        "notes": notes,
    }
    if getattr(mod, "EXHAUSTIVE", {}).get(tier):
        coverage["exhaustive"] = True
    for k, v in getattr(mod, "EXTRA_COVERAGE", {}).items():
        coverage[k] = v
    evidence = {
        "property_id": prop,
        "tier": tier,
        "seed": int(seed),
        "level": getattr(mod, "LEVEL", "exploration"),
        "coverage": coverage,
        "assumptions": getattr(mod, "ASSUMPTIONS", []),
        "wall_s": round(wall, 2),
        "violations": len(fresh),
    }

    broken = bool(herrs) or bool(crashed)
    if not (args.replay or args.no_evidence or args.case is not None) and not broken:
        os.makedirs(os.path.join(VERIF, "evidence"), exist_ok=True)
        with open(os.path.join(VERIF, "evidence", f"{prop}.json"), "w") as f:
            json.dump(evidence, f, indent=1, sort_keys=False, default=str)

    # ----- report
    print(
        f"[{prop}] tier={tier} seed={seed} cases={len(cases)} evaluations={evaluations} "
        f"distinct_nontrivial={dn} wall={wall:.1f}s"
    )
    interesting = {k: v for k, v in sorted(counters.items())}
    print(f"[{prop}] counters: " + json.dumps(interesting, default=str))
    if broken:
        for h in herrs[:5]:
            print(f"HARNESS-ERROR {prop}: case={h.get('case_index')} {h.get('error')}")
            print(h.get("traceback", "")[-2500:])
        for c in crashed[:3]:
            print(f"WORKER-CRASH {prop}: rc={c['returncode']}\n{c['tail']}")
        print(f"BROKEN property={prop} (harness error; nothing it reports is a finding)")
        return 3
    for key, n in sorted(known_hits.items()):
        what = known[(prop, key)].get("what", "")
        print(f"KNOWN-FINDING: property={prop} key={key} hits={n} :: {what}")
    if fresh:
        os.makedirs(os.path.join(VERIF, "replays"), exist_ok=True)
        seen_keys = {}
        for v in fresh:
            seen_keys.setdefault(v["key"], []).append(v)
        nprint = 0
        for key, vs in sorted(seen_keys.items()):
            v = vs[0]
            h = hashlib.sha1(
                json.dumps([prop, key, v.get("case")], sort_keys=True, default=str).encode()
            ).hexdigest()[:10]
            path = os.path.join(VERIF, "replays", f"{prop}_{h}.json")
            with open(path, "w") as f:
                json.dump(
                    {
                        "property": prop,
                        "key": key,
                        "tier": tier,
                        "seed": seed,
                        "case": v.get("case"),
                        "detail": v.get("detail"),
                        "occurrences": len(vs),
                    },
                    f,
                    indent=1,
                    default=str,
                )
            if nprint < MAX_VIOL_PRINT:
                print(f"VIOLATION property={prop} replay={path}")
                print(f"  key={key} occurrences={len(vs)}")
                print("  detail=" + json.dumps(v.get("detail"), default=str)[:1500])
                nprint += 1
        return 1
    if inconclusive:
        print(
            f"INCONCLUSIVE property={prop} floors_missed={json.dumps(coverage['floors_missed'])} "
            f"workers_timed_out={timed_out}"
        )
        return 2
    print(f"HELD property={prop} on everything explored")
    return 0


if __name__ == "__main__":
    sys.exit(main())
