"""C06 workload: a seeded generator of probabilistic *functions* (JSON specs) and
the builder that turns a spec into a fresh Python closure using genjax.

The spec language is deliberately tiny.  A program is

    f(x, s, *, shift)  ->  {"c": [...], "d": [...], "aux": [...], "h": scalar}

``c``   continuous random leaves (every one must depend on the key),
``d``   discrete random leaves (bool / int / Poisson counts),
``aux`` derived quantities (scores, weights, constrained values) that must be
        reproducible but need not be key-sensitive,
``h``   a running float32 scalar that every statement reads and updates, so
        that every later site depends on every earlier draw.

Statements (``mode`` plain = inside an ordinary function using ``dist.sample``,
``mode`` gen = inside an ``@gen`` body using ``dist(...) @ addr``):

    site    one sample site (positional or keyword parameters, optional
            sample_shape, ``style`` "sample" = dist.sample(..) / "call" = dist(..))
    scan    lax.scan (plain) / Scan combinator (gen) over a sub-block
    cond    lax.cond (plain) / Cond combinator (gen) on ``h > thr``
    vmap    modular_vmap (plain) / Vmap combinator or .repeat (gen)
    call    nested @gen call with a keyword argument (gen only)
    gfi     (plain only) a GFI method of a generated @gen model:
            simulate / assess / generate / update / regenerate

Only numpy is imported at module level; jax / genjax are imported by ``build``.
"""

from __future__ import annotations

import numpy as np

# name -> (kind, keyword names, rejection-sampled?)
DISTS = {
    "normal": ("c", ("loc", "scale"), False),
    "laplace": ("c", ("loc", "scale"), False),
    "uniform": ("c", ("low", "high"), False),
    "exponential": ("c", ("rate",), False),
    "gamma": ("c", ("concentration", "rate"), True),
    "beta": ("c", ("concentration1", "concentration0"), True),
    "mvn": ("c", ("loc", "covariance_matrix"), False),
    "reparam": ("c", None, False),  # adev normal_reparam: positional only
    "flip": ("d", ("p",), False),
    "categorical": ("d", ("logits",), False),
    "poisson": ("d", ("rate",), True),
}
CONT = [k for k, v in DISTS.items() if v[0] == "c"]
DISC = [k for k, v in DISTS.items() if v[0] == "d"]
# inside @gen bodies the class of a choice is read off its dtype, so only
# discrete distributions with a non-float dtype are used there
GEN_DISTS = ["normal", "laplace", "uniform", "exponential", "gamma", "mvn", "flip", "categorical"]
X_VARIANTS = ["py", "f32", "v3", "v5", "m22"]


# ---------------------------------------------------------------------------
# generator (numpy only)
# ---------------------------------------------------------------------------
def _r(rng, lo, hi):
    return round(float(rng.uniform(lo, hi)), 3)


_LIGHT = {"on": False}  # generator mode: no scan / cond / rejection samplers (nothing compiles per eager run)


def _gen_site(rng, mode, first=False):
    rej = 0.0 if _LIGHT["on"] else 0.4
    if first:
        dist = "normal"
    elif mode == "gen":
        dist = str(rng.choice(GEN_DISTS, p=_norm([5, 1, 2, 1, rej, 1, 2, 2])))
    else:
        names = list(DISTS)
        w = [6, 1, 2, 1.5, rej, rej, 1, 1, 2, 2, rej]
        dist = str(rng.choice(names, p=_norm(w)))
    st = {"op": "site", "dist": dist, "a": _r(rng, 0.5, 1.5), "b": _r(rng, 0.7, 1.6)}
    kw = DISTS[dist][1]
    st["kw"] = bool(kw is not None and rng.random() < 0.3)
    if mode == "plain":
        st["style"] = "call" if (dist != "reparam" and rng.random() < 0.25) else "sample"
        if st["style"] == "sample" and dist not in ("reparam",) and rng.random() < 0.3:
            st["shape"] = [int(rng.integers(1, 4))] if rng.random() < 0.8 else [2, 2]
    return st


def _norm(w):
    w = np.asarray(w, dtype=float)
    return w / w.sum()


def _gen_block(rng, mode, depth, budget, nmax=3):
    """budget: dict(sites=..., ctl=...) shared across the whole program."""
    out = []
    n = int(rng.integers(1, nmax + 1))
    for _ in range(n):
        if budget["sites"] <= 0:
            break
        ops = ["site"]
        w = [5.0]
        if depth > 0 and budget["ctl"] > 0:
            ops += ["scan", "cond", "vmap"]
            w += [0.0, 0.0, 2.4] if _LIGHT["on"] else [1.6, 1.6, 1.6]
            if mode == "gen":
                ops.append("call")
                w.append(1.2)
        op = str(rng.choice(ops, p=_norm(w)))
        if op == "site":
            budget["sites"] -= 1
            out.append(_gen_site(rng, mode))
            continue
        budget["ctl"] -= 1
        if op == "scan":
            out.append(
                {
                    "op": "scan",
                    "n": int(rng.integers(2, 5)),
                    "reverse": bool(mode == "plain" and rng.random() < 0.3),
                    "body": _nonempty(rng, mode, depth - 1, budget),
                }
            )
        elif op == "cond":
            t = _nonempty(rng, mode, depth - 1, budget)
            if mode == "gen":
                # Cond branches share one address set: same structure, other constants
                f = _perturb(rng, t)
            else:
                f = _nonempty(rng, mode, depth - 1, budget) if rng.random() < 0.8 else []
            out.append({"op": "cond", "thr": _r(rng, -0.4, 0.4), "t": t, "f": f})
        elif op == "vmap":
            st = {
                "op": "vmap",
                "n": int(rng.integers(2, 5)),
                "batched": bool(rng.random() < 0.6),
                "body": _nonempty(rng, mode, depth - 1, budget),
            }
            out.append(st)
        elif op == "call":
            out.append({"op": "call", "scale": _r(rng, 0.5, 1.5), "body": _nonempty(rng, mode, depth - 1, budget)})
    if not out:
        budget["sites"] -= 1
        out.append(_gen_site(rng, mode))
    return out


def _nonempty(rng, mode, depth, budget):
    budget["sites"] = max(budget["sites"], 1)
    return _gen_block(rng, mode, depth, budget, nmax=2)


def _perturb(rng, block):
    out = []
    for st in block:
        st = dict(st)
        if st["op"] == "site":
            st["a"] = _r(rng, 0.5, 1.5)
            st["b"] = _r(rng, 0.7, 1.6)
        for k in ("body", "t", "f"):
            if k in st:
                st[k] = _perturb(rng, st[k])
        out.append(st)
    return out


def gen_program(rng, family, tier="quick", light=False):
    """family: plain | gfi | mixed | binder"""
    _LIGHT["on"] = bool(light)
    try:
        return _gen_program(rng, family, tier)
    finally:
        _LIGHT["on"] = False


def _gen_program(rng, family, tier):
    depth = 2 if tier == "quick" else 3
    sites = int(rng.integers(3, 8)) if tier == "quick" else int(rng.integers(3, 11))
    budget = {"sites": sites, "ctl": int(rng.integers(1, 3 if tier == "quick" else 4))}
    spec = {
        "family": family,
        "x": str(rng.choice(X_VARIANTS, p=_norm([3, 2, 2, 1, 1]))),
        "x0": _r(rng, -0.8, 0.8),
        "s": _r(rng, 0.6, 1.6),
        "s_weak": bool(rng.random() < 0.5),
        "shift": _r(rng, -0.3, 0.3),
        "kwargs": bool(rng.random() < 0.4),
        "held0": family == "binder",
    }
    if family == "binder":
        spec["stmts"] = _gen_block(rng, "plain", 0, {"sites": 2, "ctl": 0}, nmax=2)
        spec["x"] = str(rng.choice(["py", "v3", "f32"]))
        return spec
    stmts = []
    if family in ("plain", "mixed"):
        stmts += _gen_block(rng, "plain", depth, budget, nmax=4)
    if family in ("gfi", "mixed"):
        ng = 1 if family == "mixed" else int(rng.integers(1, 3))
        for _ in range(ng):
            b = {"sites": int(rng.integers(2, 6)), "ctl": int(rng.integers(1, 3))}
            model = [_gen_site(rng, "gen", first=True)] + _gen_block(rng, "gen", depth, b, nmax=3)
            stmts.append(
                {
                    "op": "gfi",
                    "method": str(rng.choice(["simulate", "assess", "generate", "update", "regenerate"])),
                    "model": model,
                    "kwcall": bool(rng.random() < 0.4),
                    "cval": _r(rng, -0.5, 0.5),
                }
            )
    spec["stmts"] = stmts
    return spec


def features(spec):
    """Structural fingerprint (no constants) and feature flags of a spec."""

    def walk(block, mode):
        sig = []
        for st in block:
            op = st["op"]
            if op == "site":
                sig.append(
                    ["site", st["dist"], bool(st.get("kw")), st.get("style", "gen"), st.get("shape") or []]
                )
                flags.add("site:" + st["dist"])
                if st.get("kw"):
                    flags.add("kw-site")
                if st.get("shape"):
                    flags.add("sample_shape")
                if st.get("style") == "call":
                    flags.add("gfi-call-at-top-level")
                if DISTS[st["dist"]][0] == "d" or DISTS[st["dist"]][2]:
                    flags.add("tie-prone")
            elif op in ("scan", "vmap", "call"):
                flags.add(f"{mode}:{op}")
                sig.append([op, st.get("n"), st.get("batched"), st.get("reverse"), walk(st["body"], mode)])
            elif op == "cond":
                flags.add(f"{mode}:cond")
                flags.add("tie-prone")
                sig.append(["cond", walk(st["t"], mode), walk(st["f"], mode)])
            elif op == "gfi":
                flags.add("method:" + st["method"])
                sig.append(["gfi", st["method"], st["kwcall"], walk(st["model"], "gen")])
        return sig

    flags = set()
    sig = walk(spec["stmts"], "plain")
    if spec["kwargs"]:
        flags.add("kwargs")
    if spec.get("held0"):
        flags.add("held-binder")
    flags.add("x:" + spec["x"])
    return sig, sorted(flags)


def count_sites(spec):
    def walk(block):
        n = 0
        for st in block:
            if st["op"] == "site":
                n += 1
            for k in ("body", "t", "f", "model"):
                if k in st:
                    n += walk(st[k])
        return n

    return 1 + walk(spec["stmts"])


def has_compiled_control_flow(spec):
    """scan / cond / while (rejection samplers) anywhere: an eager seeded run
    then compiles on every call."""

    def walk(block):
        for st in block:
            if st["op"] in ("scan", "cond"):
                return True
            if st["op"] == "site" and DISTS[st["dist"]][2]:
                return True
            for k in ("body", "t", "f", "model"):
                if k in st and walk(st[k]):
                    return True
        return False

    return walk(spec["stmts"])


# ---------------------------------------------------------------------------
# builder (jax / genjax imported lazily)
# ---------------------------------------------------------------------------
def make_x(spec, variant=None):
    import jax.numpy as jnp

    v = variant or spec["x"]
    x0 = spec["x0"]
    if v == "py":
        return float(x0)
    if v == "f32":
        return jnp.float32(x0)
    if v == "v3":
        return jnp.asarray(x0 + 0.1 * np.arange(3), dtype=jnp.float32)
    if v == "v5":
        return jnp.asarray(x0 - 0.05 * np.arange(5), dtype=jnp.float32)
    if v == "v1":
        return jnp.asarray([x0], dtype=jnp.float32)
    if v == "m22":
        return jnp.asarray(x0 + 0.1 * np.arange(4).reshape(2, 2), dtype=jnp.float32)
    raise ValueError(v)


def make_call(spec, variant=None):
    """(args, kwargs) of the top-level call for x-variant ``variant``."""
    import jax.numpy as jnp

    x = make_x(spec, variant)
    s = float(spec["s"]) if spec["s_weak"] else jnp.float32(spec["s"])
    if spec["kwargs"]:
        return (x,), {"s": s, "shift": float(spec["shift"])}
    return (x, s), {}


class _Env:
    __slots__ = ("h", "c", "d", "aux")

    def __init__(self, h):
        self.h = h
        self.c, self.d, self.aux = [], [], []


def build(spec):
    """A *fresh* closure for ``spec`` (new function object, new @gen models,
    new held sampler binding)."""
    import jax
    import jax.numpy as jnp
    import genjax
    from genjax import Cond, Scan, const, gen, modular_vmap, sel
    from genjax.pjax import sample_binder

    D = {
        "normal": genjax.normal,
        "laplace": genjax.laplace,
        "uniform": genjax.uniform,
        "exponential": genjax.exponential,
        "gamma": genjax.gamma,
        "beta": genjax.beta,
        "mvn": genjax.multivariate_normal,
        "flip": genjax.flip,
        "categorical": genjax.categorical,
        "poisson": genjax.poisson,
    }
    f32 = jnp.float32

    def softsign(m):
        return m / (1.0 + jnp.abs(m))

    def mix(h, v):
        m = jnp.mean(jnp.asarray(v).astype(f32))
        return 0.7 * h + 0.3 * softsign(m)

    def params(dist, h, st):
        a, b = st["a"], st["b"]
        if dist in ("normal", "laplace", "reparam"):
            return (h, a)
        if dist == "uniform":
            return (h - a, h + a)
        if dist == "exponential":
            return (0.5 + a + 0.1 * h * h,)
        if dist == "gamma":
            return (1.0 + a + 0.1 * h * h, b)
        if dist == "beta":
            return (1.0 + a, 1.5 + 0.1 * h * h)
        if dist == "flip":
            return (jax.nn.sigmoid(h * a),)
        if dist == "categorical":
            return (jnp.stack([h, 0.0 * h, -h]) * a,)
        if dist == "poisson":
            return (1.0 + a + 0.1 * h * h,)
        if dist == "mvn":
            return (jnp.stack([h, -h]), jnp.asarray([[1.0, 0.3], [0.3, 1.0 + a]], dtype=f32))
        raise ValueError(dist)

    def split_kw(dist, ps, st):
        if st.get("kw"):
            return (), dict(zip(DISTS[dist][1], ps))
        return ps, {}

    # ------------------------------------------------------------- plain mode
    def run_plain(block, env):
        for st in block:
            op = st["op"]
            if op == "site":
                dist = st["dist"]
                ps = params(dist, env.h, st)
                if dist == "reparam":
                    v = genjax.normal_reparam(*ps)
                else:
                    pa, pk = split_kw(dist, ps, st)
                    if st.get("style") == "call":
                        v = D[dist](*pa, **pk)
                    elif st.get("shape"):
                        v = D[dist].sample(*pa, sample_shape=tuple(st["shape"]), **pk)
                    else:
                        v = D[dist].sample(*pa, **pk)
                (env.c if DISTS[dist][0] == "c" else env.d).append(v)
                env.h = mix(env.h, v)
            elif op == "scan":
                body = st["body"]

                def step(c, i, body=body):
                    e = _Env(c + 0.05 * i)
                    run_plain(body, e)
                    return e.h, (tuple(e.c), tuple(e.d))

                hN, (yc, yd) = jax.lax.scan(
                    step, env.h, jnp.arange(st["n"], dtype=f32), reverse=st.get("reverse", False)
                )
                env.c.extend(yc)
                env.d.extend(yd)
                env.h = hN
            elif op == "cond":

                def branch(body):
                    def g(h):
                        e = _Env(h)
                        run_plain(body, e)
                        return e.h

                    return g

                pred = env.h > st["thr"]
                env.d.append(pred)
                env.h = jax.lax.cond(pred, branch(st["t"]), branch(st["f"]), env.h)
            elif op == "vmap":
                body = st["body"]

                def inner(xi, h, body=body):
                    e = _Env(h + xi)
                    run_plain(body, e)
                    return e.h, (tuple(e.c), tuple(e.d))

                n = st["n"]
                if st["batched"]:
                    xs = jnp.linspace(-0.5, 0.5, n, dtype=f32)
                    hs, (yc, yd) = modular_vmap(inner, in_axes=(0, None))(xs, env.h)
                else:
                    hs, (yc, yd) = modular_vmap(inner, in_axes=(None, None), axis_size=n)(f32(0.1), env.h)
                env.c.extend(yc)
                env.d.extend(yd)
                env.c.append(hs)
                env.h = mix(env.h, hs)
            elif op == "gfi":
                run_gfi(st, env)
            else:
                raise ValueError(op)

    # --------------------------------------------------------------- gen mode
    def make_model(block):
        """@gen function  (h, scale=1.0) -> h'  whose body interprets ``block``."""
        subs = {}
        for i, st in enumerate(block):
            op = st["op"]
            if op == "scan":
                inner = make_model(st["body"])
                src = inner.source.value

                def step(c, x, src=src):
                    c2 = src(c + 0.05 * x)
                    return c2, c2

                subs[i] = Scan(gen(step), length=const(st["n"]))
            elif op == "cond":
                subs[i] = Cond(make_model(st["t"]), make_model(st["f"]))
            elif op == "vmap":
                inner = make_model(st["body"])
                src = inner.source.value
                if st["batched"]:

                    def lane(xi, h, src=src):
                        return src(h + xi)

                    subs[i] = gen(lane).vmap(in_axes=(0, None))
                else:
                    subs[i] = inner.repeat(st["n"])
            elif op == "call":
                subs[i] = make_model(st["body"])

        def body(h, scale=1.0):
            h = h * scale
            for i, st in enumerate(block):
                op = st["op"]
                addr = f"{op[0]}{i}"
                if op == "site":
                    dist = st["dist"]
                    pa, pk = split_kw(dist, params(dist, h, st), st)
                    v = D[dist](*pa, **pk) @ addr
                    h = mix(h, v)
                elif op == "scan":
                    hN, ys = subs[i](h, jnp.arange(st["n"], dtype=f32)) @ addr
                    h = mix(hN, ys)
                elif op == "cond":
                    h = subs[i](h > st["thr"], h) @ addr
                elif op == "vmap":
                    if st["batched"]:
                        hs = subs[i](jnp.linspace(-0.5, 0.5, st["n"], dtype=f32), h) @ addr
                    else:
                        hs = subs[i](h) @ addr
                    h = mix(h, hs)
                elif op == "call":
                    h = subs[i](h, scale=st["scale"]) @ addr
            return h

        return gen(body)

    models = {}

    def split_choices(tree, env, skip=None):
        leaves = jax.tree_util.tree_leaves(tree)
        for v in leaves:
            if v is skip:
                env.aux.append(v)
            elif jnp.issubdtype(v.dtype, jnp.floating):
                env.c.append(v)
            else:
                env.d.append(v)

    def run_gfi(st, env):
        key = id(st)
        if key not in models:
            models[key] = make_model(st["model"])
        m = models[key]
        h = env.h
        kw = {"scale": 1.25} if st["kwcall"] else {}
        a0 = "s0"  # the model's first statement is always a continuous site
        cval = f32(st["cval"])
        meth = st["method"]
        if meth == "simulate":
            tr = m.simulate(h, **kw)
            split_choices(tr.get_choices(), env)
            env.aux.append(tr.get_score())
            r = tr.get_retval()
        elif meth == "assess":
            tr = m.simulate(h, **kw)
            logp, r = m.assess(tr.get_choices(), h, **kw)
            split_choices(tr.get_choices(), env)
            env.aux.append(logp)
        elif meth == "generate":
            tr, w = m.generate({a0: cval}, h, **kw)
            ch = tr.get_choices()
            split_choices(ch, env, skip=ch[a0])
            env.aux.extend([w, tr.get_score()])
            r = tr.get_retval()
        elif meth == "update":
            tr0 = m.simulate(h, **kw)
            tr, w, disc = m.update(tr0, {a0: cval}, h + 0.1, **kw)
            ch = tr.get_choices()
            split_choices(ch, env, skip=ch[a0])
            env.aux.extend([w, tr.get_score()])
            env.aux.extend(jax.tree_util.tree_leaves(disc))
            r = tr.get_retval()
        elif meth == "regenerate":
            tr0 = m.simulate(h, **kw)
            tr, w, disc = m.regenerate(tr0, sel(a0), h, **kw)
            split_choices(tr.get_choices(), env)
            env.aux.extend([w, tr.get_score()])
            env.aux.extend(jax.tree_util.tree_leaves(disc))
            r = tr.get_retval()
        else:
            raise ValueError(meth)
        env.c.append(r)
        env.h = mix(env.h, r)

    # ------------------------------------------------------------ top level
    if spec.get("held0"):
        import tensorflow_probability.substrates.jax as tfp

        def normal_sampler(key, loc, scale, sample_shape=(), **kwargs):
            return tfp.distributions.Normal(loc, scale).sample(seed=key, sample_shape=sample_shape)

        # the pattern of the pjax module docstring: bind once, call many times
        held = sample_binder(normal_sampler, name="held_normal")
    else:
        held = None

    stmts = spec["stmts"]

    def f(x, s=1.0, *, shift=0.0):
        v0 = held(x, s) if held is not None else genjax.normal.sample(x, s)
        env = _Env(softsign(jnp.mean(v0)) + shift)
        env.c.append(v0)
        run_plain(stmts, env)
        return {"c": list(env.c), "d": list(env.d), "aux": list(env.aux), "h": env.h}

    return f


# ---------------------------------------------------------------------------
# fault injection: GFI calls that raise half-way through a body
# ---------------------------------------------------------------------------
FAULTS = [
    "assess-missing-address",
    "simulate-address-collision",
    "simulate-body-raises",
    "generate-body-raises",
    "update-missing-address",
    "regenerate-body-raises",
    "nested-call-body-raises",
    "seeded-simulate-address-collision",
    "seeded-scan-body-raises",
    "seeded-vmap-assess-missing-address",
]


class UserBodyError(RuntimeError):
    pass


def make_fault(name):
    """Returns (callable, expected exception type name, GFI method that is left
    half-way).  The callable performs ONE top-level call that raises."""
    import jax
    import jax.numpy as jnp
    from genjax import Scan, const, gen, normal, seed, sel

    key = jax.random.key(4242)

    @gen
    def ab(x):
        a = normal(x, 1.0) @ "a"
        b = normal(a, 1.0) @ "b"
        return a + b

    @gen
    def collide(x):
        a = normal(x, 1.0) @ "a"
        b = normal(a, 1.0) @ "a"
        return a + b

    flag = {"raise": True}

    @gen
    def bad(x):
        a = normal(x, 1.0) @ "a"
        if flag["raise"]:
            raise UserBodyError("user code raised inside an @gen body")
        b = normal(a, 1.0) @ "b"
        return a + b

    @gen
    def outer(x):
        y = normal(x, 1.0) @ "y"
        z = bad(y) @ "z"
        return z

    def good_trace():
        flag["raise"] = False
        try:
            return seed(bad.simulate)(key, 0.1)
        finally:
            flag["raise"] = True

    if name == "assess-missing-address":
        return (lambda: ab.assess({"a": jnp.float32(0.3)}, 0.5)), "KeyError", "Fn.assess"
    if name == "simulate-address-collision":
        return (lambda: collide.simulate(0.5)), "ValueError", "Fn.simulate"
    if name == "simulate-body-raises":
        return (lambda: bad.simulate(0.5)), "UserBodyError", "Fn.simulate"
    if name == "generate-body-raises":
        return (lambda: bad.generate({"a": jnp.float32(0.2)}, 0.5)), "UserBodyError", "Fn.generate"
    if name == "update-missing-address":
        tr = seed(ab.simulate)(key, 0.5)

        @gen
        def abc(x):
            a = normal(x, 1.0) @ "a"
            c = normal(a, 1.0) @ "c"
            return a + c

        # a trace of ``ab`` pushed through a program that visits an address the trace lacks
        return (lambda: abc.update(tr, {"a": jnp.float32(0.1)}, 0.5)), "KeyError", "Fn.update"
    if name == "regenerate-body-raises":
        tr = good_trace()
        return (lambda: bad.regenerate(tr, sel("a"), 0.5)), "UserBodyError", "Fn.regenerate"
    if name == "nested-call-body-raises":
        return (lambda: outer.simulate(0.5)), "UserBodyError", "Fn.simulate (two frames)"
    if name == "seeded-simulate-address-collision":
        return (lambda: seed(collide.simulate)(key, 0.5)), "ValueError", "Fn.simulate under seed"
    if name == "seeded-scan-body-raises":

        @gen
        def step(c, x):
            v = bad(c + x) @ "v"
            return v, v

        sc = Scan(step, length=const(3))
        return (
            (lambda: seed(sc.simulate)(key, jnp.float32(0.0), jnp.arange(3.0))),
            "UserBodyError",
            "Fn.simulate inside Scan under seed",
        )
    if name == "seeded-vmap-assess-missing-address":
        vm = ab.vmap(in_axes=(0,))
        return (
            (lambda: seed(vm.assess)(key, {"a": jnp.zeros(3)}, jnp.zeros(3))),
            "KeyError",
            "Fn.assess inside Vmap under seed",
        )
    raise ValueError(name)
