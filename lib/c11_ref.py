"""C11 — program specs for ADEV expectation programs, their seeded generator and an
independent float64 reference (numpy only; no jax, no genjax, no TFP).

A program is a JSON-able dict

    {"params": [{"name": "t0", "n": 0}, {"name": "w", "n": 3}, ...],     n == 0: scalar, n > 0: vector of length n
     "body":   [stmt, ...], "ret": expr}

    stmt ::= {"s": "let",  "v": name, "e": expr}
           | {"s": "site", "v": name, "prim": <ADEV primitive name>, "args": [expr, ...], "how": "direct" | "mvmap"}
           | {"s": "cond", "v": name, "pred": expr, "t": {"body": [...], "ret": expr}, "f": {...}}      (jax.lax.cond)

    expr ::= ["c", x] | ["p", name] | ["v", name] | ["+", a, b] | ["-", a, b] | ["*", a, b] | [unary, a]
           | ["where", b, a1, a2] | ["eq", a, k] | ["not", b] | ["tab", k, [c0, c1, ...]]
           | ["vec", e1, ...] | ["idx", vec, i] | ["sum", vec] | ["dot", v1, v2] | ["cov2", s1, s2, r]
    unary ::= neg sin cos tanh sq sig exp f(bool/int -> float)
              prob (0.15 + 0.7 sig)  gprob (0.35 + 0.4 sig)  scale (0.4 + 0.6 sig)

The check module interprets the same spec with jax.numpy and the real ADEV
primitives; this module interprets it with numpy float64 and the *laws* of the
sites:

    mode "exact"   every site is integrated out: finite enumeration, geometric
                   summed over 200 outcomes (tail < 1e-37 for p >= 0.35),
                   Gauss-Hermite / Gauss-Legendre quadrature for continuous sites
    mode "fixed"   reparameterised sites are the deterministic transform of a
                   given standardised noise (constant or a logged stream),
                   discrete sites and score-function normal sites integrated

Derivatives are 4th-order central differences of those float64 expectations.
"""

from __future__ import annotations

import math

import numpy as np

FLIP_LAW = ("flip_enum", "flip_enum_parallel", "flip_mvd", "flip_reinforce")
ENUM = ("flip_enum", "flip_enum_parallel", "categorical_enum_parallel")
REPARAM = ("normal_reparam", "uniform_reparam", "multivariate_normal_reparam", "multivariate_normal_diag_reparam")
DSTOCH = ("flip_mvd", "flip_reinforce", "geometric_reinforce")
CREINF = ("normal_reinforce", "uniform_reinforce", "multivariate_normal_reinforce")
ALL_PRIMS = ENUM + ("flip_mvd", "flip_reinforce", "geometric_reinforce") + CREINF + REPARAM
NORMAL_LAW = ("normal_reparam", "normal_reinforce")
UNIFORM_LAW = ("uniform_reparam", "uniform_reinforce")
MVN_LAW = ("multivariate_normal_reparam", "multivariate_normal_reinforce")
BATCHABLE = ("flip_enum", "flip_mvd", "flip_reinforce", "normal_reparam", "normal_reinforce")

GEO_K = 200

# ---------------------------------------------------------------------------
# numpy expression interpreter
# ---------------------------------------------------------------------------


def _sig(x):
    return 1.0 / (1.0 + np.exp(-x))


_UN = {
    "neg": lambda x: -x,
    "sin": np.sin,
    "cos": np.cos,
    "tanh": np.tanh,
    "sq": lambda x: x * x,
    "sig": _sig,
    "exp": np.exp,
    "f": lambda x: np.asarray(x, dtype=np.float64) * 1.0,
    "prob": lambda x: 0.15 + 0.7 * _sig(x),
    "gprob": lambda x: 0.35 + 0.4 * _sig(x),
    "scale": lambda x: 0.4 + 0.6 * _sig(x),
    "not": lambda x: np.logical_not(x),
}
_BIN = {"+": lambda a, b: a + b, "-": lambda a, b: a - b, "*": lambda a, b: a * b}


def _map1(fn, a):
    if isinstance(a, list):
        return [_map1(fn, x) for x in a]
    return fn(a)


def _map2(fn, a, b):
    la, lb = isinstance(a, list), isinstance(b, list)
    if la and lb:
        return [_map2(fn, x, y) for x, y in zip(a, b)]
    if la:
        return [_map2(fn, x, b) for x in a]
    if lb:
        return [_map2(fn, a, y) for y in b]
    return fn(a, b)


def _where(c, a, b):
    if isinstance(c, list) or isinstance(a, list) or isinstance(b, list):
        n = max(len(x) for x in (c, a, b) if isinstance(x, list))
        get = lambda x, i: x[i] if isinstance(x, list) else x  # noqa: E731
        return [_where(get(c, i), get(a, i), get(b, i)) for i in range(n)]
    return np.where(c, a, b)


def ev(e, env, th):
    op = e[0]
    if op == "c":
        return float(e[1])
    if op == "p":
        return th[e[1]]
    if op == "v":
        return env[e[1]]
    if op in _BIN:
        return _map2(_BIN[op], ev(e[1], env, th), ev(e[2], env, th))
    if op in _UN:
        return _map1(_UN[op], ev(e[1], env, th))
    if op == "where":
        return _where(ev(e[1], env, th), ev(e[2], env, th), ev(e[3], env, th))
    if op == "eq":
        return _map1(lambda x: x == e[2], ev(e[1], env, th))
    if op == "tab":
        tab = np.asarray(e[2], dtype=np.float64)
        return _map1(lambda k: tab[np.asarray(k, dtype=np.int64)], ev(e[1], env, th))
    if op == "vec":
        return [ev(x, env, th) for x in e[1:]]
    if op == "idx":
        return ev(e[1], env, th)[e[2]]
    if op == "sum":
        out = 0.0
        for x in ev(e[1], env, th):
            out = out + x
        return out
    if op == "dot":
        out = 0.0
        for x, y in zip(ev(e[1], env, th), ev(e[2], env, th)):
            out = out + x * y
        return out
    if op == "cov2":
        s1, s2, r = (ev(x, env, th) for x in e[1:4])
        return [[s1 * s1, r * s1], [r * s1, r * r + s2 * s2]]
    raise ValueError(op)


# ---------------------------------------------------------------------------
# reference evaluator (continuation-passing, numpy arrays carry the quadrature axes)
# ---------------------------------------------------------------------------


def _gh(n):
    t, w = np.polynomial.hermite_e.hermegauss(n)
    return t, w / math.sqrt(2 * math.pi)


def _gl01(n):
    t, w = np.polynomial.legendre.leggauss(n)
    return 0.5 * (t + 1.0), 0.5 * w


class Policy:
    """How the reference treats continuous sites.

    exact:     integrate every continuous site (nq nodes per axis)
    fixed:     reparameterised sites (and every site reached through the pure continuation) take the standardised
               noise ``eps`` (normal) / ``u`` (uniform) / eps * (1 - 0.35 j) (coordinate j of a full-covariance mvn);
               score-function normal sites are integrated
    stream:    as fixed, the standardised noise is consumed from ``stream`` in execution order (True branch of a
               flip_enum first, lanes of a parallel enumeration in order)
    """

    def __init__(self, mode="exact", nq=32, eps=0.0, u=0.5, stream=None, geo_param="probs"):
        self.mode = mode
        self.nq = nq
        self.eps = eps
        self.u = u
        self.stream = None if stream is None else {k: list(v) for k, v in stream.items()}
        self.geo_param = geo_param
        self.used = 0
        self.underflow = False

    def next(self, kind="normal"):
        """``stream``: dict kind -> list of standardised draws, consumed in order per kind"""
        q = self.stream.get(kind)
        if not q:
            self.underflow = True
            return 0.0
        self.used += 1
        return q.pop(0)


def _axis(vals, nax):
    return np.asarray(vals, dtype=np.float64).reshape((len(vals),) + (1,) * nax)


def _contract(w, r, n, nax):
    prod = w * r
    shape = np.broadcast_shapes(np.shape(prod), (n,) + (1,) * nax)
    return np.sum(np.broadcast_to(prod, shape), axis=0)


class Ref:
    def __init__(self, spec):
        self.spec = spec

    # ---- public ----------------------------------------------------------------
    def expect(self, th, pol):
        self.pol = pol
        self.th = th
        out = self._run(self.spec["body"], 0, {"_nax": 0}, lambda env: ev(self.spec["ret"], env, th))
        return float(np.asarray(out))

    def value_and_dir(self, th, v, mk_pol, h=2e-3):
        """E(th) and its directional derivative along v (dict name -> array like th) by 4th-order differences."""

        def at(s):
            t2 = {k: (np.asarray(th[k], dtype=np.float64) + s * np.asarray(v[k], dtype=np.float64)) for k in th}
            t2 = {k: (x.tolist() if x.ndim else float(x)) for k, x in t2.items()}
            return self.expect(t2, mk_pol())

        e0 = at(0.0)
        d = (8.0 * (at(h) - at(-h)) - (at(2 * h) - at(-2 * h))) / (12.0 * h)
        return e0, d

    def grad(self, th, mk_pol, h=2e-3):
        g = {}
        for k in th:
            a = np.asarray(th[k], dtype=np.float64)
            if a.ndim == 0:
                v = {kk: np.zeros_like(np.asarray(th[kk], dtype=np.float64)) for kk in th}
                v[k] = np.asarray(1.0)
                g[k] = self.value_and_dir(th, v, mk_pol, h)[1]
            else:
                out = []
                for i in range(a.shape[0]):
                    v = {kk: np.zeros_like(np.asarray(th[kk], dtype=np.float64)) for kk in th}
                    v[k][i] = 1.0
                    out.append(self.value_and_dir(th, v, mk_pol, h)[1])
                g[k] = out
        return g

    # ---- statements ------------------------------------------------------------
    def _run(self, stmts, i, env, k):
        if i == len(stmts):
            return k(env)
        st = stmts[i]
        th = self.th
        if st["s"] == "let":
            env2 = dict(env)
            env2[st["v"]] = ev(st["e"], env, th)
            return self._run(stmts, i + 1, env2, k)
        if st["s"] == "cond":
            pred = ev(st["pred"], env, th)
            if np.ndim(pred) != 0:
                raise ValueError("cond predicate must not depend on an integrated site")
            br = st["t"] if bool(pred) else st["f"]

            def after(benv):
                env2 = dict(env)
                env2["_nax"] = benv["_nax"]
                env2[st["v"]] = ev(br["ret"], benv, th)
                return self._run(stmts, i + 1, env2, k)

            return self._run(br["body"], 0, env, after)
        if st["s"] == "site":
            args = [ev(a, env, th) for a in st["args"]]

            def cont(val, nax):
                env2 = dict(env)
                env2[st["v"]] = val
                env2["_nax"] = nax
                return self._run(stmts, i + 1, env2, k)

            return self._site(st["prim"], args, env["_nax"], cont)
        raise ValueError(st["s"])

    # ---- sites -----------------------------------------------------------------
    def _site(self, prim, args, nax, cont):
        pol = self.pol
        if prim in FLIP_LAW:
            p = args[0]
            if isinstance(p, list):
                return self._elems([(prim, [pi]) for pi in p], nax, cont)
            return p * cont(True, nax) + (1.0 - p) * cont(False, nax)
        if prim == "categorical_enum_parallel":
            lg = args[0]
            m = lg[0]
            for x in lg[1:]:
                m = np.maximum(m, x)
            w = [np.exp(x - m) for x in lg]
            z = sum(w)
            out = 0.0
            for kk in range(len(lg)):
                out = out + (w[kk] / z) * cont(kk, nax)
            return out
        if prim == "geometric_reinforce":
            p = args[0]
            if pol.geo_param == "logits":
                p = _sig(p)
            kk = _axis(np.arange(GEO_K), nax)
            w = p * (1.0 - p) ** kk
            return _contract(w, cont(kk, nax + 1), GEO_K, nax)
        if prim in NORMAL_LAW:
            mu, sg = args
            if isinstance(mu, list) or isinstance(sg, list):
                n = len(mu) if isinstance(mu, list) else len(sg)
                get = lambda x, j: x[j] if isinstance(x, list) else x  # noqa: E731
                return self._elems([(prim, [get(mu, j), get(sg, j)]) for j in range(n)], nax, cont)
            if pol.mode != "exact" and prim == "normal_reparam":
                z = pol.next() if pol.mode == "stream" else pol.eps
                return cont(mu + sg * z, nax)
            t, w = _gh(pol.nq)
            return _contract(_axis(w, nax), cont(mu + sg * _axis(t, nax), nax + 1), pol.nq, nax)
        if prim in UNIFORM_LAW:
            lo, hi = args
            if pol.mode != "exact" and prim == "uniform_reparam":
                z = pol.next("uniform") if pol.mode == "stream" else pol.u
                return cont(lo + (hi - lo) * z, nax)
            t, w = _gl01(pol.nq)
            return _contract(_axis(w, nax), cont(lo + (hi - lo) * _axis(t, nax), nax + 1), pol.nq, nax)
        if prim in MVN_LAW:
            loc, cov = args
            d = len(loc)
            L = _chol(cov)
            if pol.mode != "exact" and prim == "multivariate_normal_reparam":
                z = [pol.next("mvn") if pol.mode == "stream" else pol.eps * (1.0 - 0.35 * j) for j in range(d)]
                return cont([loc[a] + sum(L[a][b] * z[b] for b in range(a + 1)) for a in range(d)], nax)
            t, w = _gh(pol.nq)
            zs, wt = [], 1.0
            for j in range(d):  # coordinate j gets axis nax + j (newest axis leads)
                zs.append(_axis(t, nax + j))
                wt = wt * _axis(w, nax + j)
            x = [loc[a] + sum(L[a][b] * zs[b] for b in range(a + 1)) for a in range(d)]
            r = wt * cont(x, nax + d)
            shape = np.broadcast_shapes(np.shape(r), (pol.nq,) * d + (1,) * nax)
            return np.sum(np.broadcast_to(r, shape), axis=tuple(range(d)))
        if prim == "multivariate_normal_diag_reparam":
            loc, sc = args
            return self._elems([("normal_reparam", [loc[j], sc[j]]) for j in range(len(loc))], nax, cont)
        raise ValueError(prim)

    def _elems(self, elems, nax, cont):
        """independent elements of a batched site, integrated one after the other; the site's value is the list."""

        def go(j, vals, nax_j):
            if j == len(elems):
                return cont(list(vals), nax_j)
            prim, a = elems[j]
            return self._site(prim, a, nax_j, lambda v, n2: go(j + 1, vals + [v], n2))

        return go(0, [], nax)


def _chol(c):
    d = len(c)
    L = [[0.0] * d for _ in range(d)]
    for i in range(d):
        for j in range(i + 1):
            s = c[i][j]
            for k in range(j):
                s = s - L[i][k] * L[j][k]
            L[i][j] = np.sqrt(s) if i == j else s / L[j][j]
    return L


# ---------------------------------------------------------------------------
# generator
# ---------------------------------------------------------------------------


def _c(rng, lo=-1.0, hi=1.0):
    return ["c", round(float(rng.uniform(lo, hi)), 3)]


def _cs(rng, lo=0.4, hi=1.2):
    """coefficient bounded away from zero, random sign (a dropped or mis-weighted term must move the result)."""
    return ["c", round(float(rng.uniform(lo, hi) * rng.choice([-1.0, 1.0])), 3)]


class _Gen:
    def __init__(self, rng, family):
        self.rng = rng
        self.family = family
        self.params = [{"name": f"t{i}", "n": 0} for i in range(int(rng.integers(2, 4)))]
        self.vars = []  # (name, type)
        self.body = []
        self.n = 0
        self.used_params = set()

    def fresh(self, pre="x"):
        self.n += 1
        return f"{pre}{self.n}"

    # float-valued smooth bounded feature of a variable
    def feat(self, name, ty):
        rng = self.rng
        v = ["v", name]
        if ty == "bool":
            return ["f", v]
        if ty == "int3":
            return ["tab", v, [round(float(x), 3) for x in rng.uniform(-1, 1, 3)]]
        if ty == "count":
            return ["tanh", ["*", ["c", 0.4], v]] if rng.random() < 0.5 else ["exp", ["*", ["c", -0.5], v]]
        if ty == "real":
            return [["sin", "tanh", "cos"][int(rng.integers(3))], v] if rng.random() < 0.7 else v
        if ty.startswith("bmat"):
            n_, k_ = (int(x) for x in ty[4:].split("x"))
            e = None
            for i in range(n_):
                for j in range(k_):
                    t = ["*", _c(rng), ["f", ["idx", ["idx", v, i], j]]]
                    e = t if e is None else ["+", e, t]
            # couple two elements of different rows
            return ["+", e, ["*", _cs(rng, 0.5, 1.5), ["*", ["f", ["idx", ["idx", v, 0], k_ - 1]], ["f", ["idx", ["idx", v, n_ - 1], 0]]]]]
        if ty.startswith("bvec"):
            n = int(ty[4:])
            return ["dot", ["f", v], ["vec"] + [_c(rng) for _ in range(n)]]
        if ty.startswith("rvec"):
            n = int(ty[4:])
            e = ["dot", ["sin", v], ["vec"] + [_c(rng) for _ in range(n)]]
            if n >= 2 and rng.random() < 0.5:
                # couple two elements of the same site: marginals alone do not decide this term
                i, j = (int(x) for x in rng.choice(n, size=2, replace=False))
                e = ["+", e, ["*", _cs(rng, 0.5, 1.5), ["*", ["sin", ["idx", v, i]], ["idx", v, j]]]]
            return e
        raise ValueError(ty)

    def atoms(self):
        out = [["p", p["name"]] for p in self.params if p["n"] == 0]
        for p in self.params:
            if p["n"]:
                out.append(["idx", ["p", p["name"]], int(self.rng.integers(p["n"]))])
        for name, ty in self.vars:
            if ty != "realpoly":
                out.append(self.feat(name, ty))
        return out

    def lin(self, need_param=True):
        rng = self.rng
        at = self.atoms()
        k = int(rng.integers(1, min(3, len(at)) + 1))
        idx = list(rng.choice(len(at), size=k, replace=False))
        if need_param and not any(at[i][0] in ("p", "idx") for i in idx):
            npar = sum(1 for a in at if a[0] in ("p", "idx"))
            idx[0] = int(rng.integers(npar))
        e = _c(rng, -0.5, 0.5)
        for i in idx:
            e = ["+", e, ["*", _cs(rng), at[i]]]
        return e

    def site(self, prim, how="direct", batch=0, const_args=False, layout=None):
        rng = self.rng
        lin = (lambda: _c(rng, -0.8, 0.8)) if const_args else self.lin
        v = self.fresh()
        if prim in FLIP_LAW:
            if isinstance(batch, (tuple, list)):
                # a site whose batch has a non-leading axis: matrix of probabilities
                n_, k_ = batch
                args = [["prob", ["vec"] + [["vec"] + [lin() for _ in range(k_)] for _ in range(n_)]]]
                ty = f"bmat{n_}x{k_}"
            elif batch:
                args = [["prob", ["vec"] + [lin() for _ in range(batch)]]]
                ty = f"bvec{batch}"
            else:
                args = [["prob", lin()]]
                ty = "bool"
        elif prim == "categorical_enum_parallel":
            args = [["vec", lin(), lin(), lin()]]
            ty = "int3"
        elif prim == "geometric_reinforce":
            args = [["gprob", lin()]]
            ty = "count"
        elif prim in NORMAL_LAW:
            if batch:
                # which parameter carries the batch: location only, scale only (a scalar location broadcast against
                # a vector scale), or both
                lay = int(rng.integers(3)) if layout is None else int(layout)
                loc = ["vec"] + [lin() for _ in range(batch)] if lay != 1 else lin()
                sc = ["vec"] + [["scale", lin()] for _ in range(batch)] if lay != 0 else ["scale", lin()]
                args = [loc, sc]
                ty = f"rvec{batch}"
            else:
                args = [lin(), ["scale", lin()]]
                ty = "real"
        elif prim in UNIFORM_LAW:
            lo = self.fresh("lo")
            self.body.append({"s": "let", "v": lo, "e": lin()})
            args = [["v", lo], ["+", ["v", lo], ["scale", lin()]]]
            ty = "real"
        elif prim in MVN_LAW:
            args = [["vec", lin(), lin()], ["cov2", ["scale", lin()], ["scale", lin()], ["*", ["c", 0.5], ["tanh", lin()]]]]
            ty = "rvec2"
        elif prim == "multivariate_normal_diag_reparam":
            args = [["vec", lin(), lin()], ["vec", ["scale", lin()], ["scale", lin()]]]
            ty = "rvec2"
        else:
            raise ValueError(prim)
        st = {"s": "site", "v": v, "prim": prim, "args": args, "how": how}
        return st, ty

    def add_site(self, prim, **kw):
        st, ty = self.site(prim, **kw)
        self.body.append(st)
        self.vars.append((st["v"], ty))
        return st["v"], ty

    def add_cond(self, inner_pool):
        """v = lax.cond(pred, true_branch, false_branch) on a discrete variable; a branch may hold one site."""
        rng = self.rng
        cands = [(n, t) for n, t in self.vars if t in ("bool", "int3") or t.startswith("bvec")]
        if not cands:
            return False
        n, t = cands[int(rng.integers(len(cands)))]
        if t == "bool":
            pred = ["v", n]
        elif t == "int3":
            pred = ["eq", ["v", n], int(rng.integers(3))]
        else:
            pred = ["idx", ["v", n], int(rng.integers(int(t[4:])))]
        v = self.fresh("k")
        branches = []
        outer_vars, outer_body = list(self.vars), self.body
        for _ in range(2):
            self.body = []
            self.vars = list(outer_vars)
            if inner_pool and rng.random() < 0.15:
                self.add_site(inner_pool[int(rng.integers(len(inner_pool)))])
            ret = ["+", self.lin(), ["*", self.lin(need_param=False), self.lin(need_param=False)]]
            branches.append({"body": self.body, "ret": ret})
        self.body, self.vars = outer_body, outer_vars
        self.body.append({"s": "cond", "v": v, "pred": pred, "t": branches[0], "f": branches[1]})
        self.vars.append((v, "real"))
        return True

    def ret(self):
        rng = self.rng
        feats = [self.feat(n, t) for n, t in self.vars if t != "realpoly"]
        pars = [["p", p["name"]] for p in self.params if p["n"] == 0]
        e = ["sin", ["+", pars[0], ["*", _cs(rng), pars[-1]]]]
        for f in feats:
            e = ["+", e, ["*", f, ["+", _cs(rng, 0.3, 1.0), ["*", _cs(rng, 0.5, 1.5), pars[int(rng.integers(len(pars)))]]]]]
        for a in range(len(feats)):
            for b in range(a + 1, len(feats)):
                if rng.random() < 0.7:
                    e = ["+", e, ["*", _cs(rng, 0.5, 1.5), ["*", feats[a], feats[b]]]]
        for p in self.params:
            if p["n"]:
                e = ["+", e, ["dot", ["sin", ["p", p["name"]]], ["vec"] + [_c(rng) for _ in range(p["n"])]]]
        for n, t in self.vars:
            if t == "realpoly":
                x = ["v", n]
                e = ["+", e, ["+", ["*", self.lin(), x], ["*", self.lin(need_param=False), ["sq", x]]]]
        return e

    def spec(self):
        return {"params": self.params, "body": self.body, "ret": self.ret()}


def _pick(rng, items, weights):
    w = np.asarray(weights, dtype=np.float64)
    return items[int(rng.choice(len(items), p=w / w.sum()))]


def gen_program(rng, family):
    """family in enum | pathwise | script | stat"""
    g = _Gen(rng, family)
    if rng.random() < 0.3:
        g.params.append({"name": "w", "n": int(rng.integers(2, 4))})
    enum_pick = lambda: _pick(rng, list(ENUM), [0.6, 0.2, 0.2])  # noqa: E731
    if family == "enum":
        for _ in range(int(rng.integers(1, 4))):
            g.add_site(enum_pick())
            if rng.random() < 0.35:
                g.add_cond(["flip_enum", "flip_enum"] if rng.random() < 0.8 else list(ENUM))
    elif family == "pathwise":
        n = int(rng.integers(1, 4))
        kinds = ["R"] + [("R" if rng.random() < 0.5 else "E") for _ in range(n - 1)]
        rng.shuffle(kinds)
        for kd in kinds:
            if kd == "E":
                g.add_site(_pick(rng, list(ENUM), [0.8, 0.1, 0.1]))
                if rng.random() < 0.4:
                    g.add_cond(["normal_reparam", "uniform_reparam", "flip_enum"])
            else:
                prim = _pick(rng, list(REPARAM), [0.4, 0.25, 0.2, 0.15])
                if prim == "normal_reparam" and rng.random() < 0.3:
                    g.add_site(prim, batch=2, how="direct" if rng.random() < 0.5 else "mvmap")
                else:
                    g.add_site(prim)
    elif family == "script":
        n = int(rng.integers(2, 5))
        kinds = ["S"] + [_pick(rng, ["S", "E", "R"], [0.45, 0.3, 0.25]) for _ in range(n - 1)]
        rng.shuffle(kinds)
        have_geo = have_gh = have_mvd = False
        nbatch = 0
        for kd in kinds:
            if kd == "E":
                g.add_site(_pick(rng, list(ENUM), [0.8, 0.1, 0.1]))
                if rng.random() < 0.3:
                    g.add_cond(["flip_enum", "flip_reinforce", "normal_reparam"])
            elif kd == "R":
                g.add_site(_pick(rng, ["normal_reparam", "uniform_reparam"], [0.6, 0.4]))
            else:
                opts = ["flip_reinforce", "flip_mvd", "geometric_reinforce", "bflip_enum", "bflip_mvd", "bflip_reinforce", "gh"]
                wts = [0.25, 0.25, 0.0 if have_geo else 0.15, 0.1, 0.1, 0.05, 0.0 if (have_gh or have_mvd) else 0.12]
                if nbatch:
                    wts[3] = wts[4] = wts[5] = 0.0
                o = _pick(rng, opts, wts)
                if o == "gh":
                    st, _ = g.site("normal_reinforce")
                    g.body.append(st)
                    g.vars.append((st["v"], "realpoly"))
                    have_gh = True
                elif o.startswith("bflip"):
                    g.add_site(o[1:], batch=int(rng.integers(2, 4)), how="direct" if rng.random() < 0.5 else "mvmap")
                    nbatch += 1
                else:
                    g.add_site(o)
                    have_geo |= o == "geometric_reinforce"
                    have_mvd |= o == "flip_mvd"
    elif family == "stat":
        n = int(rng.integers(1, 4))
        kinds = ["S"] + [_pick(rng, ["S", "E", "R"], [0.4, 0.3, 0.3]) for _ in range(n - 1)]
        rng.shuffle(kinds)
        ncont = 0
        for kd in kinds:
            if kd == "E":
                g.add_site(_pick(rng, list(ENUM), [0.8, 0.1, 0.1]))
            elif kd == "R" and ncont < 3:
                prim = _pick(rng, list(REPARAM), [0.4, 0.3, 0.15, 0.15])
                if prim.startswith("multi") and ncont > 1:
                    prim = "normal_reparam"
                g.add_site(prim)
                ncont += 2 if prim.startswith("multi") else 1
            else:
                opts = ["flip_reinforce", "flip_mvd", "geometric_reinforce", "normal_reinforce", "uniform_reinforce",
                        "multivariate_normal_reinforce", "bflip_mvd", "bflip_enum", "bnormal_reinforce"]
                wts = [0.12, 0.12, 0.1, 0.2, 0.16, 0.1, 0.06, 0.06, 0.08]
                if ncont >= 2:
                    wts[5] = wts[8] = 0.0
                if ncont >= 3:
                    wts[3] = wts[4] = 0.0
                o = _pick(rng, opts, wts)
                if o.startswith("b"):
                    g.add_site(o[1:], batch=2, how="direct" if rng.random() < 0.5 else "mvmap")
                    ncont += 2 if "normal" in o else 0
                elif o == "uniform_reinforce":
                    g.add_site(o, const_args=bool(rng.random() < 0.5))
                    ncont += 1
                else:
                    g.add_site(o)
                    ncont += {"normal_reinforce": 1, "multivariate_normal_reinforce": 2}.get(o, 0)
    else:
        raise ValueError(family)
    return g.spec()


def unit_program(prim, variant=0):
    """One site of ``prim`` whose parameters and whose downstream integrand both depend on the arguments."""
    rng = np.random.default_rng([11, ALL_PRIMS.index(prim), variant])
    g = _Gen(rng, "unit")
    g.params = [{"name": "t0", "n": 0}, {"name": "t1", "n": 0}]
    if prim == "normal_reinforce" and variant == 1:
        st, _ = g.site(prim)
        g.body.append(st)
        g.vars.append((st["v"], "realpoly"))
    elif variant == 2 and prim in BATCHABLE:
        g.add_site(prim, batch=2, how="mvmap")
    elif variant == 3 and prim in BATCHABLE:
        g.add_site(prim, batch=3, how="direct", layout=0)
    elif variant in (7, 8) and prim in ("flip_enum", "flip_mvd"):
        # 7: matrix of probabilities passed directly; 8: vector-valued site under modular_vmap (rows are the lanes)
        g.add_site(prim, batch=(2, 3), how="direct" if variant == 7 else "mvmap")
    elif variant in (4, 5, 6) and prim in NORMAL_LAW:
        # 4: scalar location against a vector scale; 5: both vectors; 6: scalar location / vector scale through modular_vmap
        g.add_site(prim, batch=3 if variant != 6 else 2, how="mvmap" if variant == 6 else "direct", layout={4: 1, 5: 2, 6: 1}[variant])
    else:
        g.add_site(prim)
    return g.spec()


def unit_cond_site_program():
    """a site inside a lax.cond branch, followed by code that is non-linear in the cond's result"""
    P = lambda n: ["p", n]  # noqa: E731
    return {
        "params": [{"name": "t0", "n": 0}, {"name": "t1", "n": 0}],
        "body": [
            {"s": "site", "v": "b", "prim": "flip_enum", "args": [["prob", ["+", ["c", 0.2], ["*", ["c", 0.9], P("t0")]]]], "how": "direct"},
            {"s": "cond", "v": "k", "pred": ["v", "b"],
             "t": {"body": [{"s": "site", "v": "c", "prim": "flip_enum",
                             "args": [["prob", ["+", ["c", -0.3], ["*", ["c", 0.8], P("t1")]]]], "how": "direct"}],
                   "ret": ["+", ["*", ["c", 1.3], ["f", ["v", "c"]]], ["*", ["c", 0.7], P("t0")]]},
             "f": {"body": [], "ret": ["+", ["c", 0.4], ["*", ["c", -0.6], P("t1")]]}},
        ],
        "ret": ["*", ["cos", ["*", ["c", 1.5], ["v", "k"]]], ["+", ["c", 0.5], P("t1")]],
    }


def unit_cond_after_parallel_program():
    """a lax.cond (deterministic branches) on the outcome of a parallel enumeration"""
    P = lambda n: ["p", n]  # noqa: E731
    return {
        "params": [{"name": "t0", "n": 0}, {"name": "t1", "n": 0}],
        "body": [
            {"s": "site", "v": "b", "prim": "flip_enum_parallel", "args": [["prob", ["+", ["c", 0.2], ["*", ["c", 0.9], P("t0")]]]],
             "how": "direct"},
            {"s": "cond", "v": "k", "pred": ["v", "b"],
             "t": {"body": [], "ret": ["*", P("t0"), P("t1")]},
             "f": {"body": [], "ret": ["sin", P("t1")]}},
        ],
        "ret": ["*", ["tanh", ["v", "k"]], ["+", ["c", 0.5], P("t0")]],
    }


def has_cond_after_parallel(spec):
    seen = False
    for st in spec["body"]:
        if st["s"] == "site" and st["prim"] in ("flip_enum_parallel", "categorical_enum_parallel"):
            seen = True
        if st["s"] == "cond" and seen:
            return True
    return False


def has_site_in_cond(spec):
    return any(st["s"] == "cond" and (sites(st["t"]["body"]) or sites(st["f"]["body"])) for st in spec["body"])


def gen_point(rng, spec):
    th, v = {}, {}
    for p in spec["params"]:
        if p["n"]:
            th[p["name"]] = [round(float(x), 4) for x in rng.uniform(-1.2, 1.2, p["n"])]
            v[p["name"]] = [round(float(x), 4) for x in rng.uniform(0.3, 1.0, p["n"]) * rng.choice([-1, 1], p["n"])]
        else:
            th[p["name"]] = round(float(rng.uniform(-1.2, 1.2)), 4)
            v[p["name"]] = round(float(rng.uniform(0.3, 1.0) * rng.choice([-1, 1])), 4)
    return th, v


# ---------------------------------------------------------------------------
# structure
# ---------------------------------------------------------------------------


def sites(spec_or_body):
    body = spec_or_body["body"] if isinstance(spec_or_body, dict) and "body" in spec_or_body else spec_or_body
    out = []
    for st in body:
        if st["s"] == "site":
            out.append(st)
        elif st["s"] == "cond":
            out += sites(st["t"]["body"]) + sites(st["f"]["body"])
    return out


def site_label(st):
    lab = st["prim"]
    a0 = st["args"][0]
    batched = (a0[0] == "vec" or (a0[0] in ("prob",) and a0[1][0] == "vec")) and st["prim"] not in MVN_LAW + (
        "multivariate_normal_diag_reparam", "categorical_enum_parallel")
    if batched:
        lab += "[batched:" + st["how"] + "]"
    return lab


def prims_of(spec):
    return sorted({st["prim"] for st in sites(spec)})


def labels_of(spec):
    return sorted({site_label(st) for st in sites(spec)})


def n_cont_axes(spec):
    n = 0
    for st in sites(spec):
        if st["prim"] in NORMAL_LAW + UNIFORM_LAW:
            a0 = st["args"][0]
            n += (len(a0) - 1) if a0[0] == "vec" else 1
        elif st["prim"] in MVN_LAW + ("multivariate_normal_diag_reparam",):
            n += 2
    return n


def has_cond(spec):
    return any(st["s"] == "cond" for st in spec["body"])


def signature(spec):
    def sb(body):
        out = []
        for st in body:
            if st["s"] == "site":
                out.append(site_label(st))
            elif st["s"] == "cond":
                out.append(["cond", sb(st["t"]["body"]), sb(st["f"]["body"])])
        return out

    return {"params": [p["n"] for p in spec["params"]], "body": sb(spec["body"])}


def _rx(e):
    op = e[0]
    if op == "c":
        return repr(e[1])
    if op in ("p", "v"):
        return e[1]
    if op in ("+", "-", "*"):
        return f"({_rx(e[1])} {op} {_rx(e[2])})"
    if op == "where":
        return f"where({_rx(e[1])}, {_rx(e[2])}, {_rx(e[3])})"
    if op == "eq":
        return f"({_rx(e[1])} == {e[2]})"
    if op == "tab":
        return f"{e[2]}[{_rx(e[1])}]"
    if op == "vec":
        return "[" + ", ".join(_rx(x) for x in e[1:]) + "]"
    if op == "idx":
        return f"{_rx(e[1])}[{e[2]}]"
    if op == "dot":
        return f"dot({_rx(e[1])}, {_rx(e[2])})"
    if op == "cov2":
        return f"cov2(s1={_rx(e[1])}, s2={_rx(e[2])}, r={_rx(e[3])})"
    return f"{op}({_rx(e[1])})"


def render(spec, ind="  "):
    lines = ["def f(" + ", ".join(p["name"] + (f":vec{p['n']}" if p["n"] else "") for p in spec["params"]) + "):"]

    def rb(body, pre):
        for st in body:
            if st["s"] == "let":
                lines.append(f"{pre}{st['v']} = {_rx(st['e'])}")
            elif st["s"] == "site":
                call = f"{st['prim']}(" + ", ".join(_rx(a) for a in st["args"]) + ")"
                if st.get("how") == "mvmap":
                    call = "modular_vmap(" + st["prim"] + ")(" + ", ".join(_rx(a) for a in st["args"]) + ")"
                lines.append(f"{pre}{st['v']} = {call}")
            else:
                lines.append(f"{pre}{st['v']} = lax.cond({_rx(st['pred'])},")
                for nm in ("t", "f"):
                    lines.append(f"{pre}{ind}branch_{nm}:")
                    rb(st[nm]["body"], pre + ind * 2)
                    lines.append(f"{pre}{ind * 2}-> {_rx(st[nm]['ret'])}")
                lines.append(f"{pre})")

    rb(spec["body"], ind)
    lines.append(f"{ind}return {_rx(spec['ret'])}")
    return "\n".join(lines)


def selftest():
    """closed forms against the reference evaluator."""
    s = {"params": [{"name": "t0", "n": 0}, {"name": "t1", "n": 0}],
         "body": [{"s": "site", "v": "x", "prim": "normal_reinforce", "args": [["p", "t0"], ["scale", ["p", "t1"]]], "how": "direct"}],
         "ret": ["+", ["*", ["sq", ["v", "x"]], ["p", "t0"]], ["v", "x"]]}
    th = {"t0": 0.3, "t1": -0.2}
    sg = 0.4 + 0.6 * _sig(-0.2)
    r = Ref(s)
    e, d = r.value_and_dir(th, {"t0": 1.0, "t1": 0.0}, lambda: Policy("exact"))
    assert abs(e - (0.3 * (0.09 + sg * sg) + 0.3)) < 1e-12, e
    assert abs(d - (3 * 0.09 + sg * sg + 1)) < 1e-8, d
    s2 = {"params": [{"name": "t0", "n": 0}],
          "body": [{"s": "site", "v": "k", "prim": "geometric_reinforce", "args": [["gprob", ["p", "t0"]]], "how": "direct"}],
          "ret": ["v", "k"]}
    p = 0.35 + 0.4 * _sig(0.1)
    e = Ref(s2).expect({"t0": 0.1}, Policy("exact"))
    assert abs(e - (1 - p) / p) < 1e-12, (e, (1 - p) / p)
    s3 = {"params": [{"name": "t0", "n": 0}],
          "body": [{"s": "site", "v": "x", "prim": "multivariate_normal_reinforce",
                    "args": [["vec", ["p", "t0"], ["c", 0.5]], ["cov2", ["c", 0.8], ["c", 0.6], ["c", 0.3]]], "how": "direct"}],
          "ret": ["*", ["idx", ["v", "x"], 0], ["idx", ["v", "x"], 1]]}
    e = Ref(s3).expect({"t0": 0.2}, Policy("exact"))
    assert abs(e - (0.2 * 0.5 + 0.3 * 0.8)) < 1e-12, e
    s4 = {"params": [{"name": "t0", "n": 0}],
          "body": [{"s": "site", "v": "u", "prim": "uniform_reinforce", "args": [["p", "t0"], ["+", ["p", "t0"], ["c", 0.7]]], "how": "direct"}],
          "ret": ["sq", ["v", "u"]]}
    e, d = Ref(s4).value_and_dir({"t0": 0.3}, {"t0": 1.0}, lambda: Policy("exact"))
    assert abs(e - (0.09 + 0.21 + 0.49 / 3)) < 1e-12 and abs(d - 1.3) < 1e-8, (e, d)
    return True


if __name__ == "__main__":
    print(selftest())
    for fam in ("enum", "pathwise", "script", "stat"):
        sp = gen_program(np.random.default_rng([0, 11, 1]), fam)
        print(fam, labels_of(sp))
        print(render(sp))
