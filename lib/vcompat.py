"""Source of ``genjax/_verif_compat.py`` in the translated copy (DESIGN §2).

genjax pins ``jax<0.8``; the sandbox has jax 0.11.  This module holds the
namespace shims and the three helper functions the line rewrites of
``lib/build.py`` refer to.  It is imported by the rewritten files as
``from genjax import _verif_compat as _vc`` and is *version adaptive*: every
shim is applied only when the old name is missing.
"""

import jax
import jax._src.core as _src_core
from jax._src import ad_util as _ad_util
from jax.interpreters import ad as _ad

# --------------------------------------------------------------------------
# namespace shims (rows 1-4 of DESIGN §2.1)
# --------------------------------------------------------------------------


def _install_shims():
    import jax.core as _jc

    applied = []
    if "get_aval" not in _src_core.__dict__:
        _src_core.__dict__["get_aval"] = _src_core.typeof
        applied.append("jax._src.core.get_aval")
    try:
        _jc.get_aval  # noqa: B018
    except AttributeError:
        _jc.__dict__["get_aval"] = _src_core.typeof
        applied.append("jax.core.get_aval")
    for name in ("TraceTag", "DropVar"):
        try:
            getattr(_jc, name)
        except AttributeError:
            _jc.__dict__[name] = getattr(_src_core, name)
            applied.append("jax.core." + name)
    if not hasattr(_src_core.Var, "count"):
        _src_core.Var.count = property(lambda s: id(s))
        applied.append("Var.count")
    if not hasattr(_ad_util.Zero, "from_primal_value"):
        _ad_util.Zero.from_primal_value = staticmethod(_ad_util.p2tz)
        applied.append("Zero.from_primal_value")
    return applied


SHIMS_APPLIED = _install_shims()

# --------------------------------------------------------------------------
# helpers the rewritten lines call (rows 5-7)
# --------------------------------------------------------------------------

_OLD_BIND_PARAMS = None


def _probe_old_api():
    """True when ``Primitive.get_bind_params`` still returns (subfuns, params)."""
    global _OLD_BIND_PARAMS
    if _OLD_BIND_PARAMS is None:
        r = jax.lax.add_p.get_bind_params({})
        _OLD_BIND_PARAMS = isinstance(r, tuple)
    return _OLD_BIND_PARAMS


def get_bind_params(prim, params):
    """Old signature: ``(subfuns, params)``.  JAX 0.11 returns a single dict in
    which sub-functions travel as ``params['subfuns']``."""
    if _probe_old_api():
        return prim.get_bind_params(params)
    return [], dict(prim.get_bind_params(params))


def get_bind_params_scan(prim, params):
    """As :func:`get_bind_params`; for ``scan_p`` also supplies the
    ``num_consts`` / ``num_carry`` entries that JAX 0.11 folded into the
    ``ft_in`` flat-tree (same computation as ``loops._scan_impl``)."""
    subfuns, p = get_bind_params(prim, params)
    if "ft_in" in p and "num_consts" not in p:
        parts = p["ft_in"].unpack()
        p["num_consts"] = len(parts[0])
        p["num_carry"] = len(parts[1])
    return subfuns, p


def jaxpr_as_fun(j):
    """``jax.extend.core.jaxpr_as_fun`` for an open *or* closed jaxpr
    (scan / cond params hold open ``Jaxpr`` objects in JAX 0.11)."""
    import jax.extend as jex

    if not hasattr(j, "consts"):
        j = jex.core.ClosedJaxpr(j, ())
    return jex.core.jaxpr_as_fun(j)


def jvp_flat(impl, params, primals, tangents):
    """Replacement for ``ad.jvp(lu.wrap_init(impl, params)).call_wrapped(p, t)``
    (instantiate=True semantics) using the public ``jax.jvp``."""
    tangents = tuple(_ad.instantiate_zeros(t) for t in tangents)
    return jax.jvp(lambda *xs: impl(*xs, **params), tuple(primals), tangents)
