"""C19 — placement specs for save / tag_state / namespace, a seeded generator
and an *independent* reference interpreter (pure Python + numpy float64).

A spec is a JSON tree.  Two interpreters read it:

* ``checks/c19_state.py::build_real`` builds the real Python function that calls
  genjax' ``save`` / ``tag_state`` / ``namespace`` inside real ``jax.lax.scan``,
  ``jax.vmap`` and ``genjax.modular_vmap``;
* ``Ref`` below never touches jax or genjax: it threads a namespace list
  itself, loops instead of ``scan``, loops per lane instead of ``vmap``, and
  produces the expected return value and the expected collected entries.

Spec grammar
------------
prog  := {"LV": int, "body": [stmt], "ret": [var names], "flags": {...}}
stmt  := {"k":"let","v":name,"e":expr}
       | {"k":"save","items":[[name,expr],...]}                 save(**{name: value})
       | {"k":"tag","name":n,"es":[expr,...],"bind":[names]|None} tag_state(*values, name=n)
       | {"k":"leaf","es":[expr,...]}                            save(*values)  (leaf mode)
       | {"k":"sample","v":name,"mu":expr}                       normal.sample(mu, 0.5)
       | {"k":"call","ns":[ns...],"params":[names],"args":[expr],"body":[stmt],"ret":expr,"v":name}
                namespace(...namespace(fn, ns[-1])..., ns[0])(*args)  (plain nested function if ns == [])
       | {"k":"scan","id":i,"n":n,"rev":bool,"xs":{"form":...,"e":expr?},"xp":name|None,
          "carry":[{"p":name,"init":expr}],"ns_body":[ns...],"body":[stmt],"cout":[expr],"y":expr|None,
          "vc":[names],"vy":name|None}
       | {"k":"vmap","id":i,"kind":"jax"|"modular","B":B,"params":[{"p":name,"form":f,"e":expr}],
          "ns_body":[ns...],"body":[stmt],"ret":expr,"v":name}
expr  := ["v",name] | ["c",float] | ["add",a,b] | ["sub",a,b] | ["mul",a,b] | ["sin",a]
       | ["scale",k,a] | ["sum",a] | ["mean",a] | ["idx",a,k] | ["spread",a]
"""

from __future__ import annotations

import json

import numpy as np

NAMES = ["p", "q", "r", "s"]  # names passed to save / tag_state (deliberately few: repeated writes)
NSNAMES = ["A", "B", "C"]  # re-usable namespace names
SIZES = [2, 3, 4, 5, 6]
SIGMA = 0.5

# lane / ramp constants shared by both interpreters (they are part of the spec semantics)
LANE_STEP = 0.5
SPREAD_STEP = 0.1


# ---------------------------------------------------------------------------
# generator
# ---------------------------------------------------------------------------
class _Var:
    __slots__ = ("kind", "isint", "deps")

    def __init__(self, kind, isint, deps):
        self.kind = kind  # "s" scalar, "vec" (LV,), "arr" anything else (only used under sum)
        self.isint = isint
        self.deps = frozenset(deps)


class _Cx:
    def __init__(self, vars, req, ns_dyn, in_scan, multi_ok, sample_ok, depth, sdepth, sizes, in_vmap):
        self.vars = vars
        self.req = frozenset(req)
        self.ns_dyn = ns_dyn
        self.in_scan = in_scan
        self.multi_ok = multi_ok
        self.sample_ok = sample_ok
        self.depth = depth
        self.sdepth = sdepth
        self.sizes = sizes
        self.in_vmap = in_vmap

    def child(self, **kw):
        c = _Cx(
            dict(self.vars), self.req, list(self.ns_dyn), self.in_scan, self.multi_ok, self.sample_ok,
            self.depth, self.sdepth, set(self.sizes), self.in_vmap,
        )
        for k, v in kw.items():
            setattr(c, k, v)
        return c


class Gen:
    def __init__(self, rng, tier, flags):
        self.rng = rng
        self.tier = tier
        self.flags = flags
        self.nvar = 0
        self.nid = 0
        self.nfresh = 0
        self.max_depth = 3 if tier == "quick" else 4
        self.max_sdepth = 2 if tier == "quick" else 3
        self.budget = int(rng.integers(7, 13)) if tier == "quick" else int(rng.integers(8, 18))
        self.mixed_done = False

    # -- helpers
    def fresh(self):
        self.nvar += 1
        return f"t{self.nvar}"

    def new_id(self):
        self.nid += 1
        return self.nid

    def pick(self, seq):
        return seq[int(self.rng.integers(0, len(seq)))]

    def chance(self, p):
        return bool(self.rng.random() < p)

    def ns_name(self, cx):
        if cx.in_scan and not self.flags["shared_ns"]:
            self.nfresh += 1
            return f"K{self.nfresh}"
        return self.pick(NSNAMES)

    # -- expressions
    def operand(self, cx, name, want):
        v = cx.vars[name]
        e = ["v", name]
        if v.kind == "arr":
            return ["mean", e], "s"
        if v.kind == "vec" and want == "s":
            if self.chance(0.5):
                return ["sum", e], "s"
            return ["idx", e, int(self.rng.integers(0, self.LV))], "s"
        return e, v.kind

    def expr(self, cx, want=None, bare_int_ok=False, only=None):
        """Expression whose dependency set covers cx.req (every enclosing scan
        iteration / vmap lane), so that stacking / batching errors are visible."""
        names = list(cx.vars) if only is None else list(only)
        order = [names[i] for i in self.rng.permutation(len(names))]
        need = set(cx.req) if only is None else set()
        chosen = []
        while need:
            cands = [n for n in order if cx.vars[n].deps & need and n not in chosen]
            n = self.pick(cands)
            chosen.append(n)
            need -= cx.vars[n].deps
        if not chosen:
            chosen.append(self.pick(order))
        nextra = int(self.rng.integers(0, 3))
        parts = []
        deps = set()
        for n in chosen:
            parts.append(self.operand(cx, n, want))
            deps |= cx.vars[n].deps
        for _ in range(nextra):
            if self.chance(0.7):
                n = self.pick(order)
                parts.append(self.operand(cx, n, want))
                deps |= cx.vars[n].deps
            else:
                parts.append((["c", round(float(self.rng.uniform(-1.5, 1.5)), 3)], "s"))
        e, kind = parts[0]
        single_bare = len(parts) == 1 and e[0] == "v"
        used_mul = False
        for e2, k2 in parts[1:]:
            r = self.rng.random()
            if r < 0.25 and not used_mul:
                e = ["mul", e, ["sin", e2]]
                used_mul = True
            elif r < 0.65:
                e = ["add", e, e2]
            else:
                e = ["sub", e, e2]
            kind = "vec" if "vec" in (kind, k2) else "s"
        if len(parts) > 1:
            e = ["scale", round(1.0 / len(parts), 3), e]
        if self.chance(0.25) and not single_bare:
            e = ["sin", e]
        if want == "vec" and kind == "s":
            e = ["spread", e]
            kind = "vec"
            single_bare = False
        isint = False
        if single_bare and cx.vars[e[1]].isint:
            if bare_int_ok:
                isint = True
            else:
                e = ["scale", 0.5, e]
        return e, kind, frozenset(deps), isint

    # -- statements
    def block(self, cx, n, force_write=False):
        out = []
        wrote = False
        for j in range(n):
            last = j == n - 1 or self.budget <= 1
            if self.budget <= 0 and not (force_write and not wrote):
                break
            self.budget -= 1
            kinds, w = [], []

            def add(k, wt):
                kinds.append(k)
                w.append(wt)

            add("let", 1.5)
            add("save", 3.0)
            add("tag", 1.5)
            add("leafcall", 0.8)
            if cx.depth < self.max_depth:
                add("call", 1.0)
                add("nscall", 2.0)
            if cx.sdepth < self.max_sdepth and cx.depth < self.max_depth and len(cx.sizes) < len(SIZES) - 1:
                if self.flags["ns_scan"] or not cx.ns_dyn:
                    add("scan", 2.4)
                if self.flags["ns_scan"] and cx.depth + 1 < self.max_depth:
                    add("nsscan", 1.6)
                    add("leafscan", 0.7)
                add("vmap", 1.6)
            if self.flags["sample"] and cx.sample_ok:
                add("sample", 1.6)
            if force_write and not wrote and last:
                kinds, w = ["save"], [1.0]
            w = np.asarray(w) / np.sum(w)
            k = kinds[int(self.rng.choice(len(kinds), p=w))]
            st = getattr(self, "st_" + k)(cx)
            if k in ("save", "tag", "leafcall", "leafscan"):
                wrote = True
            out.append(st)
            if self.budget <= 0 and (wrote or not force_write):
                break
        return out

    def st_let(self, cx):
        e, kind, deps, _ = self.expr(cx)
        v = self.fresh()
        cx.vars[v] = _Var(kind, False, deps)
        return {"k": "let", "v": v, "e": e}

    def st_save(self, cx):
        n = 1 + int(self.rng.random() < 0.4) + int(self.rng.random() < 0.15)
        names = [NAMES[i] for i in self.rng.permutation(len(NAMES))[:n]]
        items = []
        for nm in names:
            e, _, _, _ = self.expr(cx, bare_int_ok=True)
            items.append([nm, e])
        return {"k": "save", "items": items}

    def st_tag(self, cx):
        nvals = 1
        if cx.multi_ok and self.chance(0.45):
            nvals = 2 + int(self.rng.random() < 0.25)
        es, metas = [], []
        for _ in range(nvals):
            e, kind, deps, isint = self.expr(cx, bare_int_ok=True)
            es.append(e)
            metas.append((kind, deps, isint))
        bind = None
        if self.chance(0.6):
            bind = []
            for kind, deps, isint in metas:
                v = self.fresh()
                cx.vars[v] = _Var(kind, isint, deps)
                bind.append(v)
        return {"k": "tag", "name": self.pick(NAMES), "es": es, "bind": bind}

    def st_leafcall(self, cx):
        """namespace(lambda: save(v1, ...), "L<k>")() — a namespace used in leaf mode only."""
        self.nfresh += 1
        lname = f"L{self.nfresh}"
        ns = [lname]
        if self.chance(0.3):
            ns = [self.ns_name(cx), lname]
        inner = cx.child(depth=cx.depth + 1, ns_dyn=cx.ns_dyn + ns)
        nvals = 1
        if cx.multi_ok and self.chance(0.6):
            nvals = 2 + int(self.rng.random() < 0.25)
        body = []
        reps = 1 + int(self.rng.random() < 0.2)
        for _ in range(reps):
            es = [self.expr(inner, bare_int_ok=True)[0] for _ in range(nvals)]
            body.append({"k": "leaf", "es": es})
        e, kind, deps, _ = self.expr(inner)
        v = self.fresh()
        cx.vars[v] = _Var(kind, False, deps)
        return {"k": "call", "ns": ns, "params": [], "args": [], "body": body, "ret": e, "v": v}

    def st_call(self, cx, ns=None):
        ns = [] if ns is None else ns
        npar = int(self.rng.integers(0, 3))
        params, args = [], []
        inner = cx.child(depth=cx.depth + 1, ns_dyn=cx.ns_dyn + ns)
        for _ in range(npar):
            e, kind, deps, _ = self.expr(cx)
            p = self.fresh()
            params.append(p)
            args.append(e)
            inner.vars[p] = _Var(kind, False, deps)
        body = self.block(inner, int(self.rng.integers(1, 4)), force_write=bool(ns))
        e, kind, deps, _ = self.expr(inner)
        v = self.fresh()
        cx.vars[v] = _Var(kind, False, deps)
        return {"k": "call", "ns": ns, "params": params, "args": args, "body": body, "ret": e, "v": v}

    def st_nscall(self, cx):
        ns = [self.ns_name(cx)]
        if self.chance(0.3):
            ns.append(self.ns_name(cx))
        return self.st_call(cx, ns)

    def st_nsscan(self, cx):
        """namespace(lambda: lax.scan(...), ns)() — a namespace directly around a scan."""
        ns = [self.ns_name(cx)]
        inner = cx.child(depth=cx.depth + 1, ns_dyn=cx.ns_dyn + ns)
        body = []
        if self.chance(0.3):
            body.append(self.st_save(inner))
        sc = self.st_scan(inner)
        body.append(sc)
        e, kind, deps, _ = self.expr(inner)
        v = self.fresh()
        cx.vars[v] = _Var(kind, False, deps)
        return {"k": "call", "ns": ns, "params": [], "args": [], "body": body, "ret": e, "v": v}

    def size(self, cx):
        free = [s for s in SIZES if s not in cx.sizes]
        return self.pick(free)

    def st_leafscan(self, cx):
        """namespace(lambda: lax.scan(body-with-leaf-mode-save, ...), "L<k>")()"""
        self.nfresh += 1
        ns = [f"L{self.nfresh}"]
        inner = cx.child(depth=cx.depth + 1, ns_dyn=cx.ns_dyn + ns)
        sc = self.st_scan(inner, leaf_only=True)
        e, kind, deps, _ = self.expr(inner)
        v = self.fresh()
        cx.vars[v] = _Var(kind, False, deps)
        return {"k": "call", "ns": ns, "params": [], "args": [], "body": [sc], "ret": e, "v": v}

    def st_scan(self, cx, leaf_only=False):
        sid = self.new_id()
        n = self.size(cx)
        rev = self.chance(0.2)
        form = self.pick(["iota_i", "iota_f", "none", "ramp", "iota_i", "ramp"])
        xs = {"form": form}
        inner = cx.child(
            depth=cx.depth + 1, sdepth=cx.sdepth + 1, in_scan=True, sizes=cx.sizes | {n},
            req=cx.req | {sid},
        )
        xp = None
        if form != "none":
            xp = self.fresh()
            xdeps = {sid}
            if form == "ramp":
                e, _, deps, _ = self.expr(cx, want="s")
                xs["e"] = e
                xdeps |= deps
            inner.vars[xp] = _Var("s", form == "iota_i", xdeps)
        carry = []
        ncar = 1 + int(self.rng.random() < 0.35)
        for _ in range(ncar):
            want = "vec" if self.chance(0.3) else "s"
            e, kind, deps, _ = self.expr(cx, want=want)
            p = self.fresh()
            carry.append({"p": p, "init": e, "kind": kind})
            inner.vars[p] = _Var(kind, False, deps | {sid})
        ns_body = []
        if leaf_only:
            body = [self.st_let(inner)] if self.chance(0.4) else []
            nvals = 1 + int(cx.multi_ok and self.chance(0.6))
            body.append({"k": "leaf", "es": [self.expr(inner, bare_int_ok=True)[0] for _ in range(nvals)]})
        else:
            if self.chance(0.2):
                inner.in_scan = True
                ns_body = [self.ns_name(inner)]
                inner.ns_dyn = inner.ns_dyn + ns_body
            body = self.block(inner, int(self.rng.integers(1, 4)), force_write=True)
        cout = []
        cdeps = set()
        for c in carry:
            e, _, deps, _ = self.expr(inner, want="s" if c["kind"] == "s" else None)
            cdeps |= deps
            cout.append(
                ["add", ["scale", 0.5, ["sin", ["v", c["p"]]]], ["scale", 0.1, ["sin", e]]]
            )
        y = None
        ydeps, ykind = set(), None
        if self.chance(0.75):
            y, ykind, ydeps, _ = self.expr(inner)
        vc = []
        for c in carry:
            v = self.fresh()
            vc.append(v)
            cx.vars[v] = _Var(c["kind"], False, (inner.vars[c["p"]].deps | cdeps) - {sid})
        vy = None
        if y is not None:
            vy = self.fresh()
            cx.vars[vy] = _Var("arr", False, set(ydeps) - {sid})
        for c in carry:
            del c["kind"]
        return {
            "k": "scan", "id": sid, "n": n, "rev": rev, "xs": xs, "xp": xp, "carry": carry,
            "ns_body": ns_body, "body": body, "cout": cout, "y": y, "vc": vc, "vy": vy,
        }

    def st_vmap(self, cx):
        vid = self.new_id()
        B = self.size(cx)
        kind = "modular" if self.chance(0.7 if self.flags["sample"] else 0.5) else "jax"
        want_mixed = self.flags["mixed"] and not self.mixed_done
        params = []
        inner = cx.child(
            depth=cx.depth + 1, sdepth=cx.sdepth + 1, sizes=cx.sizes | {B}, req=cx.req | {vid},
            in_vmap=True,
        )
        forms = [self.pick(["lanes_s", "lanes_s", "lanes_v0"])]
        if self.chance(0.4):
            forms.append(self.pick(["lanes_s", "lanes_v0"]))
        uniform0 = True
        if self.chance(0.3):
            forms.append("lanes_v1")
            uniform0 = False
        bparam = None
        if self.chance(0.25) or want_mixed:
            forms.append("bcast")
        forms = [forms[i] for i in self.rng.permutation(len(forms))]
        for f in forms:
            p = self.fresh()
            if f == "lanes_s":
                e, _, deps, _ = self.expr(cx, want="s")
                inner.vars[p] = _Var("s", False, deps | {vid})
            elif f in ("lanes_v0", "lanes_v1"):
                e, _, deps, _ = self.expr(cx)
                inner.vars[p] = _Var("vec", False, deps | {vid})
            else:
                e, k, deps, _ = self.expr(cx)
                inner.vars[p] = _Var(k, False, deps)
                bparam = p
            params.append({"p": p, "form": f, "e": e})
        inner.multi_ok = cx.multi_ok and uniform0
        if kind == "jax" or not uniform0:
            inner.sample_ok = False
        ns_body = []
        if self.chance(0.2):
            ns_body = [self.ns_name(inner)]
            inner.ns_dyn = inner.ns_dyn + ns_body
        body = []
        if want_mixed:
            # a multi-value tag whose values have different batch dims
            # (lane-dependent + lane-independent): one ordinary placement
            self.mixed_done = True
            e1, k1, d1, _ = self.expr(inner, bare_int_ok=False)
            e2 = ["v", bparam]
            es = [e1, e2] if self.chance(0.5) else [e2, e1]
            bind = [self.fresh(), self.fresh()]
            for bv, ee in zip(bind, es):
                if ee is e2:
                    inner.vars[bv] = _Var(inner.vars[bparam].kind, False, inner.vars[bparam].deps)
                else:
                    inner.vars[bv] = _Var(k1, False, d1)
            body.append({"k": "tag", "name": self.pick(NAMES), "es": es, "bind": bind, "mixed": True})
        body += self.block(inner, int(self.rng.integers(1, 4)), force_write=not body)
        e, _, deps, _ = self.expr(inner)
        v = self.fresh()
        cx.vars[v] = _Var("arr", False, set(deps) - {vid})
        return {
            "k": "vmap", "id": vid, "kind": kind, "B": B, "params": params, "ns_body": ns_body,
            "body": body, "ret": e, "v": v,
        }

    def st_sample(self, cx):
        e, _, deps, _ = self.expr(cx, want="s")
        v = self.fresh()
        cx.vars[v] = _Var("s", False, deps)
        return {"k": "sample", "v": v, "mu": e}

    def program(self):
        self.LV = int(self.pick(SIZES))
        vars = {"x": _Var("s", False, ()), "v": _Var("vec", False, ())}
        cx = _Cx(vars, (), [], False, True, True, 0, 0, {self.LV}, False)
        body = self.block(cx, int(self.rng.integers(3, 7)), force_write=True)
        ret = [n for n in cx.vars if n not in ("x", "v")]
        return {"LV": self.LV, "body": body, "ret": ret, "flags": dict(self.flags)}


def generate(seed, index, tier):
    rng = np.random.default_rng([seed, 19, index])
    flags = {
        "sample": bool(rng.random() < 0.35),
        "ns_scan": bool(rng.random() < 0.5),
        "shared_ns": bool(rng.random() < 0.3),
        "mixed": bool(rng.random() < 0.08),
    }
    for _ in range(50):
        g = Gen(rng, tier, flags)
        prog = g.program()
        f = features(prog)
        if f["writes"] >= 2:
            break
    args = {
        "x": round(float(rng.uniform(-1.5, 1.5)), 3),
        "v": [round(float(t), 3) for t in rng.uniform(-1.5, 1.5, size=prog["LV"])],
        "key": int(rng.integers(0, 2**31 - 1)),
    }
    return prog, args


# ---------------------------------------------------------------------------
# static features / skeleton (for evidence and classification)
# ---------------------------------------------------------------------------
def features(prog):
    feats = set()
    cnt = {"writes": 0, "samples": 0}

    def walk(block, chain):
        for st in block:
            k = st["k"]
            if k in ("save", "tag", "leaf"):
                cnt["writes"] += 1
                kinds = [c for c in chain if c in ("ns", "scan", "vmap")]
                ded = []
                for c in kinds:
                    if not ded or ded[-1] != c or c != "ns":
                        ded.append(c)
                if ded:
                    feats.add(">".join(ded))
                if k == "leaf":
                    feats.add("leaf")
                if k != "save" and len(st["es"]) > 1:
                    feats.add("multi")
                if k == "tag" and st.get("mixed"):
                    feats.add("mixed")
            elif k == "sample":
                cnt["samples"] += 1
                feats.add("sample")
            elif k == "call":
                walk(st["body"], chain + ["ns"] * len(st["ns"]) + ([] if st["ns"] else ["fn"]))
            elif k == "scan":
                if st["rev"]:
                    feats.add("rev")
                walk(st["body"], chain + ["scan"] + ["ns"] * len(st["ns_body"]))
            elif k == "vmap":
                feats.add("vmap:" + st["kind"])
                if any(p["form"] == "lanes_v1" for p in st["params"]):
                    feats.add("axis1")
                walk(st["body"], chain + ["vmap"] + ["ns"] * len(st["ns_body"]))

    walk(prog["body"], [])
    return {"feats": sorted(feats), **cnt}


def skeleton(prog):
    """Structure without constants / expressions (distinctness for evidence)."""

    def sk(block):
        out = []
        for st in block:
            k = st["k"]
            if k == "save":
                out.append(["save", [n for n, _ in st["items"]]])
            elif k == "tag":
                out.append(["tag", st["name"], len(st["es"]), bool(st.get("bind"))])
            elif k == "leaf":
                out.append(["leaf", len(st["es"])])
            elif k == "sample":
                out.append(["sample"])
            elif k == "call":
                out.append(["call", [n[0] for n in st["ns"]], sk(st["body"])])
            elif k == "scan":
                out.append(["scan", st["n"], st["rev"], st["xs"]["form"], len(st["carry"]),
                            [n[0] for n in st["ns_body"]], sk(st["body"])])
            elif k == "vmap":
                out.append(["vmap", st["kind"], st["B"], [p["form"] for p in st["params"]],
                            [n[0] for n in st["ns_body"]], sk(st["body"])])
        return out

    return sk(prog["body"])


# ---------------------------------------------------------------------------
# reference interpreter: pure Python + numpy float64
# ---------------------------------------------------------------------------
class Entry:
    """One expected collected value."""

    __slots__ = ("vals", "tup", "axes", "prov", "hist", "mode")

    def __init__(self, vals, tup, axes, prov, hist, mode):
        self.vals = vals  # list of numpy arrays
        self.tup = tup  # stored as a tuple (multi-value) or bare
        self.axes = axes  # tags of leading structural axes: "S" scan iteration, "V" vmap lane
        self.prov = prov  # dynamic chain of constructs at write time
        self.hist = hist  # writes this one replaced: [{"vals","prov","mode"}] (earlier writes, same name)
        self.mode = mode


def _f(a):
    return np.asarray(a, dtype=np.float64)


def _tree_index(t, i):
    if t is None:
        return None
    if isinstance(t, (list, tuple)):
        return [_tree_index(u, i) for u in t]
    return np.asarray(t)[i]


class Ref:
    def __init__(self, prog):
        self.prog = prog
        self.LV = prog["LV"]

    # ---- expressions
    def ev(self, e, env, top=True):
        op = e[0]
        if op == "v":
            val = env[e[1]]
            if top:
                return val
            return _f(val)
        if op == "c":
            return _f(e[1])
        if op == "add":
            return self.ev(e[1], env, False) + self.ev(e[2], env, False)
        if op == "sub":
            return self.ev(e[1], env, False) - self.ev(e[2], env, False)
        if op == "mul":
            return self.ev(e[1], env, False) * self.ev(e[2], env, False)
        if op == "sin":
            return np.sin(self.ev(e[1], env, False))
        if op == "scale":
            return e[1] * self.ev(e[2], env, False)
        if op == "sum":
            return np.sum(self.ev(e[1], env, False))
        if op == "mean":
            a = self.ev(e[1], env, False)
            return np.sum(a) / a.size
        if op == "idx":
            return self.ev(e[1], env, False)[e[2]]
        if op == "spread":
            return self.ev(e[1], env, False) + SPREAD_STEP * np.arange(self.LV, dtype=np.float64)
        raise ValueError(op)

    # ---- collected entries
    @staticmethod
    def write(coll, path, vals, tup, axes, chain, mode, hist_extra=None):
        old = coll.get(path)
        hist = []
        if old is not None:
            hist = old.hist + [{"vals": old.vals, "prov": old.prov, "mode": old.mode}]
        if hist_extra:
            hist = hist + hist_extra
        coll[path] = Entry(vals, tup, axes, list(chain), hist, mode)

    @staticmethod
    def merge_stacked(coll, per, tag):
        """Stack the per-iteration / per-lane entries along a new leading axis
        and write them (one write per path, at the time of the construct)."""
        paths = list(per[0].keys())
        for tmp in per[1:]:
            assert list(tmp.keys()) == paths or set(tmp.keys()) == set(paths)
        for p in paths:
            ents = [tmp[p] for tmp in per]
            e0 = ents[0]
            vals = [np.stack([np.asarray(en.vals[j]) for en in ents]) for j in range(len(e0.vals))]
            hist = []
            if all(len(en.hist) == len(e0.hist) for en in ents):
                for h in range(len(e0.hist)):
                    try:
                        hv = [
                            np.stack([np.asarray(en.hist[h]["vals"][j]) for en in ents])
                            for j in range(len(e0.hist[h]["vals"]))
                        ]
                    except ValueError:
                        continue
                    hist.append({"vals": hv, "prov": e0.hist[h]["prov"], "mode": e0.hist[h]["mode"]})
            Ref.write(coll, p, vals, e0.tup, [tag] + e0.axes, e0.prov, e0.mode, hist_extra=hist)

    # ---- statements
    def run_block(self, block, env, ns, chain, coll, smp):
        si = 0  # position in this frame's sample list
        for st in block:
            k = st["k"]
            if k == "let":
                env[st["v"]] = self.ev(st["e"], env, False)
            elif k == "save":
                for name, e in st["items"]:
                    self.write(coll, tuple(ns) + (name,), [self.ev(e, env)], False, [], chain, "named")
            elif k == "tag":
                vals = [self.ev(e, env) for e in st["es"]]
                self.write(coll, tuple(ns) + (st["name"],), vals, len(vals) > 1, [], chain, "tag")
                if st.get("bind"):
                    for v, val in zip(st["bind"], vals):
                        env[v] = val
            elif k == "leaf":
                vals = [self.ev(e, env) for e in st["es"]]
                assert ns, "leaf mode outside a namespace is never generated"
                self.write(coll, tuple(ns), vals, len(vals) > 1, [], chain, "leaf")
            elif k == "sample":
                env[st["v"]] = _f(smp[si])
                si += 1
            elif k == "call":
                e2 = dict(env)
                for p, a in zip(st["params"], st["args"]):
                    e2[p] = self.ev(a, env, False)
                sub = smp[si]
                si += 1
                tok = ["ns:" + n for n in st["ns"]] or ["fn"]
                self.run_block(st["body"], e2, ns + st["ns"], chain + tok, coll, sub)
                env[st["v"]] = self.ev(st["ret"], e2, False)
            elif k == "scan":
                sub = smp[si]
                si += 1
                self.do_scan(st, env, ns, chain, coll, sub)
            elif k == "vmap":
                sub = smp[si]
                si += 1
                self.do_vmap(st, env, ns, chain, coll, sub)
            else:
                raise ValueError(k)

    def do_scan(self, st, env, ns, chain, coll, sub):
        n = st["n"]
        carry = [self.ev(c["init"], env, False) for c in st["carry"]]
        form = st["xs"]["form"]
        base = self.ev(st["xs"]["e"], env, False) if form == "ramp" else None
        order = range(n - 1, -1, -1) if st["rev"] else range(n)
        per = [None] * n
        ys = [None] * n
        tok = ["scan#%d" % st["id"]] + ["ns:" + m for m in st["ns_body"]]
        for t in order:
            e2 = dict(env)
            for c, val in zip(st["carry"], carry):
                e2[c["p"]] = val
            if form == "iota_i":
                e2[st["xp"]] = np.int64(t)
            elif form == "iota_f":
                e2[st["xp"]] = _f(t)
            elif form == "ramp":
                e2[st["xp"]] = base + LANE_STEP * t
            tmp = {}
            self.run_block(st["body"], e2, ns + st["ns_body"], chain + tok, tmp, _tree_index(sub, t))
            carry = [self.ev(e, e2, False) for e in st["cout"]]
            if st["y"] is not None:
                ys[t] = self.ev(st["y"], e2, False)
            per[t] = tmp
        self.merge_stacked(coll, per, "S")
        for v, val in zip(st["vc"], carry):
            env[v] = val
        if st["vy"] is not None:
            env[st["vy"]] = np.stack(ys)

    def lane_arg(self, p, base, b):
        f = p["form"]
        if f == "lanes_s":
            return base + LANE_STEP * b
        if f in ("lanes_v0", "lanes_v1"):
            vec = base if np.ndim(base) == 1 else base + SPREAD_STEP * np.arange(self.LV, dtype=np.float64)
            return vec + LANE_STEP * b
        return base

    def do_vmap(self, st, env, ns, chain, coll, sub):
        B = st["B"]
        bases = [self.ev(p["e"], env, False) for p in st["params"]]
        per = []
        outs = []
        tok = ["vmap#%d" % st["id"]] + ["ns:" + m for m in st["ns_body"]]
        for b in range(B):
            e2 = dict(env)
            for p, base in zip(st["params"], bases):
                e2[p["p"]] = self.lane_arg(p, base, b)
            tmp = {}
            self.run_block(st["body"], e2, ns + st["ns_body"], chain + tok, tmp, _tree_index(sub, b))
            outs.append(self.ev(st["ret"], e2, False))
            per.append(tmp)
        self.merge_stacked(coll, per, "V")
        env[st["v"]] = np.stack(outs)

    def run(self, x, v, samples):
        env = {"x": _f(x), "v": _f(v)}
        coll = {}
        self.run_block(self.prog["body"], env, [], [], coll, samples)
        ret = [env[n] for n in self.prog["ret"]]
        return ret, coll


# ---------------------------------------------------------------------------
# helpers on expected entries
# ---------------------------------------------------------------------------
def real_location_if_scan_drops_namespaces(path, entry, prov=None, mode=None):
    """Where the entry would sit if every namespace opened *outside* the
    innermost enclosing scan were forgotten (used only to *name* an observed
    misplacement, never to excuse one).  None when no scan encloses the write
    or no namespace precedes that scan."""
    prov = entry.prov if prov is None else prov
    mode = entry.mode if mode is None else mode
    last = None
    for i, t in enumerate(prov):
        if t.startswith("scan#"):
            last = i
    if last is None:
        return None
    if not any(t.startswith("ns:") for t in prov[:last]):
        return None
    inner_ns = tuple(t[3:] for t in prov[last + 1:] if t.startswith("ns:"))
    if mode == "leaf":
        return inner_ns  # may be () -> the real code cannot store it at all
    return inner_ns + (path[-1],)


def prov_kinds(entry):
    out = []
    for t in entry.prov:
        k = t.split(":")[0].split("#")[0]
        if k == "fn":
            continue
        if not out or out[-1] != k or k != "ns":
            out.append(k)
    return ">".join(out) if out else "top"


def dumps(o):
    return json.dumps(o, sort_keys=True)


# ---------------------------------------------------------------------------
# fixed placements (seed-independent): every composite placement the property
# names is exercised in every run, whatever the generator happens to draw
# ---------------------------------------------------------------------------
def _v(n):
    return ["v", n]


def _add(a, b):
    return ["add", a, b]


def _sv(**kw):
    return {"k": "save", "items": [[k, e] for k, e in kw.items()]}


def _call(ns, body, ret, v, params=(), args=()):
    return {"k": "call", "ns": list(ns), "params": list(params), "args": list(args), "body": body, "ret": ret, "v": v}


def _cout(p, e):
    return ["add", ["scale", 0.5, ["sin", _v(p)]], ["scale", 0.1, ["sin", e]]]


def _scan(sid, n, carry, xp, form, body, y, vc, vy, rev=False, ns_body=(), xe=None):
    xs = {"form": form}
    if xe is not None:
        xs["e"] = xe
    return {
        "k": "scan", "id": sid, "n": n, "rev": rev, "xs": xs, "xp": xp,
        "carry": [{"p": p, "init": init} for p, init, _ in carry], "ns_body": list(ns_body), "body": body,
        "cout": [_cout(p, e) for p, _, e in carry], "y": y, "vc": list(vc), "vy": vy,
    }


def _vmap(vid, kind, B, params, body, ret, v, ns_body=()):
    return {
        "k": "vmap", "id": vid, "kind": kind, "B": B,
        "params": [{"p": p, "form": f, "e": e} for p, f, e in params],
        "ns_body": list(ns_body), "body": body, "ret": ret, "v": v,
    }


def fixed_programs():
    x, v = _v("x"), _v("v")
    F = {"sample": False, "ns_scan": True, "shared_ns": False, "mixed": False}
    progs = []

    def prog(name, body, ret, **flags):
        progs.append({"LV": 2, "body": body, "ret": ret, "flags": {**F, **flags}, "fixed": name})

    # namespace around a scan (named + tag)
    prog("ns(scan)", [
        _sv(p=x),
        _call(["A"], [
            _scan(1, 3, [("c", x, _v("i"))], "i", "iota_f",
                  [_sv(p=_add(_v("c"), _v("i")), q=_v("i")),
                   {"k": "tag", "name": "r", "es": [_v("c"), _add(v, _v("i"))], "bind": ["a1", "a2"]}],
                  _add(_v("a1"), _v("i")), ["c1"], "y1"),
        ], _v("c1"), "r1"),
        _sv(q=_v("r1")),
    ], ["r1"])
    # leaf-mode save in a scan body, the namespace around the scan
    prog("ns(scan(leaf))", [
        _call(["L1"], [
            _scan(1, 3, [("c", x, _v("i"))], "i", "iota_f",
                  [{"k": "leaf", "es": [_v("c"), _add(v, _v("i"))]}], _v("c"), ["c1"], "y1"),
        ], _v("c1"), "r1"),
    ], ["r1"])
    # namespace inside a scan body, nested namespaces, namespace on the body function
    prog("scan(ns)", [
        _scan(1, 4, [("c", x, _v("i")), ("d", v, _v("c"))], "i", "iota_i",
              [_call(["A", "B"], [_sv(p=_add(_v("c"), _v("i")))], _v("c"), "u1"),
               _sv(q=_v("i"), r=_add(_v("d"), _v("u1"))),
               _call(["A"], [_sv(s=_v("d"))], _v("c"), "u2")],
              _add(_v("u1"), _v("u2")), ["c1", "d1"], "y1", ns_body=["C"]),
    ], ["c1", "d1", "y1"], ns_scan=False)
    # scan inside a namespace inside a scan; nested scan; reverse inner scan
    prog("scan(ns(scan))", [
        _scan(1, 3, [("c", x, _v("i"))], "i", "iota_f",
              [_sv(p=_v("c")),
               _call(["A"], [
                   _scan(2, 4, [("e", _add(_v("c"), _v("i")), _v("j"))], "j", "ramp",
                         [_sv(p=_add(_v("e"), ["scale", 0.5, _v("i")]), q=_v("j"))],
                         _v("e"), ["e1"], "y2", rev=True, xe=_v("c")),
               ], _v("e1"), "w1"),
               _scan(3, 2, [("g", _v("w1"), _v("i"))], None, "none",
                     [_sv(r=_add(_v("g"), _v("i")))], _v("g"), ["g1"], "y3")],
              _add(_v("w1"), _v("g1")), ["c1"], "y1"),
    ], ["c1", "y1"])
    # vmap (jax, in_axes 0 and 1) with a namespace and a scan inside; scan containing a vmap
    prog("vmap(ns,scan)", [
        _vmap(1, "jax", 3, [("a", "lanes_s", x), ("b", "lanes_v1", v)],
              [_sv(p=_v("a"), q=_v("b")),
               _call(["A"], [_sv(p=_add(_v("a"), ["sum", _v("b")]))], _v("a"), "u1"),
               _scan(2, 4, [("c", _v("a"), _v("i"))], "i", "iota_f",
                     [_sv(r=_add(_v("c"), _v("i")))], _v("c"), ["c1"], "y2")],
              _add(_v("u1"), _v("c1")), "o1", ns_body=["B"]),
        _scan(3, 4, [("c", x, _v("i"))], "i", "iota_f",
              [_vmap(4, "modular", 3, [("a", "lanes_s", _v("c")), ("b", "lanes_v0", _v("i"))],
                     [{"k": "tag", "name": "s", "es": [_add(_v("a"), _v("i")), _v("b")], "bind": None}],
                     _v("a"), "o2")],
              ["mean", _v("o2")], ["c2"], "y3"),
    ], ["o1", "c2", "y3"], ns_scan=False)
    # repeated writes: before / inside / after a scan, inside one namespace twice, leaf mode twice
    prog("repeated-writes", [
        _sv(p=x, q=v),
        _sv(p=_add(x, ["c", 1.0])),
        _call(["A"], [_sv(p=x), _sv(p=_add(x, ["c", 2.0]), q=x)], x, "u1"),
        _scan(1, 3, [("c", x, _v("i"))], "i", "iota_f",
              [_sv(p=_v("c")), _sv(p=_add(_v("c"), _v("i")), q=_v("i"))], None, ["c1"], None),
        _sv(q=_v("c1")),
        _call(["A"], [_sv(q=_add(x, ["c", 3.0]))], x, "u2"),
        _call(["B", "L1"], [{"k": "leaf", "es": [x, v]}, {"k": "leaf", "es": [_add(x, ["c", 1.0]), v]}], x, "u3"),
    ], ["u1", "c1"], ns_scan=False)
    # seeded: sample sites at top level, in a scan body, in modular_vmap lanes
    prog("samples", [
        {"k": "sample", "v": "z0", "mu": x},
        _sv(p=_v("z0")),
        _scan(1, 3, [("c", _v("z0"), _v("i"))], "i", "iota_f",
              [{"k": "sample", "v": "z1", "mu": _v("c")},
               _call(["A"], [_sv(p=_v("z1"), q=_add(_v("z1"), _v("i")))], _v("z1"), "u1"),
               _vmap(2, "modular", 4, [("a", "lanes_s", _v("z1"))],
                     [{"k": "sample", "v": "z2", "mu": _v("a")}, _sv(r=_v("z2"))], _v("z2"), "o1")],
              ["mean", _v("o1")], ["c1"], "y1"),
    ], ["c1", "y1"], sample=True, ns_scan=False)
    return progs
