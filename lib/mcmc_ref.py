"""float64 reference pieces for the MCMC kernels (C09): density restricted to a
selection, numerical gradient, MALA proposal/acceptance, leapfrog + HMC
acceptance.  Built on lib/refmodel.py only."""

from __future__ import annotations

import copy
import math

import numpy as np

from lib import refmodel as R

LOG2PI = math.log(2 * math.pi)


def get_leaf(tree, path):
    for k in path:
        tree = tree[k]
    return tree


def set_leaf(tree, path, value):
    t = tree
    for k in path[:-1]:
        t = t[k]
    t[path[-1]] = value


def to_f64(ch):
    if isinstance(ch, dict):
        return {k: to_f64(v) for k, v in ch.items()}
    a = np.asarray(ch)
    return a.astype(np.float64) if a.dtype.kind == "f" else a


class Target:
    """log p(choices; args) as a function of the selected continuous leaves."""

    def __init__(self, prog, vals, choices, sel_paths):
        self.prog = prog
        self.vals = vals
        self.base = to_f64(copy.deepcopy(choices))
        self.paths = sorted(sel_paths)
        self.shapes = [np.shape(get_leaf(self.base, p)) for p in self.paths]
        self.sizes = [int(np.prod(s)) if len(s) else 1 for s in self.shapes]
        self.min_margin = math.inf

    def pack(self, leaves):
        return np.concatenate([np.asarray(x, dtype=np.float64).reshape(-1) for x in leaves])

    def unpack(self, theta):
        out, i = [], 0
        for s, n in zip(self.shapes, self.sizes):
            out.append(theta[i : i + n].reshape(s))
            i += n
        return out

    def theta0(self):
        return self.pack([get_leaf(self.base, p) for p in self.paths])

    def choices_at(self, theta):
        ch = copy.deepcopy(self.base)
        for p, v in zip(self.paths, self.unpack(theta)):
            set_leaf(ch, p, v)
        return ch

    def logp(self, theta):
        res = R.run(self.prog, self.vals, choices=self.choices_at(theta))
        self.min_margin = min(self.min_margin, res.min_margin)
        return res.total

    def grad(self, theta, h=1e-5):
        g = np.zeros_like(theta)
        for i in range(len(theta)):
            e = np.zeros_like(theta)
            e[i] = h
            g[i] = (self.logp(theta + e) - self.logp(theta - e)) / (2 * h)
        return g


def normal_logpdf(x, mu, sigma):
    z = (np.asarray(x) - mu) / sigma
    return float(np.sum(-0.5 * z * z - math.log(sigma) - 0.5 * LOG2PI))


def mala_reference(target: Target, noise, eps):
    """noise: flat vector, one N(0,1) per coordinate (in target order)."""
    x = target.theta0()
    g = target.grad(x)
    xp = x + 0.5 * eps * eps * g + eps * np.asarray(noise, dtype=np.float64)
    gp = target.grad(xp)
    fwd = normal_logpdf(xp, x + 0.5 * eps * eps * g, eps)
    bwd = normal_logpdf(x, xp + 0.5 * eps * eps * gp, eps)
    lw = target.logp(xp) - target.logp(x)
    log_alpha = min(0.0, lw + bwd - fwd)
    return xp, log_alpha, {"drift": 0.5 * eps * eps * g, "model_weight": lw, "fwd": fwd, "bwd": bwd}


def hmc_reference(target: Target, momentum, eps, n_steps):
    x = target.theta0()
    p = np.asarray(momentum, dtype=np.float64).copy()
    g = target.grad(x)
    u0 = target.logp(x)
    k0 = normal_logpdf(p, 0.0, 1.0)
    for _ in range(n_steps):
        p = p + 0.5 * eps * g
        x = x + eps * p
        g = target.grad(x)
        p = p + 0.5 * eps * g
    u1 = target.logp(x)
    k1 = normal_logpdf(-p, 0.0, 1.0)
    log_alpha = min(0.0, (u1 + k1) - (u0 + k0))
    return x, log_alpha, {"u0": u0, "k0": k0, "u1": u1, "k1": k1}


def mh_weight(ref_old, ref_new, sel_paths):
    """Change in joint log density minus change in log prior of the selected choices."""
    bo, bn = ref_old.by_path(), ref_new.by_path()
    sel = set(sel_paths)
    joint = ref_new.total - ref_old.total
    prior = sum(v for p, v in bn.items() if p in sel) - sum(v for p, v in bo.items() if p in sel)
    return joint - prior
