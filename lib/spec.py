"""Program specs (DESIGN §3.3): a small JSON-able modelling language, a seeded
generator, and the builder that turns a spec into a real genjax program by
*interpreting the spec inside an @gen body*.

    Prog  = {"params":[names], "ptypes":[types], "body":[Stmt], "ret":Expr}
    Stmt  = {"k":"site","addr":a,"dist":d,"args":[Expr],"tag":int}
          | {"k":"call","addr":a,"prog":Prog,"args":[Expr],"kwargs":{name:Expr}}
          | {"k":"vmap","addr":a,"callee":Prog|{"dist":d,"tag":int},"in_axes":[0|None]|int|None,
             "axis_size":int|None,"n":lanes,"args":[Expr]}
          | {"k":"scan","addr":a,"step":Prog,"length":T,"init":Expr,"xs":Expr}
          | {"k":"cond","addr":a,"T":Prog,"F":Prog,"pred":Expr,"args":[Expr]}
          | {"k":"let","var":v,"e":Expr}
    Expr  = ["v",name] | ["c",const] | [op, Expr...]

Types are (cls, shape) with cls in "f" float, "b" bool, "i" int.
"""

from __future__ import annotations

import copy
import hashlib
import json

import numpy as np

# ---------------------------------------------------------------------------
# expressions: two evaluators (jax.numpy for the real program, numpy float64 for
# the reference).  They share only this table of op names.
# ---------------------------------------------------------------------------


def _ops(xp, f64):
    def sig(x):
        return 1.0 / (1.0 + xp.exp(-x))

    fl = xp.float64 if f64 else xp.float32
    return {
        "add": lambda a, b: a + b,
        "sub": lambda a, b: a - b,
        "mul": lambda a, b: a * b,
        "neg": lambda a: -a,
        "tanh": lambda a: xp.tanh(a),
        "sig": sig,
        "abs": lambda a: xp.abs(a),
        "sq": lambda a: a * a,
        "pos": lambda a: 0.3 + 2.7 * sig(a),
        "prob": lambda a: 0.05 + 0.9 * sig(a),
        "bnd": lambda a: 1.5 * xp.tanh(a),
        "asf": lambda a: xp.asarray(a).astype(fl),
        "sum": lambda a: xp.sum(a),
        "dot": lambda a, b: xp.sum(a * b),
        "gt": lambda a, b: a > b,
        "not": lambda a: xp.logical_not(a),
        "where": lambda c, a, b: xp.where(c, a, b),
    }


class Evaluator:
    def __init__(self, xp, f64):
        self.xp = xp
        self.f64 = f64
        self.ops = _ops(xp, f64)
        self.fl = xp.float64 if f64 else xp.float32
        self.margins = []  # (|a-b|, scale) of every "gt" evaluated (reference side only)

    def ev(self, e, env):
        k = e[0]
        if k == "v":
            return env[e[1]]
        if k == "c" or k == "k":  # "k": a constant the generator never perturbs
            v = e[1]
            if isinstance(v, bool):
                return self.xp.asarray(v)
            return self.xp.asarray(v, dtype=self.fl)
        if k == "idx":
            return self.ev(e[1], env)[e[2]]
        if k == "take":
            tbl = self.xp.asarray(e[1], dtype=self.fl)
            return tbl[self.ev(e[2], env)]
        if k == "stack":
            return self.xp.stack([self.ev(x, env) for x in e[1]])
        if k == "tuple":
            return tuple(self.ev(x, env) for x in e[1])
        if k == "get":
            return self.ev(e[1], env)[e[2]]
        args = [self.ev(x, env) for x in e[1:]]
        if k == "gt" and self.f64:
            a, b = np.asarray(args[0], float), np.asarray(args[1], float)
            self.margins.append(float(np.min(np.abs(a - b) / (1.0 + np.abs(b)))))
        return self.ops[k](*args)


# ---------------------------------------------------------------------------
# distributions known to the language
# ---------------------------------------------------------------------------
# name -> (value cls, n params)
DISTS = {
    "normal": ("f", 2),
    "uniform": ("f", 2),
    "exponential": ("f", 1),
    "flip": ("b", 1),
    "categorical": ("i", 1),
    "mvn": ("f", 2),
    "p_normal": ("f", 2),
    "p_uniform": ("f", 2),
    "p_flip": ("b", 1),
    "p_cat": ("i", 1),
}
PROBE_KIND = {"p_normal": "normal", "p_uniform": "uniform", "p_flip": "flip", "p_cat": "cat"}
CONTINUOUS = {"normal", "uniform", "exponential", "mvn", "p_normal", "p_uniform"}


def real_dist(name, tag):
    import genjax

    if name in PROBE_KIND:
        from lib import probes

        return probes.probe(PROBE_KIND[name], tag)
    return {
        "normal": genjax.normal,
        "uniform": genjax.uniform,
        "exponential": genjax.exponential,
        "flip": genjax.flip,
        "categorical": genjax.categorical,
        "mvn": genjax.multivariate_normal,
    }[name]


# ---------------------------------------------------------------------------
# builder: spec -> genjax generative function
# ---------------------------------------------------------------------------
def _in_axes(st):
    ia = st["in_axes"]
    if isinstance(ia, list):
        return tuple(ia)
    return ia


def build(prog):
    """Returns a genjax ``Fn``.  Sub-programs are built once, outside the body."""
    import jax.numpy as jnp
    from genjax import Cond, Scan, const, gen

    E = Evaluator(jnp, False)
    built = []
    for st in prog["body"]:
        k = st["k"]
        if k == "site":
            built.append(real_dist(st["dist"], st["tag"]))
        elif k == "call":
            built.append(build(st["prog"]))
        elif k == "vmap":
            cal = st["callee"]
            gf = real_dist(cal["dist"], cal["tag"]) if "dist" in cal else build(cal)
            if st.get("inner"):
                gf = gf.repeat(st["inner"])  # a combinator applied directly to a combinator (no @gen in between)
            kw = {}
            if st.get("axis_size") is not None:
                kw["axis_size"] = st["axis_size"]
            if st.get("use_repeat"):
                built.append(gf.repeat(st["axis_size"]))
            else:
                built.append(gf.vmap(in_axes=_in_axes(st), **kw))
        elif k == "scan":
            built.append(Scan(build(st["step"]), length=const(st["length"])))
        elif k == "cond":
            built.append(Cond(build(st["T"]), build(st["F"])))
        else:
            built.append(None)
    params = list(prog["params"])
    body = prog["body"]
    ret = prog["ret"]

    def source(*args, **kwargs):
        env = dict(zip(params, args))
        env.update(kwargs)
        for st, gf in zip(body, built):
            k = st["k"]
            if k == "let":
                env[st["var"]] = E.ev(st["e"], env)
                continue
            a = [E.ev(x, env) for x in st.get("args", [])]
            if k == "site":
                if st.get("kw_last"):
                    env[st["addr"]] = gf(*a[:-1], **{st["kw_last"]: a[-1]}) @ st["addr"]
                else:
                    env[st["addr"]] = gf(*a) @ st["addr"]
            elif k == "call":
                kw = {n: E.ev(x, env) for n, x in st.get("kwargs", {}).items()}
                env[st["addr"]] = gf(*a, **kw) @ st["addr"]
            elif k == "vmap":
                env[st["addr"]] = gf(*a) @ st["addr"]
            elif k == "scan":
                kw = {n: E.ev(x, env) for n, x in st.get("kwargs", {}).items()}
                env[st["addr"]] = gf(E.ev(st["init"], env), E.ev(st["xs"], env), **kw) @ st["addr"]
            elif k == "cond":
                env[st["addr"]] = gf(E.ev(st["pred"], env), *a) @ st["addr"]
        return E.ev(ret, env)

    return gen(source)


# ---------------------------------------------------------------------------
# static structure helpers
# ---------------------------------------------------------------------------
def leaf_paths(prog, prefix=()):
    """Static leaf address paths (through calls, vmaps, scans, conds) with the
    list of site statements that can produce them (two for Cond branches)."""
    out = {}
    for st in prog["body"]:
        k = st["k"]
        if k == "site":
            out.setdefault(prefix + (st["addr"],), []).append(st)
        elif k == "call":
            for p, v in leaf_paths(st["prog"], prefix + (st["addr"],)).items():
                out.setdefault(p, []).extend(v)
        elif k == "vmap":
            cal = st["callee"]
            if "dist" in cal:
                out.setdefault(prefix + (st["addr"],), []).append(st)
            else:
                for p, v in leaf_paths(cal, prefix + (st["addr"],)).items():
                    out.setdefault(p, []).extend(v)
        elif k == "scan":
            for p, v in leaf_paths(st["step"], prefix + (st["addr"],)).items():
                out.setdefault(p, []).extend(v)
        elif k == "cond":
            for br in ("T", "F"):
                for p, v in leaf_paths(st[br], prefix + (st["addr"],)).items():
                    out.setdefault(p, []).extend(v)
    return out


def struct_hash(prog):
    """Structural hash: node kinds, nesting, dists, in_axes, shapes - not constants."""

    def strip(e):
        if isinstance(e, list):
            if e and e[0] in ("c", "k"):
                return ["c", list(np.shape(e[1]))]
            return [strip(x) for x in e]
        if isinstance(e, dict):
            return {k: strip(v) for k, v in e.items() if k != "tag"}
        return e

    s = json.dumps(strip(prog), sort_keys=True)
    return hashlib.sha1(s.encode()).hexdigest()[:16]


def features(prog, acc=None, depth=0):
    acc = acc if acc is not None else {"sites": 0, "kinds": set(), "depth": 0, "dists": set(), "dep": False}
    acc["depth"] = max(acc["depth"], depth)
    for st in prog["body"]:
        k = st["k"]
        if k == "let":
            continue
        acc["kinds"].add(k)
        if k == "site":
            acc["sites"] += 1
            acc["dists"].add(st["dist"])
            if _mentions_var(st["args"]):
                acc["dep"] = True
        elif k == "call":
            features(st["prog"], acc, depth + 1)
        elif k == "vmap":
            if "dist" in st["callee"]:
                acc["sites"] += 1
                acc["dists"].add(st["callee"]["dist"])
            else:
                features(st["callee"], acc, depth + 1)
        elif k == "scan":
            features(st["step"], acc, depth + 1)
        elif k == "cond":
            features(st["T"], acc, depth + 1)
            features(st["F"], acc, depth + 1)
    return acc


def _mentions_var(e):
    if isinstance(e, list):
        if e and e[0] == "v":
            return True
        return any(_mentions_var(x) for x in e)
    return False


def nontrivial(prog):
    f = features(prog)
    return f["sites"] >= 2 and (f["dep"] or bool(f["kinds"] - {"site"}))


def all_discrete(prog):
    f = features(prog)
    return not (f["dists"] & CONTINUOUS)


def only_probes(prog):
    f = features(prog)
    return all(d.startswith("p_") for d in f["dists"])


# ---------------------------------------------------------------------------
# generator
# ---------------------------------------------------------------------------
class Scope:
    def __init__(self, gen, depth):
        self.g = gen
        self.depth = depth
        self.params = []  # (name, type)
        self.vars = {}  # name -> type   (params included)
        self.body = []
        self.n_addr = 0

    def fresh_param(self, typ):
        name = f"p{len(self.params)}"
        self.params.append((name, typ))
        self.vars[name] = typ
        return ["v", name]

    def fresh_addr(self):
        self.n_addr += 1
        return self.g.addr_names[(self.n_addr - 1) % len(self.g.addr_names)] + (
            "" if self.n_addr <= len(self.g.addr_names) else str(self.n_addr)
        )

    # an expression of exactly this type
    def need(self, typ, p_reuse=0.6):
        rng = self.g.rng
        cls, shape = typ
        cands = [n for n, t in self.vars.items() if t == (cls, tuple(shape))]
        if cands and rng.random() < p_reuse:
            e = ["v", cands[rng.integers(len(cands))]]
            if cls == "f" and rng.random() < 0.4:
                e = [["tanh", "neg", "bnd"][rng.integers(3)], e]
            return e
        if cls == "f" and len(shape) == 0 and self.vars and rng.random() < 0.5:
            return self.fexpr()
        return self.fresh_param((cls, tuple(shape)))

    def scalar_from(self, name):
        cls, shape = self.vars[name]
        e = ["v", name]
        if cls != "f":
            e = ["asf", e]
        if len(shape) == 1:
            if self.g.rng.random() < 0.5:
                e = ["sum", e]
            else:
                e = ["idx", e, int(self.g.rng.integers(shape[0]))]
        elif len(shape) >= 2:
            e = ["sum", e]
        return e

    def fexpr(self, p_dep=0.75):
        """A float scalar built from earlier values (bounded growth)."""
        rng = self.g.rng
        names = list(self.vars)
        c = round(float(rng.normal()), 3)
        if not names or rng.random() > p_dep:
            return ["c", c]
        a = self.scalar_from(names[rng.integers(len(names))])
        r = rng.random()
        if r < 0.3:
            return ["add", ["c", c], ["mul", ["c", round(float(rng.uniform(0.3, 1.2)), 3)], a]]
        if r < 0.5 and len(names) > 1:
            b = self.scalar_from(names[rng.integers(len(names))])
            return ["add", a, ["mul", ["c", round(float(rng.uniform(-1, 1)), 3)], ["bnd", b]]]
        if r < 0.7:
            return ["mul", ["c", round(float(rng.uniform(0.5, 1.5)), 3)], ["tanh", a]]
        return a

    def pred(self):
        rng = self.g.rng
        # most predicates depend on a random choice of this scope, so that resampling /
        # moving / re-constraining that choice can switch the branch
        sites = [s for s in self.body if s["k"] == "site" or (s["k"] == "vmap" and "dist" in s["callee"])]
        if sites and rng.random() < 0.6:
            st = sites[int(rng.integers(len(sites)))]
            dist = st["dist"] if st["k"] == "site" else st["callee"]["dist"]
            v = self.scalar_from(st["addr"])
            thr = {"normal": 0.0, "p_normal": 0.0, "mvn": 0.0, "uniform": 1.7, "p_uniform": 1.7, "exponential": 0.5,
                   "flip": 0.5, "p_flip": 0.5, "categorical": 0.5, "p_cat": 0.5}[dist]
            if dist in ("normal", "p_normal", "mvn"):
                thr = round(float(rng.normal() * 0.3), 3)
            return ["gt", v, ["c", thr]]
        bools = [n for n, t in self.vars.items() if t == ("b", ())]
        if bools and rng.random() < 0.4:
            e = ["v", bools[rng.integers(len(bools))]]
            return ["not", e] if rng.random() < 0.3 else e
        return ["gt", self.fexpr(p_dep=0.95), ["c", round(float(rng.normal() * 0.3), 3)]]


class Generator:
    def __init__(self, rng, cfg=None):
        self.rng = rng
        c = {
            "max_depth": 2,
            "max_stmts": 4,
            "dists": ["normal", "uniform", "exponential", "flip", "categorical", "p_normal", "p_flip", "p_cat", "p_uniform", "mvn"],
            "kinds": {"site": 5, "call": 1.2, "vmap": 1.5, "scan": 1.0, "cond": 1.0, "let": 0.5},
            "int_in_axes": 0.0,
            "repeat": 0.25,
            "kwargs": 0.3,
            "sizes": [2, 3, 4, 5],
        }
        c.update(cfg or {})
        self.cfg = c
        self.addr_names = list("abcdefgh")
        self.tag = 0
        self.used_sizes = set()

    def next_tag(self):
        self.tag += 1
        return self.tag

    def fresh_size(self):
        avail = [s for s in self.cfg["sizes"] if s not in self.used_sizes]
        if not avail:
            avail = self.cfg["sizes"]
        s = int(avail[self.rng.integers(len(avail))])
        self.used_sizes.add(s)
        return s

    # ---- sites
    def dist_args(self, sc, dist):
        rng = self.rng
        if dist in ("normal", "p_normal"):
            return [sc.fexpr(), ["pos", sc.fexpr(p_dep=0.4)]]
        if dist in ("uniform", "p_uniform"):
            # lo in [-1.5, 1.5], hi in [1.9, 4.6]: valid whatever the constants are
            return [["bnd", sc.fexpr()], ["add", ["k", 1.6], ["pos", sc.fexpr(p_dep=0.4)]]]
        if dist == "exponential":
            return [["pos", sc.fexpr()]]
        if dist in ("flip", "p_flip"):
            return [["prob", sc.fexpr()]]
        if dist in ("categorical", "p_cat"):
            k = int(rng.integers(2, 4))
            return [["stack", [["bnd", sc.fexpr()] for _ in range(k)]]]
        if dist == "mvn":
            a, c = float(rng.uniform(0.5, 1.5)), float(rng.uniform(0.5, 1.5))
            b = float(rng.uniform(-0.4, 0.4))
            return [["stack", [sc.fexpr(), sc.fexpr()]], ["c", [[round(a, 3), round(b, 3)], [round(b, 3), round(c, 3)]]]]
        raise ValueError(dist)

    def value_type(self, dist, args):
        cls = DISTS[dist][0]
        if dist == "mvn":
            return (cls, (2,))
        return (cls, ())

    def pick_dist(self):
        d = self.cfg["dists"]
        return d[self.rng.integers(len(d))]

    def site(self, sc):
        dist = self.pick_dist()
        addr = sc.fresh_addr()
        args = self.dist_args(sc, dist)
        st = {"k": "site", "addr": addr, "dist": dist, "args": args, "tag": self.next_tag()}
        kwname = {"normal": "scale", "exponential": "rate", "uniform": "high"}.get(dist)
        if kwname and self.rng.random() < self.cfg.get("site_kwargs", 0.25):
            st["kw_last"] = kwname  # the built-in's last parameter is passed by keyword
        sc.body.append(st)
        sc.vars[addr] = self.value_type(dist, args)

    # ---- sub programs
    def fn(self, depth, n_params_hint=None, ret="scalar", force_params=None):
        """Generate a Prog.  ``force_params``: list of types the program must take first."""
        sc = Scope(self, depth)
        for t in force_params or []:
            sc.fresh_param(t)
        if not force_params and self.rng.random() < 0.8:
            sc.fresh_param(("f", ()))
        if depth == 0:
            n = int(self.rng.integers(2, self.cfg["max_stmts"] + 1))
        else:
            n = int(self.rng.integers(1, min(3, self.cfg["max_stmts"]) + 1))
        kinds = dict(self.cfg["kinds"])
        if depth >= self.cfg["max_depth"]:
            for k in ("call", "vmap", "scan", "cond"):
                kinds[k] = 0.0 if k != "vmap" else kinds[k] * 0.5
        elif depth >= 1:
            for k in ("call", "vmap", "scan", "cond"):
                kinds[k] = kinds[k] * 0.6
        names = list(kinds)
        w = np.array([kinds[k] for k in names], float)
        w /= w.sum()
        nsite = 0
        for _ in range(n):
            k = names[self.rng.choice(len(names), p=w)]
            getattr(self, "stmt_" + k)(sc)
            nsite += k != "let"
        if nsite == 0:
            self.site(sc)
        if ret == "scalar":
            r = sc.fexpr(p_dep=1.0)
        elif ret == "step":
            # (new carry, out): float scalars
            r = ["tuple", [sc.fexpr(p_dep=1.0), sc.fexpr(p_dep=1.0)]]
        else:
            raise ValueError(ret)
        return {
            "params": [n for n, _ in sc.params],
            "ptypes": [[t[0], list(t[1])] for _, t in sc.params],
            "body": sc.body,
            "ret": r,
        }

    def stmt_site(self, sc):
        self.site(sc)

    def stmt_let(self, sc):
        name = f"t{len(sc.vars)}"
        sc.body.append({"k": "let", "var": name, "e": sc.fexpr()})
        sc.vars[name] = ("f", ())

    def args_for(self, sc, callee, lanes_axes=None):
        args = []
        for i, (cls, shape) in enumerate(callee["ptypes"]):
            shape = tuple(shape)
            if lanes_axes is not None and lanes_axes[i] == 0:
                shape = (lanes_axes["n"],) + shape
            args.append(sc.need((cls, shape)))
        return args

    def stmt_call(self, sc):
        sub = self.fn(sc.depth + 1)
        addr = sc.fresh_addr()
        args = self.args_for(sc, sub)
        kwargs = {}
        if args and self.rng.random() < self.cfg["kwargs"]:
            kwargs[sub["params"][-1]] = args.pop()
        sc.body.append({"k": "call", "addr": addr, "prog": sub, "args": args, "kwargs": kwargs})
        sc.vars[addr] = ("f", ())

    def stmt_vmap(self, sc):
        rng = self.rng
        n = self.fresh_size()
        addr = sc.fresh_addr()
        if rng.random() < 0.45 or sc.depth >= self.cfg["max_depth"]:
            # vectorised distribution
            dist = self.pick_dist()
            if dist == "mvn":
                dist = "normal"
            tmp = Scope(self, sc.depth + 1)
            tmp.vars = dict(sc.vars)
            dargs = self.dist_args(tmp, dist)
            npar = len(dargs)
            axes = [0 if rng.random() < 0.6 else None for _ in range(npar)]
            if dist in ("categorical", "p_cat"):
                k = len(dargs[0][1])
            args = []
            for i, a in enumerate(axes):
                if a == 0:
                    # a per-lane parameter: fresh/bound vector mapped into the domain
                    if dist in ("categorical", "p_cat"):
                        args.append(["bnd", sc.need(("f", (n, k)), p_reuse=0.3)])
                    else:
                        v = sc.need(("f", (n,)), p_reuse=0.5)
                        wrap = {"normal": ["bnd", "pos"], "p_normal": ["bnd", "pos"], "uniform": None, "p_uniform": None,
                                "exponential": ["pos"], "flip": ["prob"], "p_flip": ["prob"]}[dist]
                        if wrap is None:
                            # uniform: lo per lane, hi = lo + width
                            if i == 0:
                                args.append(["bnd", v])
                            else:
                                args.append(["add", ["k", 1.6], ["pos", v]])
                        else:
                            args.append([wrap[i], v])
                else:
                    if dist in ("uniform", "p_uniform"):
                        args.append(["k", -1.6] if i == 0 else ["k", 3.2])
                    else:
                        args.append(dargs[i])
            use_repeat = False
            axis_size = None
            if all(a is None for a in axes):
                axis_size = n
                use_repeat = rng.random() < self.cfg["repeat"]
            elif rng.random() < 0.3:
                axis_size = n
            in_axes = axes
            if use_repeat:
                in_axes = None
            elif rng.random() < self.cfg["int_in_axes"] and all(a == 0 for a in axes):
                in_axes = 0
            st = {"k": "vmap", "addr": addr, "callee": {"dist": dist, "tag": self.next_tag()}, "in_axes": in_axes,
                  "axis_size": axis_size, "n": n, "args": args, "use_repeat": use_repeat}
            if dist not in ("categorical", "p_cat") and rng.random() < self.cfg.get("stacked", 0.25):
                st["inner"] = self.fresh_size()  # dist.repeat(m) under the vmap: choices (n, m)
            sc.body.append(st)
            sc.vars[addr] = (DISTS[dist][0], (n,) + ((st["inner"],) if st.get("inner") else ()))
            return
        sub = self.fn(sc.depth + 1)
        npar = len(sub["params"])
        axes = [0 if rng.random() < 0.6 else None for _ in range(npar)]
        la = {i: a for i, a in enumerate(axes)}
        la["n"] = n
        args = self.args_for(sc, sub, la)
        axis_size = None
        use_repeat = False
        in_axes = axes
        if all(a is None for a in axes):
            axis_size = n
            use_repeat = rng.random() < self.cfg["repeat"]
            if use_repeat:
                in_axes = None
        elif rng.random() < 0.3:
            axis_size = n
        elif rng.random() < self.cfg["int_in_axes"] and all(a == 0 for a in axes):
            in_axes = 0
        sc.body.append({"k": "vmap", "addr": addr, "callee": sub, "in_axes": in_axes, "axis_size": axis_size,
                        "n": n, "args": args, "use_repeat": use_repeat})
        sc.vars[addr] = ("f", (n,))

    def stmt_scan(self, sc):
        T = self.fresh_size()
        fp = [("f", ()), ("f", ())]
        if self.cfg.get("scan_kwargs", 0.5) > 0 and self.rng.random() < 0.5:
            fp.append(("f", ()))  # a third scalar parameter, candidate for the keyword form
        step = self.fn(sc.depth + 1, ret="step", force_params=fp)
        extra = step["params"][2:]
        kwargs = {}
        if extra:
            # a scan step takes (carry, x); one extra scalar parameter may stay and be passed to the Scan BY KEYWORD
            # (forwarded to every step), the others are folded into constants
            keep = 0
            if tuple(step["ptypes"][2]) == ("f", []) or (step["ptypes"][2][0] == "f" and list(step["ptypes"][2][1]) == []):
                if self.rng.random() < self.cfg.get("scan_kwargs", 0.5):
                    keep = 1
            step = self._close_extra_params(step, keep)
            if keep:
                kwargs[step["params"][2]] = sc.need(("f", ()))
        addr = sc.fresh_addr()
        sc.body.append({"k": "scan", "addr": addr, "step": step, "length": T,
                        "init": sc.need(("f", ())), "xs": sc.need(("f", (T,)), p_reuse=0.4), "kwargs": kwargs})
        # retval (final carry, outs): expose both as variables
        sc.vars[addr] = ("tuple", ())
        sc.body.append({"k": "let", "var": addr + "_c", "e": ["get", ["v", addr], 0]})
        sc.body.append({"k": "let", "var": addr + "_o", "e": ["get", ["v", addr], 1]})
        del sc.vars[addr]
        sc.vars[addr + "_c"] = ("f", ())
        sc.vars[addr + "_o"] = ("f", (T,))

    def _close_extra_params(self, prog, keep=0):
        prog = copy.deepcopy(prog)
        consts = {}
        for name, (cls, shape) in list(zip(prog["params"], prog["ptypes"]))[2 + keep:]:
            if cls == "f":
                consts[name] = ["c", np.round(self.rng.normal(size=tuple(shape)), 3).tolist()]
            elif cls == "b":
                consts[name] = ["c", bool(self.rng.integers(2))]
            else:
                consts[name] = ["c", 0]

        def sub(e):
            if isinstance(e, list):
                if len(e) == 2 and e[0] == "v" and e[1] in consts:
                    return consts[e[1]]
                return [sub(x) for x in e]
            if isinstance(e, dict):
                return {k: (v if k in ("prog", "callee", "step", "T", "F") else sub(v)) for k, v in e.items()}
            return e

        prog["body"] = [sub(st) for st in prog["body"]]
        prog["ret"] = sub(prog["ret"])
        prog["params"] = prog["params"][:2 + keep]
        prog["ptypes"] = prog["ptypes"][:2 + keep]
        return prog

    def stmt_cond(self, sc):
        saved_kinds = self.cfg["kinds"]
        # branches: sites (and lets) only at the innermost level keeps both address sets equal
        self.cfg = dict(self.cfg, kinds={"site": 5, "call": 0.8, "vmap": 0.8, "scan": 0.0, "cond": 0.0, "let": 0.5})
        T = self.fn(sc.depth + 1)
        self.cfg = dict(self.cfg, kinds=saved_kinds)
        F = self.perturb(T)
        addr = sc.fresh_addr()
        args = self.args_for(sc, T)
        sc.body.append({"k": "cond", "addr": addr, "T": T, "F": F, "pred": sc.pred(), "args": args})
        sc.vars[addr] = ("f", ())

    def perturb(self, prog):
        """Same structure / addresses / dist families, different constants and fresh tags."""
        rng = self.rng

        def walk(e):
            if isinstance(e, list):
                if len(e) == 2 and e[0] == "c" and not isinstance(e[1], (bool, list)):
                    return ["c", round(float(e[1]) + float(rng.normal() * 0.7), 3)]
                return [walk(x) for x in e]
            if isinstance(e, dict):
                out = {}
                for k, v in e.items():
                    if k == "tag":
                        out[k] = self.next_tag()
                    else:
                        out[k] = walk(v)
                return out
            return e

        return walk(copy.deepcopy(prog))

    # ---- top level
    def program(self):
        self.tag = 0
        self.used_sizes = set()
        prog = self.fn(0)
        return prog

    def arg_values(self, prog, scale=1.0):
        vals = []
        for cls, shape in prog["ptypes"]:
            shape = tuple(shape)
            if cls == "f":
                vals.append(np.round(self.rng.normal(size=shape) * scale, 3).astype(np.float32).tolist())
            elif cls == "b":
                vals.append((self.rng.random(size=shape) < 0.5).tolist())
            else:
                vals.append(self.rng.integers(0, 2, size=shape).tolist())
        return vals


def to_jax_args(prog, vals):
    import jax.numpy as jnp

    out = []
    for (cls, shape), v in zip(prog["ptypes"], vals):
        dt = {"f": jnp.float32, "b": jnp.bool_, "i": jnp.int32}[cls]
        out.append(jnp.asarray(v, dtype=dt))
    return out


def show(prog, indent=0):
    """Compact human-readable rendering for evidence samples."""
    pad = "  " * indent
    lines = [pad + "fn(" + ", ".join(prog["params"]) + "):"]
    for st in prog["body"]:
        k = st["k"]
        if k == "site":
            lines.append(f"{pad}  {st['addr']} ~ {st['dist']}{_sx(st['args'])}" + (f" [{st['kw_last']}= by keyword]" if st.get("kw_last") else ""))
        elif k == "let":
            lines.append(f"{pad}  {st['var']} = {_sx(st['e'])}")
        elif k == "call":
            lines.append(f"{pad}  {st['addr']} ~ call{_sx(st['args'])} kwargs={list(st.get('kwargs', {}))}")
            lines.append(show(st["prog"], indent + 2))
        elif k == "vmap":
            c = st["callee"]
            lines.append(f"{pad}  {st['addr']} ~ vmap[n={st['n']}, in_axes={st['in_axes']}, axis_size={st['axis_size']}, repeat={st.get('use_repeat')}]"
                         + (f" {c['dist']}" if "dist" in c else "") + (f".repeat({st['inner']})" if st.get("inner") else "") + _sx(st["args"]))
            if "dist" not in c:
                lines.append(show(c, indent + 2))
        elif k == "scan":
            lines.append(f"{pad}  {st['addr']} ~ scan[T={st['length']}] init={_sx(st['init'])} xs={_sx(st['xs'])}"
                         + (f" kwargs={ {n: _sx(x) for n, x in st['kwargs'].items()} }" if st.get("kwargs") else ""))
            lines.append(show(st["step"], indent + 2))
        elif k == "cond":
            lines.append(f"{pad}  {st['addr']} ~ cond pred={_sx(st['pred'])}{_sx(st['args'])}")
            lines.append(show(st["T"], indent + 2))
            lines.append(show(st["F"], indent + 2))
    lines.append(f"{pad}  return {_sx(prog['ret'])}")
    return "\n".join(lines)


def _sx(e):
    if isinstance(e, list):
        if e and isinstance(e[0], str):
            if e[0] == "v":
                return e[1]
            if e[0] in ("c", "k"):
                return json.dumps(e[1])
            return "(" + e[0] + " " + " ".join(_sx(x) for x in e[1:]) + ")"
        return "[" + ", ".join(_sx(x) for x in e) + "]"
    return json.dumps(e)


# ---------------------------------------------------------------------------
# "bare" programs: the generative function under test is a distribution or a
# combinator used directly (no enclosing @gen function).  The spec is a wrapper
# program with exactly one addressed statement; the adapter below exposes the
# bare generative function through the same interface as a built Fn, wrapping
# and unwrapping the single address, so that every oracle written against
# wrapper choice maps {addr: ...} applies unchanged.
# ---------------------------------------------------------------------------
def _register_bare_trace():
    import jax

    @jax.tree_util.register_pytree_node_class
    class BareTrace:
        def __init__(self, inner, call_args, addr, inner_args=(), kind="?"):
            self.inner = inner
            self.call_args = call_args
            self.addr = addr
            self.inner_args = inner_args  # what the bare generative function itself was called with
            self.kind = kind

        def tree_flatten(self):
            return (self.inner, self.call_args, self.inner_args), (self.addr, self.kind)

        @classmethod
        def tree_unflatten(cls, aux, children):
            return cls(children[0], children[1], aux[0], children[2], aux[1])

        @property
        def _choices(self):
            return {self.addr: self.inner}

        def get_choices(self):
            return {self.addr: self.inner.get_choices()}

        def get_score(self):
            return self.inner.get_score()

        def get_retval(self):
            return self.inner.get_retval()

        def get_args(self):
            # the wrapper's own parameters, in the (args, kwargs) convention of traces
            return (tuple(self.call_args), {})

        def get_gen_fn(self):
            return self.inner.get_gen_fn()

    return BareTrace


_BARE_TRACE = None


class BareGF:
    """Adapter around a bare distribution / Vmap / Scan / Cond (see above)."""

    def __init__(self, prog):
        import jax.numpy as jnp
        from genjax import Cond, Scan, const

        global _BARE_TRACE
        if _BARE_TRACE is None:
            _BARE_TRACE = _register_bare_trace()
        self.prog = prog
        self.E = Evaluator(jnp, False)
        (st,) = [s for s in prog["body"] if s["k"] != "let"]
        self.st = st
        self.addr = st["addr"]
        k = st["k"]
        if k == "site":
            self.gf = real_dist(st["dist"], st["tag"])
        elif k == "vmap":
            cal = st["callee"]
            inner = real_dist(cal["dist"], cal["tag"]) if "dist" in cal else build(cal)
            if st.get("inner"):
                inner = inner.repeat(st["inner"])
            kw = {}
            if st.get("axis_size") is not None:
                kw["axis_size"] = st["axis_size"]
            self.gf = inner.repeat(st["axis_size"]) if st.get("use_repeat") else inner.vmap(in_axes=_in_axes(st), **kw)
        elif k == "scan":
            self.gf = Scan(build(st["step"]), length=const(st["length"]))
        elif k == "cond":
            self.gf = Cond(build(st["T"]), build(st["F"]))
        else:
            raise ValueError(k)

    def call_args(self, params):
        env = dict(zip(self.prog["params"], params))
        for s in self.prog["body"]:
            if s["k"] == "let":
                env[s["var"]] = self.E.ev(s["e"], env)
        st = self.st
        if st["k"] == "scan":
            return (self.E.ev(st["init"], env), self.E.ev(st["xs"], env))
        a = [self.E.ev(x, env) for x in st.get("args", [])]
        if st["k"] == "cond":
            return (self.E.ev(st["pred"], env), *a)
        return tuple(a)

    def _wrap(self, tr, params):
        return _BARE_TRACE(tr, tuple(params), self.addr, tuple(self.call_args(params)), self.st["k"])

    def simulate(self, *params):
        return self._wrap(self.gf.simulate(*self.call_args(params)), params)

    def assess(self, x, *params):
        return self.gf.assess(x[self.addr], *self.call_args(params))

    def log_density(self, x, *params):
        return self.gf.log_density(x[self.addr], *self.call_args(params))

    def generate(self, x, *params):
        sub = None if x is None else x.get(self.addr)
        tr, w = self.gf.generate(sub, *self.call_args(params))
        return self._wrap(tr, params), w

    def update(self, tr, x, *params):
        sub = None if x is None else x.get(self.addr)
        new, w, discard = self.gf.update(tr.inner, sub, *self.call_args(params))
        return self._wrap(new, params), w, {self.addr: discard}

    def regenerate(self, tr, sel, *params):
        _, sub = sel.match(self.addr)
        new, w, discard = self.gf.regenerate(tr.inner, sub, *self.call_args(params))
        return self._wrap(new, params), w, ({self.addr: discard} if discard is not None else None)

    def filter(self, x, sel):
        _, sub = sel.match(self.addr)
        a, b = self.gf.filter(x[self.addr], sub)
        return (None if a is None else {self.addr: a}), (None if b is None else {self.addr: b})


_build_fn = build


def build(prog):  # noqa: F811  (dispatching wrapper around the Fn builder)
    if prog.get("bare"):
        return BareGF(prog)
    return _build_fn(prog)


def bare_program(gen: "Generator"):
    """A wrapper spec with exactly one addressed statement (site | vmap | scan | cond)."""
    rng = gen.rng
    gen.tag = 0
    gen.used_sizes = set()
    gen.cfg = dict(gen.cfg, scan_kwargs=0.0)  # the bare adapter passes (init, xs) positionally
    for _ in range(20):
        sc = Scope(gen, 0)
        sc.fresh_param(("f", ()))
        kind = str(rng.choice(["site", "vmap", "vmap", "scan", "cond", "cond"]))
        getattr(gen, "stmt_" + kind)(sc)
        body = [s for s in sc.body]
        main = [s for s in body if s["k"] != "let"]
        if len(main) != 1:
            continue
        st = main[0]
        st.pop("kw_last", None)  # the bare adapter passes a distribution's parameters positionally
        # drop the helper lets that stmt_scan appends after the scan statement
        body = [s for s in body if s is st or (s["k"] == "let" and body.index(s) < body.index(st))]
        if st["k"] == "scan":
            ret = ["v", st["addr"]]
        else:
            ret = ["v", st["addr"]]
        return {
            "params": [n for n, _ in sc.params],
            "ptypes": [[t[0], list(t[1])] for _, t in sc.params],
            "body": body,
            "ret": ret,
            "bare": True,
        }
    raise RuntimeError("could not generate a bare program")


def _vars_in(e, acc=None):
    acc = set() if acc is None else acc
    if isinstance(e, list):
        if len(e) == 2 and e[0] == "v" and isinstance(e[1], str):
            acc.add(e[1])
        else:
            for x in e:
                _vars_in(x, acc)
    return acc


def cond_feeders(prog, prefix=()):
    """Leaf paths of choices (sites / vmapped distributions in the same scope,
    directly or through let-bound variables) that feed the predicate of a Cond:
    resampling or moving them can switch the branch."""
    out = set()
    lets = {}
    addr_kind = {}
    for st in prog["body"]:
        k = st["k"]
        if k == "let":
            lets[st["var"]] = _vars_in(st["e"])
            continue
        addr_kind[st["addr"]] = st
        if k == "cond":
            names = set(_vars_in(st["pred"]))
            # expand let-bound names transitively
            changed = True
            while changed:
                changed = False
                for n in list(names):
                    for m in lets.get(n, ()):
                        if m not in names:
                            names.add(m)
                            changed = True
            for n in names:
                s2 = addr_kind.get(n)
                if s2 is not None and (s2["k"] == "site" or (s2["k"] == "vmap" and "dist" in s2["callee"])):
                    out.add(prefix + (n,))
            out |= cond_feeders(st["T"], prefix + (st["addr"],))
        elif k == "call":
            out |= cond_feeders(st["prog"], prefix + (st["addr"],))
        elif k == "vmap" and "dist" not in st["callee"]:
            out |= cond_feeders(st["callee"], prefix + (st["addr"],))
        elif k == "scan":
            out |= cond_feeders(st["step"], prefix + (st["addr"],))
    return out
