"""Translated copy of /repo/src/genjax (DESIGN §2.2).

``build(dest)`` copies the *current working tree* of ``$VERIF_REPO/src/genjax``
verbatim into ``dest/genjax``, applies the exact-string rewrites of DESIGN §2.1
rows 5-7, and adds ``genjax/_verif_compat.py``.  Every other line is the
repository's own text.  Returns a report (which rewrites matched, how often).
"""

from __future__ import annotations

import os
import shutil
import sys
import tempfile

HERE = os.path.dirname(os.path.abspath(__file__))
VERIF = os.path.dirname(HERE)


def repo_root() -> str:
    return os.environ.get("VERIF_REPO", "/repo")


IMPORT_LINE = "from genjax import _verif_compat as _vc  # verif: JAX API translation\n"

# (file, old, new)
REWRITES = [
    # row 5
    (
        "pjax.py",
        "subfuns, params = eqn.primitive.get_bind_params(eqn.params)",
        "subfuns, params = _vc.get_bind_params_scan(eqn.primitive, eqn.params)",
    ),
    (
        "state.py",
        "subfuns, params = eqn.primitive.get_bind_params(eqn.params)",
        "subfuns, params = _vc.get_bind_params_scan(eqn.primitive, eqn.params)",
    ),
    (
        "adev/__init__.py",
        "subfuns, params = eqn.primitive.get_bind_params(eqn.params)",
        "subfuns, params = _vc.get_bind_params(eqn.primitive, eqn.params)",
    ),
    # row 6
    ("pjax.py", "jex.core.jaxpr_as_fun(", "_vc.jaxpr_as_fun("),
    ("state.py", "jex.core.jaxpr_as_fun(", "_vc.jaxpr_as_fun("),
    ("adev/__init__.py", "jaxpr_as_fun(fn),", "_vc.jaxpr_as_fun(fn),"),
    # row 7
    (
        "pjax.py",
        "ad.jvp(\n"
        "                    lu.wrap_init(impl, params, debug_info=debug_info)\n"
        "                ).call_wrapped(flat_primals, flat_tangents)",
        "_vc.jvp_flat(impl, params, flat_primals, flat_tangents)",
    ),
]


def _needs_translation() -> bool:
    """Only translate when the installed JAX lacks the old API."""
    import importlib.util

    spec = importlib.util.find_spec("jax")
    if spec is None:
        return True
    # cheap textual probe, avoids importing jax in the coordinator
    core_py = os.path.join(os.path.dirname(spec.origin), "_src", "core.py")
    try:
        with open(core_py) as f:
            return "def get_aval(" not in f.read()
    except OSError:
        return True


def _insert_import(text: str) -> str:
    """Put the ``_vc`` import after the module docstring / __future__ lines:
    right before the first top-level ``import`` / ``from`` statement."""
    lines = text.splitlines(keepends=True)
    in_doc = False
    for i, ln in enumerate(lines):
        s = ln.strip()
        if not in_doc and (s.startswith('"""') or s.startswith("'''")):
            q = s[:3]
            if not (len(s) >= 6 and s.endswith(q)):
                in_doc = True
            continue
        if in_doc:
            if '"""' in s or "'''" in s:
                in_doc = False
            continue
        if (ln.startswith("import ") or ln.startswith("from ")) and "__future__" not in ln:
            lines.insert(i, IMPORT_LINE)
            return "".join(lines)
    return IMPORT_LINE + text


def build(dest: str | None = None) -> dict:
    src = os.path.join(repo_root(), "src", "genjax")
    if not os.path.isdir(src):
        raise SystemExit(f"build: {src} not found")
    if dest is None:
        dest = tempfile.mkdtemp(prefix="verif_genjax_")
    pkg = os.path.join(dest, "genjax")
    if os.path.exists(pkg):
        shutil.rmtree(pkg)
    shutil.copytree(
        src, pkg, ignore=shutil.ignore_patterns("__pycache__", "*.pyc")
    )
    report = {"dest": dest, "translated": False, "rewrites": []}
    if _needs_translation():
        report["translated"] = True
        touched: dict[str, str] = {}
        for rel, old, new in REWRITES:
            path = os.path.join(pkg, rel)
            text = touched.get(rel)
            if text is None:
                with open(path) as f:
                    text = f.read()
            n = text.count(old)
            if n:
                text = text.replace(old, new)
            touched[rel] = text
            report["rewrites"].append({"file": rel, "pattern": old[:60], "matches": n})
        for rel, text in touched.items():
            if "_vc." in text:
                text = _insert_import(text)
            with open(os.path.join(pkg, rel), "w") as f:
                f.write(text)
        shutil.copy(os.path.join(HERE, "vcompat.py"), os.path.join(pkg, "_verif_compat.py"))
    return report


if __name__ == "__main__":
    import json

    r = build(sys.argv[1] if len(sys.argv) > 1 else None)
    print(json.dumps(r, indent=1))
