"""C08 — modular_vmap and Vmap are lane-wise maps, for densities and for sampling.

Part A (functions): generated plain functions mixing deterministic code,
dist.logpdf sites and dist.sample sites (probe and built-in; sample_shape
sites; per-lane parameters of differing rank; scan and nested modular_vmap
inside), mapped with in_axes in {0, 1, -1, None, tuples, dict pytrees},
axis_size given or inferred.  Oracle per lane i: the SAME function applied
eagerly to slice i (no batching rule involved) for deterministic / density
outputs (shape, layout, values), and for sampling sites the probe events:
exactly one draw per lane (x sample_shape), each with *that lane's* reference
parameters, laid out along output axis 0, pairwise distinct across lanes.

Part B (Vmap combinator / repeat): programs whose top level is one Vmap
statement with exotic axis specifications (int, 1, -1, None + axis_size) run
through all five GFI methods against the per-lane reference interpreter.
"""

from __future__ import annotations

import math

import numpy as np

PROPERTY = "C08"
LEVEL = "exploration"
RULE = (
    "part A: function specs from SeedSequence([VERIF_SEED, 8, index]) x axis specifications; part B: Vmap/repeat "
    "programs x {simulate, assess, generate, update, regenerate}; lane count always differs from every other "
    "dimension; distinct_nontrivial = distinct (function/program structure, axis specification) with at least one "
    "sampling or density site and at least one mapped argument or explicit axis_size"
)
ASSUMPTIONS = [
    "per-lane eager evaluation of the same function is the reference for deterministic and density outputs",
    "float64 closed-form densities (lib/refmodel.py) for probe-site parameters",
    "JAX API translation layer (DESIGN §2)",
]
FLOORS = {
    "quick": {"fn_cases": 100, "lane_output_checks": 300, "site_lane_matches": 400, "axis_nonzero": 25, "ragged_rank_sites": 15, "sample_shape_sites": 15, "gfi_method_checks": 150, "int_in_axes": 4},
    "thorough": {"fn_cases": 1000, "lane_output_checks": 4000, "site_lane_matches": 4000, "axis_nonzero": 250, "ragged_rank_sites": 150, "sample_shape_sites": 150, "gfi_method_checks": 1500, "int_in_axes": 30},
}
TIMEOUT_S = {"quick": 1500, "thorough": 5400}
CLEAR_CACHES_EVERY = {"quick": 0, "thorough": 6}  # see lib/worker.py


def plan(tier, seed):
    na = 120 if tier == "quick" else 1200
    nb = 48 if tier == "quick" else 400
    return [{"kind": "fn", "gseed": [seed, 8, i]} for i in range(na)] + [{"kind": "gfi", "gseed": [seed, 808, i]} for i in range(nb)]


# ---------------------------------------------------------------------------
# part A: function specs
# ---------------------------------------------------------------------------
UN = ["tanh", "neg", "sq", "bnd"]


def _gen_fn_spec(rng):
    """Per-lane view: parameters have per-lane shapes; returns the spec and per-lane shapes."""
    n = int(rng.choice([2, 3, 4]))
    dims = [d for d in (2, 3, 4, 5) if d != n]
    nparams = int(rng.integers(1, 4))
    params = []
    for i in range(nparams):
        r = rng.random()
        shape = () if r < 0.45 else ((int(rng.choice(dims)),) if r < 0.85 else (int(rng.choice(dims)), int(rng.choice(dims))))
        params.append((f"a{i}", shape))
    vars_ = {nm: sh for nm, sh in params}
    body = []
    tag = [0]

    def pick(shape_pred=None):
        c = [k for k, s in vars_.items() if shape_pred is None or shape_pred(s)]
        return c[int(rng.integers(len(c)))] if c else None

    def scalarize(name):
        s = vars_[name]
        e = ["v", name]
        if len(s) == 0:
            return e
        return ["sum", e] if rng.random() < 0.5 else ["idx", e, 0] if len(s) == 1 else ["sum", e]

    boolvars = set()

    def fexpr(name):
        e = ["v", name]
        if name in boolvars:
            e = ["asf", e]
        if rng.random() < 0.6:
            e = [UN[int(rng.integers(len(UN)))], e]
        if rng.random() < 0.4:
            e = ["add", e, ["c", round(float(rng.normal()), 3)]]
        return e

    nst = int(rng.integers(2, 6))
    feats = set()
    for si in range(nst):
        kind = rng.choice(["let", "logpdf", "sample", "sample", "sample_shape", "ragged", "scan", "inner", "dscan", "cond", "loop"],
                          p=[0.10, 0.15, 0.17, 0.10, 0.09, 0.10, 0.08, 0.06, 0.05, 0.05, 0.05])
        var = f"s{si}"
        if kind == "let":
            nm = pick()
            body.append({"k": "let", "var": var, "e": fexpr(nm)})
            vars_[var] = vars_[nm]
        elif kind in ("sample", "sample_shape", "logpdf"):
            dist = str(rng.choice(["p_normal", "p_normal", "normal", "p_uniform", "p_flip", "exponential"]))
            nm = pick()
            loc = fexpr(nm)
            shape = vars_[nm]
            if dist in ("p_normal", "normal"):
                nm2 = pick(lambda s: s == () or s == shape)
                args = [loc, ["pos", fexpr(nm2)]]
            elif dist == "p_uniform":
                args = [["bnd", loc], ["k", 3.2]]
            elif dist == "p_flip":
                args = [["prob", loc]]
            else:
                args = [["pos", loc]]
            if kind == "logpdf":
                if dist == "p_flip":
                    val = ["gt", fexpr(nm), ["c", 0.0]]
                elif dist == "p_uniform":
                    val = ["add", ["k", 1.6], ["mul", ["c", 0.1], ["tanh", fexpr(nm)]]]
                elif dist == "exponential":
                    val = ["sq", fexpr(nm)]
                else:
                    val = fexpr(nm)
                kwn = {"normal": "scale", "exponential": "rate"}.get(dist)
                body.append({"k": "logpdf", "var": var, "dist": dist, "value": val, "args": args,
                             "kw_last": kwn if (kwn and rng.random() < 0.5) else None})
                if body[-1]["kw_last"]:
                    feats.add("logpdf-keyword")
                vars_[var] = shape
                feats.add("logpdf")
            else:
                tag[0] += 1
                ss = None
                if kind == "sample_shape":
                    ss = int(rng.choice([d for d in dims if d not in shape] or dims))
                    feats.add("sample_shape")
                body.append({"k": "sample", "var": var, "dist": dist, "args": args, "sample_shape": ss, "tag": tag[0]})
                vars_[var] = ((ss,) if ss else ()) + tuple(shape)
                if dist == "p_flip":
                    boolvars.add(var)
                feats.add("sample")
        elif kind == "ragged":
            # parameters of differing per-lane rank: scalar location against a vector scale (or vice versa)
            sc = pick(lambda s: s == ())
            vec = pick(lambda s: len(s) == 1)
            if sc is None or vec is None:
                continue
            tag[0] += 1
            if rng.random() < 0.5:
                args = [fexpr(sc), ["pos", fexpr(vec)]]
            else:
                args = [fexpr(vec), ["pos", fexpr(sc)]]
            body.append({"k": "sample", "var": var, "dist": "p_normal", "args": args, "sample_shape": None, "tag": tag[0]})
            vars_[var] = vars_[vec]
            feats.add("ragged")
            feats.add("sample")
        elif kind == "scan":
            nm = pick(lambda s: len(s) == 1)
            c0 = pick(lambda s: s == ())
            if nm is None or c0 is None or nm in boolvars or c0 in boolvars:
                continue  # (a boolean carry would make the generated scan ill-typed for plain JAX as well)
            tag[0] += 1
            rev = bool(rng.random() < 0.5)
            body.append({"k": "scan", "var": var, "xs": nm, "init": c0, "tag": tag[0], "dist": "p_normal", "reverse": rev})
            vars_[var] = vars_[nm]
            feats.add("scan")
            feats.add("sample")
            if rev:
                feats.add("reverse")
        elif kind == "dscan":
            # deterministic, direction-sensitive scan (carry-dependent step)
            nm = pick(lambda s: len(s) == 1)
            c0 = pick(lambda s: s == ())
            if nm is None or c0 is None or nm in boolvars or c0 in boolvars:
                continue
            rev = bool(rng.random() < 0.6)
            body.append({"k": "dscan", "var": var, "xs": nm, "init": c0, "reverse": rev})
            vars_[var] = vars_[nm]
            feats.add("dscan")
            if rev:
                feats.add("reverse")
        elif kind == "cond":
            pr = pick(lambda s: s == ())
            nm = pick()
            if pr is None or nm is None or pr in boolvars or nm in boolvars:
                continue
            body.append({"k": "cond", "var": var, "pred": pr, "x": nm, "switch": bool(rng.random() < 0.4)})
            vars_[var] = vars_[nm]
            feats.add("cond")
        elif kind == "loop":
            pr = pick(lambda s: s == ())
            nm = pick()
            if pr is None or nm is None or pr in boolvars or nm in boolvars:
                continue
            body.append({"k": "loop", "var": var, "bound": pr, "x": nm, "while": bool(rng.random() < 0.5)})
            vars_[var] = vars_[nm]
            feats.add("loop")
        elif kind == "inner":
            nm = pick(lambda s: len(s) == 1)
            if nm is None:
                continue
            tag[0] += 1
            body.append({"k": "inner", "var": var, "xs": nm, "tag": tag[0], "dist": "p_normal"})
            vars_[var] = vars_[nm]
            feats.add("inner_vmap")
            feats.add("sample")
    outs = [st["var"] for st in body]
    if not outs:
        body.append({"k": "let", "var": "s0", "e": ["v", params[0][0]]})
        outs = ["s0"]
    return {"n": n, "params": params, "body": body, "outs": outs, "feats": sorted(feats)}


def _axis_spec(spec, rng):
    """Choose in_axes per parameter and build batched argument arrays' shapes."""
    n = spec["n"]
    axes = []
    for nm, shape in spec["params"]:
        r = rng.random()
        if r < 0.2:
            axes.append(None)
        elif r < 0.55 or len(shape) == 0:
            axes.append(0)
        elif r < 0.8:
            axes.append(int(rng.integers(1, len(shape) + 1)))
        else:
            axes.append(-1)
    form = "tuple"
    if all(a == 0 for a in axes) and rng.random() < 0.4:
        form = "int"
    elif all(a is None for a in axes):
        form = "none"
    elif rng.random() < 0.15:
        form = "dict"
    axis_size = n if (form == "none" or rng.random() < 0.3) else None
    return axes, form, axis_size


def _show_fn(spec, axes, form, axis_size):
    from lib.spec import _sx

    lines = [f"f({', '.join(f'{n}:{list(s)}' for n, s in spec['params'])})  lanes={spec['n']} in_axes={axes} form={form} axis_size={axis_size}"]
    for st in spec["body"]:
        k = st["k"]
        if k == "let":
            lines.append(f"  {st['var']} = {_sx(st['e'])}")
        elif k == "logpdf":
            lines.append(f"  {st['var']} = {st['dist']}.logpdf({_sx(st['value'])}, {_sx(st['args'])})" + (f" [{st['kw_last']}= by keyword]" if st.get("kw_last") else ""))
        elif k == "sample":
            lines.append(f"  {st['var']} = {st['dist']}.sample({_sx(st['args'])}, sample_shape={st['sample_shape']})")
        elif k == "scan":
            lines.append(f"  {st['var']} = scan over {st['xs']}: c, x -> p_normal.sample(c*0.5 + x, 0.7) (init {st['init']}, reverse={st.get('reverse', False)})")
        elif k == "dscan":
            lines.append(f"  {st['var']} = lax.scan(c, x -> (c*0.5 + x, c*0.5 - 2x), init {st['init']}, xs {st['xs']}, reverse={st['reverse']})[1]")
        elif k == "cond":
            lines.append(f"  {st['var']} = " + ("lax.switch(clip(floor(|p|*2),0,2), [2x+1, -x, x*x], x)" if st["switch"] else "lax.cond(p > 0, 2x+1, -x, x)") + f"  p={st['pred']} x={st['x']}")
        elif k == "loop":
            lines.append(f"  {st['var']} = " + ("while_loop(i < clip(floor(|b|*3),0,4): c -> c*0.5 + i)" if st["while"] else "fori_loop(0, 3, c -> c*0.5 + i)") + f"  b={st['bound']} x={st['x']}")
        elif k == "inner":
            lines.append(f"  {st['var']} = modular_vmap(lambda x: p_normal.sample(x, 0.5))({st['xs']})")
    return "\n".join(lines)


def _build_fn(spec):
    import jax
    import jax.numpy as jnp
    from genjax import modular_vmap

    from lib import spec as SP

    E = SP.Evaluator(jnp, False)
    dists = {}
    for st in spec["body"]:
        if "dist" in st:
            dists[id(st)] = SP.real_dist(st["dist"], st.get("tag", 0))
    names = [n for n, _ in spec["params"]]
    body = spec["body"]
    outs = spec["outs"]

    def f(*args):
        env = dict(zip(names, args))
        for st in body:
            k = st["k"]
            if k == "let":
                env[st["var"]] = E.ev(st["e"], env)
            elif k == "logpdf":
                d = dists[id(st)]
                la = [E.ev(a, env) for a in st["args"]]
                if st.get("kw_last"):
                    env[st["var"]] = d.logpdf(E.ev(st["value"], env), *la[:-1], **{st["kw_last"]: la[-1]})
                else:
                    env[st["var"]] = d.logpdf(E.ev(st["value"], env), *la)
            elif k == "sample":
                d = dists[id(st)]
                a = [E.ev(x, env) for x in st["args"]]
                if st["sample_shape"]:
                    env[st["var"]] = d.sample(*a, sample_shape=(st["sample_shape"],))
                else:
                    env[st["var"]] = d.sample(*a)
            elif k == "scan":
                d = dists[id(st)]

                def step(c, x, _d=d):
                    v = _d.sample(c * 0.5 + x, 0.7)
                    return v, v

                _, ys = jax.lax.scan(step, env[st["init"]], env[st["xs"]], reverse=bool(st.get("reverse", False)))
                env[st["var"]] = ys
            elif k == "dscan":

                def dstep(c, x):
                    return c * 0.5 + x, c * 0.5 - 2.0 * x

                _, ys = jax.lax.scan(dstep, env[st["init"]], env[st["xs"]], reverse=st["reverse"])
                env[st["var"]] = ys
            elif k == "cond":
                pv, xv = env[st["pred"]], env[st["x"]]
                if st["switch"]:
                    ix = jnp.clip(jnp.floor(jnp.abs(pv) * 2.0), 0, 2).astype(jnp.int32)
                    env[st["var"]] = jax.lax.switch(ix, [lambda x: 2.0 * x + 1.0, lambda x: -x, lambda x: x * x], xv)
                else:
                    env[st["var"]] = jax.lax.cond(pv > 0, lambda x: 2.0 * x + 1.0, lambda x: -x, xv)
            elif k == "loop":
                bv, xv = env[st["bound"]], env[st["x"]]
                if st["while"]:
                    nb = jnp.clip(jnp.floor(jnp.abs(bv) * 3.0), 0, 4).astype(jnp.int32)
                    _, out = jax.lax.while_loop(lambda c: c[0] < nb, lambda c: (c[0] + 1, c[1] * 0.5 + c[0]), (jnp.int32(0), xv))
                    env[st["var"]] = out
                else:
                    env[st["var"]] = jax.lax.fori_loop(0, 3, lambda i, c: c * 0.5 + i, xv)
            elif k == "inner":
                d = dists[id(st)]
                env[st["var"]] = modular_vmap(lambda x, _d=d: _d.sample(x, 0.5))(env[st["xs"]])
        return tuple(env[o] for o in outs)

    return f


def _lane_slice(a, axis, i):
    if axis is None:
        return a
    return np.take(np.asarray(a), i, axis=axis)


def _bcast_logpdf(dist, value, params):
    from lib import refmodel as R

    shp = np.broadcast_shapes(np.shape(value), *[np.shape(p) for p in params])
    v = np.broadcast_to(np.asarray(value), shp)
    ps = [np.broadcast_to(np.asarray(p, dtype=np.float64), shp) for p in params]
    out = np.empty(shp)
    for idx in np.ndindex(*shp) if shp else [()]:
        out[idx] = R.logpdf(dist, v[idx], tuple(p[idx] for p in ps))
    return out


def _run_fn(case, ctx):
    import jax
    import jax.numpy as jnp
    from genjax import modular_vmap, seed

    from lib import gfi, probes
    from lib import refmodel as R
    from lib import spec as SP

    rng = np.random.default_rng(case["gseed"])
    ctx.evaluation()
    spec = _gen_fn_spec(rng)
    axes, form, axis_size = _axis_spec(spec, rng)
    n = spec["n"]
    # batched argument values
    vals = []
    for (nm, shape), ax in zip(spec["params"], axes):
        if ax is None:
            full = shape
        else:
            pos = ax if ax >= 0 else len(shape) + 1 + ax
            full = shape[:pos] + (n,) + shape[pos:]
        vals.append(np.round(rng.normal(size=full), 3).astype(np.float32))
    names = [nm for nm, _ in spec["params"]]
    show = _show_fn(spec, axes, form, axis_size)
    d0 = {"function": show, "args": [v.tolist() for v in vals]}
    f = ctx.call(_build_fn, spec)
    if hasattr(f, "brief"):
        raise f.exc
    jargs = [jnp.asarray(v) for v in vals]
    if form == "int":
        in_axes = 0
        ctx.count("int_in_axes_fn")
    elif form == "none":
        in_axes = None
    elif form == "dict":
        # pass all arguments as one dict pytree with a matching in_axes pytree
        f0 = f
        f = lambda dct: f0(*[dct[k] for k in names])  # noqa: E731
        jargs = [dict(zip(names, jargs))]
        in_axes = (dict(zip(names, axes)),)
    else:
        in_axes = tuple(axes)
    if any(a not in (0, None) for a in axes):
        ctx.count("axis_nonzero")
    probes.HOST.reset("observe", int(rng.integers(2**31)))
    mv = ctx.call(lambda: jax.jit(seed(modular_vmap(f, in_axes=in_axes, axis_size=axis_size)))(jax.random.key(int(rng.integers(2**31))), *jargs))
    ctx.count("fn_cases")
    feats = spec["feats"]
    if hasattr(mv, "brief"):
        key = "modular_vmap|" + ("+".join(f for f in feats if f in ("ragged", "sample_shape", "inner_vmap", "scan", "dscan", "cond", "loop", "reverse")) or "plain")
        ctx.violation(f"{key}|raises:{mv.type}", {**d0, **mv.brief()})
        return
    events = list(probes.HOST.events)
    outs = [np.asarray(o) for o in mv]
    by_tag = {}
    for e in events:
        by_tag.setdefault(e.tag, []).append(e)
    used = {t: [False] * len(v) for t, v in by_tag.items()}
    E = SP.Evaluator(np, True)
    if (any(a is not None for a in axes) or axis_size) and ("sample" in feats or "logpdf" in feats):
        ctx.distinct("nontrivial", [[st["k"] + ":" + st.get("dist", "") + ":" + str(st.get("sample_shape")) for st in spec["body"]], [list(s) for _, s in spec["params"]], axes, form, axis_size])
    # ---- per lane reference
    for i in range(n):
        env = {nm: np.asarray(_lane_slice(v, ax, i), dtype=np.float64) for nm, v, ax in zip(names, vals, axes)}
        for st, out in zip(spec["body"], outs):
            k = st["k"]
            var = st["var"]
            if out.shape[:1] != (n,):
                ctx.violation("modular_vmap|output-lane-axis-not-leading", {**d0, "output": var, "shape": list(out.shape)})
                return
            lane_val = out[i]
            d = {**d0, "lane": i, "output": var}
            if k == "let":
                want = E.ev(st["e"], env)
                ctx.count("lane_output_checks")
                if not R.close(lane_val, want, rel=2e-5):
                    ctx.violation("modular_vmap|deterministic-output-differs", {**d, "got": lane_val.tolist(), "reference": np.asarray(want).tolist()})
                    return
                env[var] = np.asarray(want)
            elif k == "logpdf":
                a = [E.ev(x, env) for x in st["args"]]
                want = _bcast_logpdf(st["dist"], E.ev(st["value"], env), a)
                ctx.count("lane_output_checks")
                if st.get("kw_last"):
                    ctx.count("lane_logpdf_keyword_checks")
                if not R.close(lane_val, want, scale=float(np.max(np.abs(want))) if np.size(want) else 1.0, rel=3e-5):
                    ctx.violation("modular_vmap|density-output-differs" + ("|keyword-parameter" if st.get("kw_last") else ""), {**d, "got": lane_val.tolist(), "reference": np.asarray(want).tolist()})
                    return
                env[var] = np.asarray(want)
            elif k == "sample":
                a = [np.asarray(E.ev(x, env), dtype=np.float64) for x in st["args"]]
                pshape = np.broadcast_shapes(*[p.shape for p in a])
                want_shape = ((st["sample_shape"],) if st["sample_shape"] else ()) + tuple(pshape)
                if lane_val.shape != want_shape:
                    key = "modular_vmap|sample-shape-differs" + ("|sample_shape-site" if st["sample_shape"] else "") + ("|ragged" if "ragged" in feats else "")
                    ctx.violation(key, {**d, "got_shape": list(lane_val.shape), "reference_shape": list(want_shape)})
                    return
                if st["sample_shape"]:
                    ctx.count("sample_shape_sites")
                if len({p.shape for p in a}) > 1:
                    ctx.count("ragged_rank_sites")
                if st["dist"].startswith("p_"):
                    ps = [np.broadcast_to(p, want_shape) for p in a]
                    for idx in np.ndindex(*want_shape) if want_shape else [()]:
                        v = lane_val[idx]
                        want_p = tuple(float(p[idx]) for p in ps)
                        ok = _claim_event(by_tag.get(st["tag"], []), used.get(st["tag"], []), v, want_p)
                        ctx.count("site_lane_matches")
                        if not ok:
                            ctx.violation(
                                "modular_vmap|site-did-not-see-its-lanes-parameters" + ("|ragged" if len({p.shape for p in a}) > 1 else ""),
                                {**d, "element": list(idx), "value": np.asarray(v).tolist(), "reference_params": list(want_p),
                                 "sites_saw": [[float(x) for x in e.params] + [np.asarray(e.value).tolist()] for e in by_tag.get(st["tag"], [])][:12]},
                            )
                            return
                env[var] = np.asarray(lane_val, dtype=np.float64)
            elif k in ("dscan", "cond", "loop"):
                if k == "dscan":
                    xs_ = np.asarray(env[st["xs"]], dtype=np.float64)
                    c = float(env[st["init"]])
                    want = np.zeros_like(xs_)
                    order = range(len(xs_) - 1, -1, -1) if st["reverse"] else range(len(xs_))
                    for j in order:
                        want[j] = c * 0.5 - 2.0 * xs_[j]
                        c = c * 0.5 + xs_[j]
                elif k == "cond":
                    pv = float(np.float32(env[st["pred"]]))
                    xv = np.asarray(env[st["x"]], dtype=np.float64)
                    if st["switch"]:
                        ix = int(np.clip(np.floor(np.float32(abs(pv)) * np.float32(2.0)), 0, 2))
                        want = [2.0 * xv + 1.0, -xv, xv * xv][ix]
                    else:
                        want = 2.0 * xv + 1.0 if pv > 0 else -xv
                else:
                    bv = float(np.float32(env[st["bound"]]))
                    want = np.asarray(env[st["x"]], dtype=np.float64)
                    nb = int(np.clip(np.floor(np.float32(abs(bv)) * np.float32(3.0)), 0, 4)) if st["while"] else 3
                    for j in range(nb):
                        want = want * 0.5 + j
                ctx.count("lane_output_checks")
                ctx.count(f"lane_{k}_checks")
                if lane_val.shape != np.shape(want) or not R.close(lane_val, want, rel=3e-5):
                    ctx.violation(f"modular_vmap|{k}" + ("-reverse" if st.get("reverse") else "") + "|deterministic-output-differs",
                                  {**d, "got": lane_val.tolist(), "reference": np.asarray(want).tolist()})
                    return
                env[var] = np.asarray(want)
            elif k in ("scan", "inner"):
                xs = env[st["xs"]]
                if lane_val.shape != xs.shape:
                    ctx.violation(f"modular_vmap|{k}-output-shape-differs", {**d, "got_shape": list(lane_val.shape)})
                    return
                c = float(env[st["init"]]) if k == "scan" else None
                for j in (range(len(xs) - 1, -1, -1) if st.get("reverse") else range(len(xs))):
                    want_p = (c * 0.5 + float(xs[j]), 0.7) if k == "scan" else (float(xs[j]), 0.5)
                    ok = _claim_event(by_tag.get(st["tag"], []), used.get(st["tag"], []), lane_val[j], want_p)
                    ctx.count("site_lane_matches")
                    if not ok:
                        ctx.violation(f"modular_vmap|{k}" + ("-reverse" if st.get("reverse") else "") + "|site-did-not-see-its-lanes-parameters", {**d, "step": j, "reference_params": list(want_p)})
                        return
                    c = float(lane_val[j])
                env[var] = np.asarray(lane_val, dtype=np.float64)
    # every event consumed: exactly one draw per lane element, never more
    for t, u in used.items():
        if not all(u):
            ctx.violation("modular_vmap|extra-draws", {**d0, "tag": t, "draws": len(u), "claimed": int(sum(u))})
            return
    # never one draw broadcast to all lanes
    for st, out in zip(spec["body"], outs):
        if st["k"] in ("sample", "scan", "inner") and st["dist"] in ("p_normal", "normal", "p_uniform", "exponential") and n > 1:
            flat = out.reshape(n, -1)
            for a in range(n):
                for b in range(a + 1, n):
                    if np.any(flat[a] == flat[b]):
                        ctx.violation("modular_vmap|same-draw-in-two-lanes", {**d0, "output": st["var"], "lanes": [a, b]})
                        return
    if case["gseed"][-1] % 40 == 0:
        ctx.sample({"function": show, "site_events": len(events), "output_shapes": [list(o.shape) for o in outs]})


def _claim_event(evs, used, value, want_params):
    for j, e in enumerate(evs):
        if used[j]:
            continue
        if np.float32(e.value) != np.float32(value) and not (np.asarray(e.value).dtype == bool and bool(e.value) == bool(value)):
            continue
        if all(abs(float(a) - float(b)) <= 2e-5 * (1 + abs(float(b))) for a, b in zip(e.params, want_params)):
            used[j] = True
            return True
    return False


# ---------------------------------------------------------------------------
# part B: Vmap combinator / repeat through the GFI
# ---------------------------------------------------------------------------
def _gfi_prog(rng):
    from lib import spec as SP

    g = SP.Generator(rng, {"max_depth": 1, "max_stmts": 3, "dists": ["p_normal", "normal", "p_flip", "p_cat", "exponential", "p_uniform"],
                           "kinds": {"site": 5, "call": 0.0, "vmap": 0.6, "scan": 0.5, "cond": 0.5, "let": 0.5}})
    g.tag = 0
    g.used_sizes = set()
    callee = g.fn(1)
    n = g.fresh_size()
    npar = len(callee["params"])
    variant = str(rng.choice(["int0", "axis1", "axis-1", "none+size", "tuple", "repeat"]))
    ptypes = []
    axes = []
    for cls, shape in callee["ptypes"]:
        shape = tuple(shape)
        if variant in ("none+size", "repeat"):
            ax = None
        elif variant == "int0":
            ax = 0
        elif variant == "axis1" and len(shape) >= 1:
            ax = 1
        elif variant == "axis-1":
            ax = -1
        else:
            ax = 0 if rng.random() < 0.7 else None
        axes.append(ax)
        if ax is None:
            ptypes.append([cls, list(shape)])
        else:
            pos = ax if ax >= 0 else len(shape) + 1 + ax
            ptypes.append([cls, list(shape[:pos] + (n,) + shape[pos:])])
    if npar == 0 and variant in ("int0", "axis1", "axis-1", "tuple"):
        variant = "none+size"
    in_axes = axes
    use_repeat = variant == "repeat"
    axis_size = n if (variant in ("none+size", "repeat") or all(a is None for a in axes)) else None
    if variant == "int0" and axes and all(a == 0 for a in axes):
        in_axes = 0
    if use_repeat:
        in_axes = None
    params = [f"p{i}" for i in range(npar)]
    prog = {"params": params, "ptypes": ptypes,
            "body": [{"k": "vmap", "addr": "v", "callee": callee, "in_axes": in_axes, "axis_size": axis_size, "n": n,
                      "args": [["v", p] for p in params], "use_repeat": use_repeat}],
            "ret": ["sum", ["v", "v"]]}
    return g, prog, variant


def _run_gfi(case, ctx):
    import jax
    from genjax import seed

    from lib import gfi, probes
    from lib import refmodel as R
    from lib import selspec as S
    from lib import spec as SP

    rng = np.random.default_rng(case["gseed"])
    ctx.evaluation()
    g, prog, variant = _gfi_prog(rng)
    base = {"program": SP.show(prog), "axis_variant": variant}
    if isinstance(prog["body"][0]["in_axes"], int):
        ctx.count("int_in_axes")
    outer = ctx.call(SP.build, prog)
    if hasattr(outer, "brief"):
        ctx.violation(gfi.raise_key("build", outer), {**base, **outer.brief()})
        return
    vals = g.arg_values(prog)
    args = SP.to_jax_args(prog, vals)
    d0 = {**base, "args": vals}
    key = lambda: jax.random.key(int(rng.integers(2**31)))  # noqa: E731
    probes.HOST.reset("observe", int(rng.integers(2**31)))

    def meth(name, fn, *a):
        r = ctx.call(fn, *a)
        ctx.count("gfi_method_checks")
        if hasattr(r, "brief"):
            ctx.violation(f"Vmap.{name}|in_axes={variant}|raises:{r.type}", {**d0, **r.brief()})
            return None
        return r

    tr = meth("simulate", jax.jit(seed(outer.simulate)), key(), *args)
    if tr is None:
        return
    st, ref0 = gfi.coherence(ctx, f"Vmap.simulate|in_axes={variant}", prog, vals, tr, d0)
    if st != "ok":
        return
    ch0 = R.to_numpy(tr.get_choices())
    # assess on reference-drawn choices
    refx = R.run(prog, vals, chooser=R.prior_chooser(rng, safe=True))
    if refx.min_margin < 1e-4:
        return
    r = meth("assess", jax.jit(outer.assess), R.to_jax(refx.choices), *args)
    if r is None:
        return
    if not (abs(float(r[0]) - refx.total) <= R.tol(refx.abs_sum(), len(refx.sites))) or not R.close(r[1], refx.retval, rel=2e-5):
        ctx.violation(f"Vmap.assess|in_axes={variant}|density-or-retval-differs", {**d0, "assess": gfi.fnum(r[0]), "reference": refx.total})
        return
    paths = sorted(SP.leaf_paths(prog))
    # generate: all constrained / one address constrained
    for sub in ([paths[0]], paths):
        cons = R.restrict(refx.choices, set(sub))
        r = meth("generate", jax.jit(seed(outer.generate)), key(), R.to_jax(cons), *args)
        if r is None:
            return
        st, refg = gfi.coherence(ctx, f"Vmap.generate|in_axes={variant}", prog, vals, r[0], d0)
        if st == "bad":
            return
        if st == "ok":
            want = sum(v for p, v in refg.by_path().items() if p in set(sub))
            if not (abs(float(r[1]) - want) <= R.tol(refg.abs_sum(), len(refg.sites))):
                ctx.violation(f"Vmap.generate|in_axes={variant}|weight-differs", {**d0, "constrained": [gfi.pstr(p) for p in sub], "weight": gfi.fnum(r[1]), "reference": want})
                return
    # update with new arguments and one constrained address
    vals1 = []
    for (cls, shape), v in zip(prog["ptypes"], vals):
        a = np.asarray(v)
        vals1.append(np.round(a + rng.normal(size=a.shape) * 0.4, 3).astype(np.float32).tolist() if cls == "f" else v)
    args1 = SP.to_jax_args(prog, vals1)
    refc = R.run(prog, vals1, chooser=R.prior_chooser(rng, safe=True))
    cons = R.restrict(refc.choices, {paths[-1]})
    r = meth("update", jax.jit(outer.update), tr, R.to_jax(cons), *args1)
    if r is None:
        return
    st, refu = gfi.coherence(ctx, f"Vmap.update|in_axes={variant}", prog, vals1, r[0], d0, allow_outside=True)
    if st == "bad":
        return
    if st == "ok" and refu.conds == ref0.conds or st == "ok":
        want = refu.total - ref0.total
        if math.isfinite(want) and not (abs(float(r[1]) - want) <= R.tol(refu.abs_sum() + ref0.abs_sum(), 2 * len(refu.sites))):
            ctx.violation(f"Vmap.update|in_axes={variant}|weight-differs", {**d0, "new_args": vals1, "weight": gfi.fnum(r[1]), "reference": want})
            return
    # regenerate one address
    sel_p = paths[0]
    sel = S.build(["tup", list(sel_p)])
    r = meth("regenerate", jax.jit(seed(outer.regenerate)), key(), tr, sel, *args)
    if r is None:
        return
    st, refr = gfi.coherence(ctx, f"Vmap.regenerate|in_axes={variant}", prog, vals, r[0], d0, allow_outside=True)
    if st == "bad":
        return
    if st == "ok" and refr.conds == ref0.conds:
        bo, bn = ref0.by_path(), refr.by_path()
        want = sum(bn.get(p, 0.0) - bo.get(p, 0.0) for p in set(bn) | set(bo) if p != sel_p)
        if not (abs(float(r[1]) - want) <= R.tol(refr.abs_sum() + ref0.abs_sum(), 2 * len(refr.sites))):
            ctx.violation(f"Vmap.regenerate|in_axes={variant}|weight-differs", {**d0, "selected": gfi.pstr(sel_p), "weight": gfi.fnum(r[1]), "reference": want})
            return
        ch1 = R.to_numpy(r[0].get_choices())
        for p, v in R.flat_leaves(ch1).items():
            if p != sel_p and not gfi.bit_equal(v, R.flat_leaves(ch0)[p]):
                ctx.violation(f"Vmap.regenerate|in_axes={variant}|unselected-value-changed", {**d0, "path": gfi.pstr(p)})
                return
    ctx.distinct("nontrivial", [SP.struct_hash(prog), variant])
    if case["gseed"][-1] % 16 == 0:
        ctx.sample({"program": SP.show(prog), "axis_variant": variant, "methods": ["simulate", "assess", "generate", "update", "regenerate"]})


def run_case(case, ctx):
    if case["kind"] == "fn":
        return _run_fn(case, ctx)
    return _run_gfi(case, ctx)
