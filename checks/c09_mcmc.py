"""C09 — mh, mala and hmc are reversible with respect to the posterior.

The kernels' internal randomness is replaced by probe sites
(genjax.inference.mcmc.uniform / .normal are looked up at call time): the host
logs every proposal-noise / momentum coordinate requested and scripts the
accept uniform just below and just above the *reference* acceptance
probability, so a wrong ratio flips an observable decision.

  mh     proposal = regenerate-from-prior (coherent, unselected/observed bit-equal);
         accepted iff u < min(1, exp(w_ref)),  w_ref = change in joint log density
         minus change in log prior of the selection (float64 reference)
  mala   one N(0,1) per coordinate of every selected leaf; proposal ==
         x + eps^2/2 grad + eps*noise (reference gradient by central differences);
         acceptance from reference forward/backward Gaussian densities
  hmc    one N(0,1) momentum per coordinate; float64 leapfrog reproduces the
         proposed position; acceptance == reference energy difference
  all    a rejected move returns the input trace bit-identically; accept flag saved
  exact  small discrete targets (incl. mixture indicator feeding a Cond with observed
         branches): transition matrix assembled from all outcome scripts of the real
         kernel satisfies detailed balance and stationarity w.r.t. the reference posterior
"""

from __future__ import annotations

import itertools
import math

import numpy as np

PROPERTY = "C09"
LEVEL = "exploration"
RULE = (
    "targets: programs from the spec grammar (SeedSequence([VERIF_SEED, 9, index])) with about a third of the "
    "addresses observed, plus hand-written mixture models; per target: mh on random selections, mala/hmc on "
    "selections of smooth continuous leaves (scalar, vector, inside Vmap/Scan/Cond), step sizes and leapfrog "
    "counts drawn per case; distinct_nontrivial = distinct (program structural hash, kernel, selected leaf set)"
)
ASSUMPTIONS = [
    "reference interpreter lib/refmodel.py, lib/mcmc_ref.py (float64, central-difference gradients)",
    "JAX API translation layer (DESIGN §2)",
    "kernel randomness observed by reassigning genjax.inference.mcmc.uniform/normal to probe distributions",
]
FLOORS = {
    "quick": {"mh_steps": 60, "mala_steps": 20, "hmc_steps": 20, "accept_brackets": 150, "reject_bit_equal": 20, "db_instances": 6, "vector_leaf_moves": 8, "support_exit_confirmed_by_reference": 8},
    "thorough": {"mh_steps": 700, "mala_steps": 300, "hmc_steps": 300, "accept_brackets": 2000, "reject_bit_equal": 500, "db_instances": 60, "vector_leaf_moves": 80, "support_exit_confirmed_by_reference": 30},
}
TIMEOUT_S = {"quick": 1800, "thorough": 7200}
CLEAR_CACHES_EVERY = {"quick": 0, "thorough": 6}  # see lib/worker.py
N_CASES = {"quick": 56, "thorough": 500}
TAG_U, TAG_N = 9001, 9002
SMOOTH = ("normal", "p_normal", "mvn")
GEN_CFG = {"max_stmts": 3}
SMOOTH_DISTS = ["p_normal", "normal", "p_normal", "mvn", "p_flip", "p_cat", "p_uniform", "normal"]


def plan(tier, seed):
    cases = []
    n = N_CASES[tier]
    for i in range(n):
        kind = ["generated", "generated", "generated", "db"][i % 4]
        fam = ["probe", "mixed", "probe", "discrete"][i % 4]
        cases.append({"kind": kind, "family": fam, "gseed": [seed, 9, i]})
    for j in range(6 if tier == "quick" else 24):
        cases.append({"kind": "mixture", "gseed": [seed, 909, j]})
    # gradient kernels on latents with bounded support: a proposal that leaves the support has target density 0,
    # so it is rejected and the input comes back unchanged
    for j, dist in enumerate(SUPPORT_DISTS):
        for r in range(1 if tier == "quick" else 4):
            cases.append({"kind": "support", "dist": dist, "gseed": [seed, 90909, j, r]})
    return cases


def worker_setup(ctx):
    import genjax.inference.mcmc as mc

    from lib import probes

    mc.uniform = probes.probe("uniform", TAG_U)
    mc.normal = probes.probe("normal", TAG_N)


# ---------------------------------------------------------------------------
def _mk_sel(ps):
    e = ["none"]
    for p in ps:
        t = ["tup", list(p)] if len(p) > 1 else ["str", p[0]]
        e = t if e == ["none"] else ["or", e, t]
    return e


def _tree_bit_equal(a, b):
    import jax

    from lib import gfi

    la, lb = jax.tree_util.tree_leaves(a), jax.tree_util.tree_leaves(b)
    return len(la) == len(lb) and all(gfi.bit_equal(np.asarray(x), np.asarray(y)) for x, y in zip(la, lb))


def _tree_close(a, b, rel=2e-5):
    import jax

    la, lb = jax.tree_util.tree_leaves(a), jax.tree_util.tree_leaves(b)
    if len(la) != len(lb):
        return False
    for x, y in zip(la, lb):
        x, y = np.asarray(x), np.asarray(y)
        if x.shape != y.shape or x.dtype != y.dtype:
            return False
        if x.dtype.kind == "f":
            if not np.all(np.abs(x.astype(np.float64) - y.astype(np.float64)) <= rel * (1.0 + np.abs(y.astype(np.float64)))):
                return False
        elif not np.array_equal(x, y):
            return False
    return True


def _under(p, prefixes):
    return any(p[: len(q)] == q for q in prefixes)


def _cond_paths(prog, prefix=()):
    """static path of every Cond -> set of leaf paths below it"""
    from lib import spec

    out = {}
    for st in prog["body"]:
        k = st["k"]
        if k == "cond":
            p = prefix + (st["addr"],)
            out[p] = set(spec.leaf_paths(st["T"], p))
            out.update(_cond_paths(st["T"], p))
        elif k == "call":
            out.update(_cond_paths(st["prog"], prefix + (st["addr"],)))
        elif k == "vmap" and "dist" not in st["callee"]:
            out.update(_cond_paths(st["callee"], prefix + (st["addr"],)))
        elif k == "scan":
            out.update(_cond_paths(st["step"], prefix + (st["addr"],)))
    return out


class Stepper:
    """Runs one kernel step with scripted accept uniform and host-controlled noise."""

    def __init__(self, kernel_fn):
        import jax
        from genjax import seed, state

        self.fn = jax.jit(seed(state(kernel_fn)))

    def run(self, ctx, key, host_seed, u, tr, *extra):
        from lib import probes

        probes.HOST.reset("observe", host_seed, cont_values={TAG_U: [u]})
        res = ctx.call(self.fn, key, tr, *extra)
        events = list(probes.HOST.events)
        if hasattr(res, "brief"):
            return res, None, events
        new_tr, st = res
        acc = st.get("accept", None)
        return new_tr, acc, events


def _same_deliveries(ev_a, ev_b):
    """Did the host hand the same values to the same sites in both runs?  The probe call-backs are unordered: when
    two independent sites are evaluated in another order by XLA, the host generator's values reach other sites and
    the two runs are not the same experiment (seen once in ~8000 thorough kernel steps)."""
    def sig(evs):
        vals = [(e.tag, np.asarray(e.value).tolist(), [np.asarray(p).tolist() for p in e.params]) for e in evs if e.tag != TAG_U]
        # the flat value sequence is the same whatever the order of the calls (values are drawn in call order):
        # the sizes of the consecutive host calls tell which site was served first
        blocks, last = [], None
        for e in evs:
            if e.tag == TAG_U:
                continue
            c = (e.tag, getattr(e, "call", None))
            if c != last:
                blocks.append([e.tag, 0])
                last = c
            blocks[-1][1] += 1
        return vals, blocks

    return sig(ev_a) == sig(ev_b)


def _bracket(ctx, stepper, key, host_seed, tr0, trA, log_alpha_ref, tol_w, d, kname, base_events=None):
    """u just below alpha must accept (same proposal), u just above must reject (input unchanged)."""
    alpha = math.exp(min(0.0, log_alpha_ref))
    delta = 2e-3 + 30 * tol_w
    ok = True
    lo = alpha * (1 - delta)
    if lo > 1e-30:
        t, acc, ev = stepper.run(ctx, key, host_seed, float(np.float32(lo)), tr0)
        ctx.count("accept_brackets")
        if hasattr(t, "brief"):
            from lib import gfi

            ctx.violation(gfi.raise_key(kname, t), {**d, **t.brief()})
            return False
        if base_events is not None and not _same_deliveries(base_events, ev):
            ctx.count("bracket_skipped_callback_order_differs")
            return False
        if bool(np.asarray(acc)) and not _tree_close(t, trA):
            # equal-sized noise blocks served in another order cannot be told apart from the deliveries: repeat the
            # run; a kernel that really proposes something else never reproduces the first run's proposal
            for _ in range(3):
                t2, acc2, ev2 = stepper.run(ctx, key, host_seed, float(np.float32(lo)), tr0)
                ctx.count("bracket_repeats")
                if not hasattr(t2, "brief") and bool(np.asarray(acc2)) and _tree_close(t2, trA):
                    t, acc = t2, acc2
                    break
        if bool(np.asarray(acc)) and not _tree_bit_equal(t, trA) and _tree_close(t, trA):
            # the same accepted proposal up to float32 rounding: two executions of one compiled program are not
            # promised to be bit-identical by C09 (a rejected move IS compared bitwise with the input, below)
            ctx.count("bracket_accepted_trace_equal_up_to_rounding")
        elif not bool(np.asarray(acc)) or not _tree_bit_equal(t, trA):
            ctx.violation(
                f"{kname}|rejects-below-reference-acceptance-probability",
                {**d, "u": lo, "reference_alpha": alpha, "accept_flag": bool(np.asarray(acc))},
            )
            ok = False
    hi = alpha * (1 + delta)
    if hi < 0.9999:
        t, acc, ev = stepper.run(ctx, key, host_seed, float(np.float32(hi)), tr0)
        ctx.count("accept_brackets")
        if hasattr(t, "brief"):
            from lib import gfi

            ctx.violation(gfi.raise_key(kname, t), {**d, **t.brief()})
            return False
        if base_events is not None and not _same_deliveries(base_events, ev):
            ctx.count("bracket_skipped_callback_order_differs")
            return False
        if bool(np.asarray(acc)):
            ctx.violation(
                f"{kname}|accepts-above-reference-acceptance-probability",
                {**d, "u": hi, "reference_alpha": alpha},
            )
            ok = False
        else:
            ctx.count("reject_bit_equal")
            if not _tree_bit_equal(t, tr0):
                ctx.violation(f"{kname}|rejected-move-changed-the-trace", {**d, "u": hi})
                ok = False
    else:
        ctx.count("bracket_upper_not_applicable")
    return ok


SUPPORT_DISTS = ["exponential", "gamma", "beta", "uniform", "half_normal", "log_normal", "inverse_gamma"]


def _run_support(case, ctx):
    import jax
    import jax.numpy as jnp
    import genjax
    import scipy.stats as st
    from genjax import gen, sel, seed
    from genjax.inference import hmc, mala

    from lib import gfi, probes

    rng = np.random.default_rng(case["gseed"])
    ctx.evaluation()
    name = case["dist"]
    dist = getattr(genjax.distributions, name)
    # parameters (as genjax documents them), support and float64 reference log density
    a, b = round(float(rng.uniform(1.5, 3.0)), 3), round(float(rng.uniform(0.8, 2.0)), 3)
    cfg = {
        "exponential": ((b,), (0.0, np.inf), lambda x: st.expon(scale=1 / b).logpdf(x)),
        "gamma": ((a, b), (0.0, np.inf), lambda x: st.gamma(a, scale=1 / b).logpdf(x)),
        "beta": ((a, b + 1), (0.0, 1.0), lambda x: st.beta(a, b + 1).logpdf(x)),
        "uniform": ((0.0, b), (0.0, b), lambda x: st.uniform(0, b).logpdf(x)),
        "half_normal": ((b,), (0.0, np.inf), lambda x: st.halfnorm(scale=b).logpdf(x)),
        "log_normal": ((0.1, b / 2), (0.0, np.inf), lambda x: st.lognorm(s=b / 2, scale=np.exp(0.1)).logpdf(x)),
        "inverse_gamma": ((a, b), (0.0, np.inf), lambda x: st.invgamma(a, scale=b).logpdf(x)),
    }[name]
    params, (lo, hi), ref_lp = cfg
    sig = 0.7
    yobs = float(np.round(rng.normal(0.5, 0.5), 3))

    @gen
    def model():
        s = dist(*params) @ "s"
        genjax.normal(s, sig) @ "y"
        return s

    s0 = float(np.float32(min(0.3, 0.4 * (hi if np.isfinite(hi) else 1.0))))
    tr0, _ = jax.jit(seed(model.generate))(jax.random.key(0), {"s": jnp.float32(s0), "y": jnp.float32(yobs)})  # jit: all leaves float32 arrays
    base = {"family": "bounded-support", "model": f"s ~ {name}{params}; y ~ normal(s, {sig})", "observed": {"y": yobs}, "s0": s0}
    if not np.isfinite(float(tr0.get_score())):
        raise AssertionError("harness: start state outside the support")

    def logpost(x):
        return float(ref_lp(x)) - 0.5 * ((yobs - x) / sig) ** 2

    for kname in ("mala", "hmc"):
        for eps, z in ((0.5, -3.0), (0.9, -2.5), (0.5, 3.5)):
            if kname == "mala":
                stepper = Stepper(lambda t, _e=eps: mala(t, sel("s"), _e))
            else:
                stepper = Stepper(lambda t, _e=eps: hmc(t, sel("s"), _e, 2))
            d = {**base, "kernel": kname, "step_size": eps, "scripted_noise": z}
            probes.HOST.reset("observe", 0, cont_values={TAG_U: [1e-30], TAG_N: [z]})
            res = ctx.call(stepper.fn, jax.random.key(int(rng.integers(2**31))), tr0)
            ctx.count("support_exit_probes")
            if hasattr(res, "brief"):
                ctx.violation(gfi.raise_key(kname, res), {**d, **res.brief()})
                continue
            trA, stt = res
            acc = bool(np.asarray(stt.get("accept", False)))
            s_new = float(np.asarray(trA.get_choices()["s"]))
            # float64 reference of the MALA proposal (central differences inside the support)
            outside_ref = None
            if kname == "mala":
                h = 1e-5
                g = (logpost(s0 + h) - logpost(s0 - h)) / (2 * h)
                prop = s0 + 0.5 * eps * eps * g + eps * z
                outside_ref = bool(prop <= lo or prop >= hi)
                if outside_ref:
                    ctx.count("support_exit_confirmed_by_reference")
            if acc:
                inside = lo < s_new < hi and np.isfinite(float(trA.get_score()))
                if not inside:
                    ctx.violation(f"{kname}|bounded-support|accepted-state-outside-support",
                                  {**d, "distribution": name, "support": [lo, hi], "accepted_value": s_new, "score": gfi.fnum(trA.get_score()),
                                   "genjax_logpdf_at_accepted_value": gfi.fnum(dist.logpdf(jnp.float32(s_new), *params))})
                elif outside_ref:
                    ctx.violation(f"{kname}|bounded-support|accepted-although-reference-proposal-leaves-support", {**d, "accepted_value": s_new})
            else:
                ctx.count("support_exit_rejected")
                if not _tree_bit_equal(trA, tr0):
                    ctx.violation(f"{kname}|bounded-support|rejected-move-changed-the-trace", {**d, "value": s_new})
    ctx.distinct("nontrivial", ["support", name])


def run_case(case, ctx):
    if case["kind"] == "mixture":
        return _run_mixture(case, ctx)
    if case["kind"] == "support":
        return _run_support(case, ctx)
    if case["kind"] == "db":
        return _run_db_generated(case, ctx)
    return _run_generated(case, ctx)


# ---------------------------------------------------------------------------
def _setup_target(case, ctx, rng, obs_rule="third"):
    import jax
    from genjax import seed

    from lib import gfi, spec
    from lib import refmodel as R

    cfg = dict(GEN_CFG)
    if case["family"] != "discrete":
        cfg["dists"] = SMOOTH_DISTS
    g, prog = gfi.make_case_program(case["gseed"], case["family"], ctx.tier, cfg)
    base = {"program": spec.show(prog), "family": case["family"]}
    gf = ctx.call(spec.build, prog)
    if hasattr(gf, "brief"):
        ctx.violation(gfi.raise_key("build", gf), {**base, **gf.brief()})
        return None
    lp = spec.leaf_paths(prog)
    paths = sorted(lp)
    if len(paths) < 2:
        return None
    conds = _cond_paths(prog)
    if obs_rule == "third":
        nobs = max(1, len(paths) // 3)
        obs = set(paths[int(i)] for i in rng.choice(len(paths), size=nobs, replace=False))
    else:  # observe everything below every Cond (mixture-style: branch choices observed)
        obs = set()
        for cp, leaves in conds.items():
            obs |= leaves
        rest = [p for p in paths if p not in obs]
        if len(rest) > 1:
            obs.add(rest[int(rng.integers(len(rest)))])
    free = [p for p in paths if p not in obs]
    if not free:
        return None
    vals = g.arg_values(prog)
    args = spec.to_jax_args(prog, vals)
    ref0 = R.run(prog, vals, chooser=R.prior_chooser(rng, safe=True))
    if ref0.min_margin < 1e-4 or not math.isfinite(ref0.total):
        return None
    obs_np = R.restrict(ref0.choices, obs)
    gen = jax.jit(seed(gf.generate))
    # every third target receives its last parameter by keyword: the trace then records (positional, {name: value})
    # and the kernels must score / differentiate the model under those keyword arguments
    kwargs = {}
    if not prog.get("bare") and len(prog["params"]) >= 1 and case["gseed"][-1] % 3 == 1:
        kwargs = {prog["params"][-1]: args[-1]}
        args = args[:-1]
        base["keyword_argument"] = prog["params"][-1]
        ctx.count("targets_with_toplevel_kwargs")
    return dict(g=g, prog=prog, gf=gf, lp=lp, paths=paths, conds=conds, obs=obs, free=free, vals=vals, args=args,
                kwargs=kwargs, obs_np=obs_np, gen=gen, base=base)


def _dist_of(lp, p):
    st = lp[p][0]
    return st["callee"]["dist"] if st["k"] == "vmap" else st["dist"]


def _run_generated(case, ctx):
    import jax
    from genjax.inference import hmc, mala, mh

    from lib import gfi, probes, spec
    from lib import mcmc_ref as M
    from lib import refmodel as R
    from lib import selspec as S

    rng = np.random.default_rng(case["gseed"] + [31])
    ctx.evaluation()
    T = _setup_target(case, ctx, rng)
    if T is None:
        ctx.count("skipped_target")
        return
    prog, gf, lp, vals, args = T["prog"], T["gf"], T["lp"], T["vals"], T["args"]
    h = spec.struct_hash(prog)
    base = {**T["base"], "args": vals, "observed": sorted(gfi.pstr(p) for p in T["obs"])}
    r = ctx.call(T["gen"], jax.random.key(int(rng.integers(2**31))), R.to_jax(T["obs_np"]), *args, **T["kwargs"])
    if hasattr(r, "brief"):
        ctx.violation(gfi.raise_key("generate", r), {**base, **r.brief()})
        return
    tr0 = r[0]
    ch0 = R.to_numpy(tr0.get_choices())
    ref_old = R.run(prog, vals, choices=ch0)
    if ref_old.min_margin < 1e-4 or not math.isfinite(ref_old.total):
        ctx.count("skipped_near_tie")
        return
    free = T["free"]
    smooth = [p for p in free if _dist_of(lp, p) in SMOOTH]

    # ------------------------------------------------------------------ mh
    for _ in range(2 if ctx.tier == "quick" else 4):
        k = int(rng.integers(1, min(3, len(free)) + 1))
        ps = [free[int(i)] for i in rng.choice(len(free), size=k, replace=False)]
        expr = _mk_sel(ps)
        sel = S.build(expr)
        sset = set(ps)
        stepper = Stepper(lambda t, _s=sel: mh(t, _s))
        key = jax.random.key(int(rng.integers(2**31)))
        hs = int(rng.integers(2**31))
        d = {**base, "kernel": "mh", "selection": S.show(expr), "old_choices": ch0}
        trA, acc, events = stepper.run(ctx, key, hs, 1e-30, tr0)
        ctx.count("mh_steps")
        if hasattr(trA, "brief"):
            ctx.violation(gfi.raise_key("mh", trA), {**d, **trA.brief()})
            continue
        nu = sum(1 for e in events if e.tag == TAG_U)
        if nu != 1:
            ctx.violation("mh|accept-uniform-draws", {**d, "uniform_draws": nu})
            continue
        if acc is None:
            ctx.violation("mh|accept-flag-not-saved", d)
            continue
        if not bool(np.asarray(acc)):
            ctx.count("mh_proposal_zero_density")
            if not _tree_bit_equal(trA, tr0):
                ctx.violation("mh|rejected-move-changed-the-trace", {**d, "u": 1e-30})
            continue
        st, ref_new = gfi.coherence(ctx, "mh", prog, vals, trA, d, None, None, allow_outside=True)
        if st != "ok":
            continue
        chA = R.to_numpy(trA.get_choices())
        switched = {k[0] for k, v in ref_new.conds.items() if k in ref_old.conds and ref_old.conds[k] != v}
        bad = False
        for p, v in R.flat_leaves(chA).items():
            if p not in sset and not _under(p, switched) and not gfi.bit_equal(v, R.flat_leaves(ch0)[p]):
                ctx.violation("mh|unselected-or-observed-choice-changed", {**d, "path": gfi.pstr(p)})
                bad = True
                break
        if bad:
            continue
        # outside the claim: a switched Cond that still has unobserved choices of its own
        if any(T["conds"].get(cp, set()) - T["obs"] for cp in switched):
            ctx.count("mh_switch_with_unobserved_branch_choices_outside_claim")
            continue
        if switched:
            ctx.count("mh_indicator_moves")
        w_ref = M.mh_weight(ref_old, ref_new, sset)
        tol_w = R.tol(ref_old.abs_sum() + ref_new.abs_sum(), len(ref_old.sites) + len(ref_new.sites))
        d2 = {**d, "proposal": chA, "reference_log_weight": w_ref}
        if _bracket(ctx, stepper, key, hs, tr0, trA, w_ref, tol_w, d2, "mh", events):
            ctx.distinct("nontrivial", [h, "mh", sorted(gfi.pstr(p) for p in sset)])

    # ----------------------------------------------------------- mala / hmc
    if not smooth:
        ctx.count("no_smooth_leaves")
        return
    sampled = False
    for kname in ("mala", "hmc"):
        k = int(rng.integers(1, min(2, len(smooth)) + 1))
        ps = [smooth[int(i)] for i in rng.choice(len(smooth), size=k, replace=False)]
        expr = _mk_sel(ps)
        sel = S.build(expr)
        eps = float(np.round(rng.uniform(0.03, 0.15), 3))
        L = int(rng.integers(1, 4))
        if kname == "mala":
            stepper = Stepper(lambda t, _s=sel, _e=eps: mala(t, _s, _e))
        else:
            stepper = Stepper(lambda t, _s=sel, _e=eps, _l=L: hmc(t, _s, _e, _l))
        key = jax.random.key(int(rng.integers(2**31)))
        hs = int(rng.integers(2**31))
        d = {**base, "kernel": kname, "selection": S.show(expr), "step_size": eps, "n_steps": L, "old_choices": ch0}
        trA, acc, events = stepper.run(ctx, key, hs, 1e-30, tr0)
        ctx.count(kname + "_steps")
        if hasattr(trA, "brief"):
            ctx.violation(gfi.raise_key(kname, trA), {**d, **trA.brief()})
            continue
        target = M.Target(prog, vals, ch0, ps)
        ncoord = sum(target.sizes)
        if any(len(s) > 0 for s in target.shapes):
            ctx.count("vector_leaf_moves")
        noise_ev = [e for e in events if e.tag == TAG_N]
        if len(noise_ev) != ncoord or any(abs(float(e.params[0])) > 0 or float(e.params[1]) != 1.0 for e in noise_ev):
            ctx.violation(
                f"{kname}|noise-draws-not-one-standard-normal-per-coordinate",
                {**d, "coordinates": ncoord, "draws": len(noise_ev), "params": [e.as_dict()["params"] for e in noise_ev[:4]]},
            )
            continue
        if acc is None or not bool(np.asarray(acc)):
            ctx.count(kname + "_proposal_rejected_at_u0")
            if not _tree_bit_equal(trA, tr0):
                ctx.violation(f"{kname}|rejected-move-changed-the-trace", {**d, "u": 1e-30})
            continue
        st, ref_new = gfi.coherence(ctx, kname, prog, vals, trA, d, None, None, allow_outside=True)
        if st != "ok":
            continue
        chA = R.to_numpy(trA.get_choices())
        l0 = R.flat_leaves(ch0)
        bad = False
        for p, v in R.flat_leaves(chA).items():
            if p not in ps and not gfi.bit_equal(v, l0[p]):
                # a moved continuous parent may switch a Cond: its hidden values become visible
                switched = {k[0] for k, vv in ref_new.conds.items() if k in ref_old.conds and ref_old.conds[k] != vv}
                if _under(p, switched):
                    continue
                ctx.violation(f"{kname}|unselected-or-observed-choice-changed", {**d, "path": gfi.pstr(p)})
                bad = True
                break
        if bad:
            continue
        if ref_new.conds != ref_old.conds:
            ctx.count(kname + "_switched_cond_outside_claim")
            continue
        # blocks of logged noise (one host call per leaf), matched to leaves order-free
        blocks = {}
        for e in noise_ev:
            blocks.setdefault(e.call, []).append(float(e.value))
        blocks = [np.array(b) for _, b in sorted(blocks.items())]
        xA = target.pack([M.get_leaf(M.to_f64(chA), p) for p in target.paths])
        best = None
        for perm in itertools.permutations(range(len(blocks))):
            if [len(blocks[i]) for i in perm] != target.sizes:
                continue
            noise = np.concatenate([blocks[i] for i in perm])
            if kname == "mala":
                xp, la, info = M.mala_reference(target, noise, eps)
            else:
                xp, la, info = M.hmc_reference(target, noise, eps, L)
            err = float(np.max(np.abs(xp - xA) / (1.0 + np.abs(xp))))
            if best is None or err < best[0]:
                best = (err, xp, la, info, noise)
        if target.min_margin < 1e-3:
            ctx.count("skipped_near_tie")
            continue
        if best is None:
            ctx.violation(f"{kname}|noise-blocks-do-not-match-leaf-shapes", {**d, "blocks": [len(b) for b in blocks], "leaves": target.sizes})
            continue
        err, xp, la, info, noise = best
        d2 = {**d, "proposal": chA, "reference_proposal": xp.tolist(), "noise": noise.tolist(),
              "reference_log_alpha": la, "info": {k: (v.tolist() if hasattr(v, "tolist") else v) for k, v in info.items()}}
        if err > 2e-4:
            ctx.violation(f"{kname}|proposal-differs-from-reference", {**d2, "max_rel_err": err})
            continue
        ctx.count(kname + "_proposals_matched")
        tol_w = R.tol(ref_old.abs_sum() + ref_new.abs_sum() + ncoord * 3.0, 2 * len(ref_old.sites) + 2 * ncoord) * 3
        if _bracket(ctx, stepper, key, hs, tr0, trA, la, tol_w, d2, kname, events):
            ctx.distinct("nontrivial", [h, kname, sorted(gfi.pstr(p) for p in ps)])
            if not sampled:
                sampled = True
                ctx.sample({"program": spec.show(prog), "kernel": kname, "selection": S.show(expr), "step_size": eps,
                            "n_steps": L, "noise_logged": noise.tolist(), "reference_log_alpha": la})


# ---------------------------------------------------------------------------
# exact detailed balance on small discrete targets
# ---------------------------------------------------------------------------
def _detailed_balance(ctx, prog, gf, vals, args, obs_np, sel_paths, base, kwargs=None):
    import jax
    from genjax import seed
    from genjax.inference import mh

    from lib import gfi, probes
    from lib import mcmc_ref as M
    from lib import refmodel as R
    from lib import selspec as S

    # state space: all completions of the unobserved discrete addresses
    states = []
    try:
        for res in gfi.enumerate_ref(prog, vals, choices=obs_np, max_leaves=64):
            if res.min_margin < 1e-4:
                ctx.count("skipped_near_tie")
                return
            states.append(res)
    except (OverflowError, ValueError):
        ctx.count("db_skipped_state_space")
        return
    if not (2 <= len(states) <= 16):
        ctx.count("db_skipped_state_space")
        return
    keys = [gfi.choice_key(s.choices) for s in states]
    index = {k: i for i, k in enumerate(keys)}
    logpi = np.array([s.total for s in states])
    pi = np.exp(logpi - logpi.max())
    pi /= pi.sum()
    expr = _mk_sel(sel_paths)
    sel = S.build(expr)
    stepper = Stepper(lambda t, _s=sel: mh(t, _s))
    gen = jax.jit(seed(gf.generate))
    n = len(states)
    P = np.zeros((n, n))
    key = jax.random.key(5)
    d0 = {**base, "kernel": "mh", "selection": S.show(expr), "states": n}
    scripts_total = 0
    for i, sres in enumerate(states):
        r = ctx.call(gen, jax.random.key(0), R.to_jax(sres.choices), *args, **(kwargs or {}))
        if hasattr(r, "brief"):
            ctx.violation(gfi.raise_key("generate", r), {**d0, **r.brief()})
            return
        tr0 = r[0]

        def run_u(u, prefix):
            probes.HOST.reset("script", 0, script=prefix, cont_values={TAG_U: [u]})
            out = stepper.fn(key, tr0)
            return out, list(probes.HOST.events)

        # DFS over discrete outcome scripts with u ~ 0 (always accept)
        stack = [[]]
        row_mass = 0.0
        while stack:
            prefix = stack.pop()
            (trA, stA), events = run_u(1e-30, prefix)
            dev = [e for e in events if e.kind in probes.DISCRETE]
            path = [e.chosen for e in dev]
            prob = float(np.prod([e.probs[e.chosen] for e in dev])) if dev else 1.0
            for j in range(len(prefix), len(dev)):
                for alt in range(len(dev[j].probs)):
                    if alt != path[j] and dev[j].probs[alt] > 0:
                        stack.append(path[:j] + [alt])
            scripts_total += 1
            if scripts_total > (400 if ctx.tier == "quick" else 4000):
                ctx.count("db_skipped_too_many_scripts")
                return
            chA = R.to_numpy(trA.get_choices())
            kA = gfi.choice_key(chA)
            if kA not in index:
                ctx.violation("mh|proposal-outside-posterior-support", {**d0, "from": sres.choices, "proposal": chA})
                return
            j = index[kA]
            w_ref = M.mh_weight(sres, states[j], set(sel_paths))
            alpha = math.exp(min(0.0, w_ref))
            # verify the acceptance probability actually applied by bracketing
            delta = 5e-3
            if alpha * (1 - delta) > 1e-30:
                (tB, sB), _ = run_u(float(np.float32(alpha * (1 - delta))), path)
                ctx.count("accept_brackets")
                if not bool(np.asarray(sB["accept"])):
                    ctx.violation("mh|rejects-below-reference-acceptance-probability",
                                  {**d0, "from": sres.choices, "proposal": chA, "reference_alpha": alpha})
                    return
            if alpha * (1 + delta) < 0.9999:
                (tC, sC), _ = run_u(float(np.float32(alpha * (1 + delta))), path)
                ctx.count("accept_brackets")
                if bool(np.asarray(sC["accept"])):
                    ctx.violation("mh|accepts-above-reference-acceptance-probability",
                                  {**d0, "from": sres.choices, "proposal": chA, "reference_alpha": alpha})
                    return
                ctx.count("reject_bit_equal")
                if not _tree_bit_equal(tC, tr0):
                    ctx.violation("mh|rejected-move-changed-the-trace", {**d0, "from": sres.choices})
                    return
            P[i, j] += prob * alpha
            P[i, i] += prob * (1 - alpha)
            row_mass += prob
        if abs(row_mass - 1.0) > 1e-6:
            ctx.violation("mh|script-mass-not-1", {**d0, "row": i, "mass": row_mass})
            return
    ctx.count("db_instances")
    ctx.count("db_scripts", scripts_total)
    flow = pi[:, None] * P
    db_err = float(np.max(np.abs(flow - flow.T)))
    st_err = float(np.max(np.abs(pi @ P - pi)))
    if db_err > 2e-5 or st_err > 2e-5:
        ctx.violation("mh|transition-matrix-not-reversible-wrt-posterior",
                      {**d0, "detailed_balance_error": db_err, "stationarity_error": st_err, "pi": pi.tolist(), "P": P.tolist()})
        return
    ctx.sample({"kind": "exact-detailed-balance", "program": base["program"], "selection": S.show(expr), "states": n,
                "scripts": scripts_total, "detailed_balance_error": db_err, "stationarity_error": st_err, "exhaustive": True})
    return True


def _run_db_generated(case, ctx):
    from lib import gfi, spec
    from lib import refmodel as R

    rng = np.random.default_rng(case["gseed"] + [32])
    ctx.evaluation()
    T = _setup_target(case, ctx, rng, obs_rule="conds")
    if T is None or not spec.all_discrete(T["prog"]):
        ctx.count("skipped_target")
        return
    free = T["free"]
    base = {**T["base"], "args": T["vals"], "observed": sorted(gfi.pstr(p) for p in T["obs"])}
    for _ in range(2):
        k = int(rng.integers(1, min(2, len(free)) + 1))
        ps = [free[int(i)] for i in rng.choice(len(free), size=k, replace=False)]
        r = ctx.call(_detailed_balance, ctx, T["prog"], T["gf"], T["vals"], T["args"], T["obs_np"], ps, base, T["kwargs"])
        if hasattr(r, "brief"):
            ctx.violation(gfi.raise_key("mh", r), {**base, **r.brief()})
        elif r:
            ctx.distinct("nontrivial", [spec.struct_hash(T["prog"]), "mh-db", sorted(gfi.pstr(p) for p in ps)])


# ---------------------------------------------------------------------------
def _mixture_spec(rng):
    """z ~ flip; (w ~ flip;) y ~ Cond(branch_T, branch_F)(z, ...) with the branches' choices observed."""
    c = lambda v: ["c", round(float(v), 3)]  # noqa: E731
    two = rng.random() < 0.5
    T = {"params": ["m"], "ptypes": [["f", []]], "body": [
        {"k": "site", "addr": "y", "dist": "normal", "args": [["add", ["v", "m"], c(rng.normal())], c(rng.uniform(0.5, 1.5))], "tag": 11},
        {"k": "site", "addr": "k", "dist": "p_cat", "args": [["stack", [c(rng.normal()), c(rng.normal())]]], "tag": 12}], "ret": ["v", "y"]}
    F = {"params": ["m"], "ptypes": [["f", []]], "body": [
        {"k": "site", "addr": "y", "dist": "normal", "args": [["add", ["v", "m"], c(rng.normal() + 1.5)], c(rng.uniform(0.5, 1.5))], "tag": 13},
        {"k": "site", "addr": "k", "dist": "p_cat", "args": [["stack", [c(rng.normal()), c(rng.normal())]]], "tag": 14}], "ret": ["v", "y"]}
    body = [{"k": "site", "addr": "z", "dist": "p_flip", "args": [c(rng.uniform(0.2, 0.8))], "tag": 1}]
    pred = ["v", "z"]
    if two:
        body.append({"k": "site", "addr": "w", "dist": "p_flip", "args": [["prob", ["asf", ["v", "z"]]]], "tag": 2})
        pred = ["v", "w"] if rng.random() < 0.5 else ["v", "z"]
    # in half of the models the indicator also changes the Cond's *arguments*, so one
    # move both switches the branch and re-parameterises the (observed) branch choices
    arg = ["v", "p0"]
    if rng.random() < 0.5:
        arg = ["add", ["v", "p0"], ["mul", c(rng.normal() * 1.5), ["asf", pred]]]
    body.append({"k": "cond", "addr": "obs", "T": T, "F": F, "pred": pred, "args": [arg]})
    return {"params": ["p0"], "ptypes": [["f", []]], "body": body, "ret": ["v", "obs"]}


def _run_mixture(case, ctx):
    from lib import gfi, spec
    from lib import refmodel as R

    rng = np.random.default_rng(case["gseed"])
    ctx.evaluation()
    prog = _mixture_spec(rng)
    gf = spec.build(prog)
    vals = [float(np.float32(rng.normal()))]
    args = spec.to_jax_args(prog, vals)
    obs_np = {"obs": {"y": np.float32(rng.normal() + 0.7), "k": np.int32(rng.integers(2))}}
    base = {"program": spec.show(prog), "family": "mixture", "args": vals, "observed": ["obs/k", "obs/y"], "observations": obs_np}
    free = [p for p in spec.leaf_paths(prog) if p[0] != "obs"]
    for ps in ([free[0]], free):
        r = ctx.call(_detailed_balance, ctx, prog, gf, vals, args, obs_np, ps, base)
        if hasattr(r, "brief"):
            ctx.violation(gfi.raise_key("mh", r), {**base, **r.brief()})
        elif r:
            ctx.count("mixture_instances")
            ctx.distinct("nontrivial", [spec.struct_hash(prog), "mh-mixture", sorted(gfi.pstr(p) for p in ps)])
