"""C17 — the ELBO objective is unbiased, tight at the posterior, and ascended by VI.

Code under test: ``genjax.inference.vi`` (``elbo_factory``, ``optimize_vi``, ``elbo_vi``,
``mean_field_normal_family``, ``full_covariance_normal_family``), through it
``Expectation.estimate / jvp_estimate / grad_estimate`` and ``Fn.merge``.

Workload: conjugate linear-Gaussian targets written as @gen functions (scalar
normal-normal, multivariate linear-Gaussian with vmapped-normal or MVN
observations, independent-normal prior, a two-level chain with nested
addresses) with numbers drawn from VERIF_SEED; variational families: the two
library families with both estimators and hand-written @gen families (incl.
mixed reparam / reinforce sites, nested addresses, scalar positional parameters).

Monitors (oracle = lib/c17_ref.py, float64 numpy, two independent routes cross-checked):

  per-draw   the target body carries a jax.debug.callback probe (harness code in
             the *model*, nothing in /repo) that emits the latent values and the
             observed values the model actually saw.  With z known, every draw is
             decided deterministically:
               estimate            == log p(y, z) - log q(z; theta)   (== log p(y) at the exact posterior)
               jvp_estimate        primal as above, tangent == <per-draw gradient, v>
               grad_estimate       == d/dtheta F(theta; noise) + F * d/dtheta sum_{score sites} log q
                                   (pathwise identity for reparam sites, score-function identity for
                                   reinforce sites; noise recovered from z)
               observed values seen by the model == the constraint, bitwise
  z-test     mean of N seeded draws (jax.vmap over keys) of the value and of every gradient
             component == closed-form ELBO / gradient; mean <= log p(y); at the exact posterior
             ALL N draws equal log p(y).  Thresholds: Bonferroni over all tests of the run,
             family-wise false alarm <= 1e-9, with a skewness (Edgeworth) correction computed
             from the exact third moment of the reference per-draw law.
  update     the ELBO object handed to optimize_vi (or produced by vi.elbo_factory inside elbo_vi,
             re-assigned from the harness) is wrapped so each grad_estimate call emits
             (params_in, grad_out) through an ordered jax.debug.callback.  Exact checks:
             #calls == n_iterations == len(history); params_in_0 == init; history[i] is a correctly
             rounded float32 value of params_in_i + lr*grad_i (two-rounding or fused-multiply-add:
             XLA CPU contracts the multiply-add inside jit, measured 12% of elements differ, so BOTH
             candidates are computed exactly and either is accepted, nothing else);
             params_in_{i+1} == history[i] and final == history[-1] bitwise.
  overlap    (retired, see plan()) a family that also samples an observed address.
"""

from __future__ import annotations

import json
import math
import os

import numpy as np

from lib import c17_ref as R

PROPERTY = "C17"
LEVEL = "exploration"
RULE = (
    "cases = (conjugate target kind, latent dim d, #observations, variational family, estimator per site) with all "
    "numbers drawn from VERIF_SEED and rounded to float32; each is run at the exact-posterior parameters (where the "
    "family can represent it; full-covariance with a rotated, non-triangular factor) and at random parameter points; "
    "distinct_nontrivial = distinct (target kind, d, k, family, estimators, point kind) with >= 2 observations, "
    "non-zero gradient and a non-symmetric factor for full covariance; update-rule cases = (family, n_iterations in "
    "{1,5,50}, 3 learning rates, entry point optimize_vi / elbo_vi, track_history on/off)"
)
ASSUMPTIONS = [
    "reference = float64 closed forms for linear-Gaussian conjugate models (matrix route) cross-checked against a "
    "site-by-site re-execution with Gauss-Hermite quadrature (program route); a disagreement aborts the run as BROKEN",
    "documented parameterisation: mean-field params = [means, log_stds]; full-covariance cov = chol_cov @ chol_cov.T",
    "z-tests: CLT with first-order skewness correction; family-wise false alarm 1e-9 per run",
    "JAX API translation layer (DESIGN §2)",
]
FLOORS = {
    "quick": {
        "per_draw_value_checks": 4000,
        "per_draw_grad_checks": 4000,
        "per_draw_jvp_checks": 4000,
        "posterior_tight_draws": 500000,
        "ztests": 300,
        "constraint_seen_checks": 10000,
        "vi_iterations_checked": 500,
        "vi_hook_events": 500,
    },
    "thorough": {
        "per_draw_value_checks": 60000,
        "per_draw_grad_checks": 60000,
        "per_draw_jvp_checks": 60000,
        "posterior_tight_draws": 10000000,
        "ztests": 3000,
        "constraint_seen_checks": 150000,
        "vi_iterations_checked": 1500,
        "vi_hook_events": 1500,
    },
}
TIMEOUT_S = {"quick": 1200, "thorough": 7200}

N_DRAWS = {"quick": 100_000, "thorough": 200_000}
N_PROBE = {"quick": 64, "thorough": 128}
N_POINTS = {"quick": 3, "thorough": 5}
FAMILYWISE_ALPHA = 1e-9

# float32 tolerances: error <= C * (1 + condition scale), the scale being the sum of |pieces| the float32 code adds up
# (reference's own term magnitudes).  Calibrated on the unchanged tree over ~10^4 draws, cond(Sigma_q) up to 450:
# worst observed ratio 2.5e-7 (value) and 7.2e-6 (gradient); a wrong sign / dropped term moves the ratio to >= 1e-1.
C_VALUE = 4e-6
C_GRAD = 8e-5


# ---------------------------------------------------------------------------
# plan (numpy only)
# ---------------------------------------------------------------------------
def _f32(x):
    a = np.asarray(x, dtype=np.float32).astype(np.float64)
    return a.tolist() if a.ndim else float(a)


def _rot(rng, d):
    q, r = np.linalg.qr(rng.normal(size=(d, d)))
    return q * np.sign(np.diag(r))


def _spd(rng, d, lo, hi):
    q = _rot(rng, d)
    S = q @ np.diag(rng.uniform(lo, hi, size=d)) @ q.T
    return 0.5 * (S + S.T)


def gen_target(rng, kind, d, k, diag=False):
    if kind == "scalar":
        m0, s0, sx = rng.normal(), rng.uniform(0.7, 2.0), rng.uniform(0.5, 1.5)
        mu = m0 + s0 * rng.normal()
        y = mu + sx * rng.normal(size=k)
        return {"kind": kind, "m0": _f32(m0), "s0": _f32(s0), "sx": _f32(sx), "y": _f32(y)}
    if kind in ("mvlg", "mvlg_mvn", "xindep"):
        m0 = 0.7 * rng.normal(size=d)
        if diag:
            A = np.zeros((k, d))
            for i in range(k):
                A[i, i % d] = rng.choice([-1.0, 1.0]) * rng.uniform(0.5, 1.5)
        else:
            A = 0.8 * rng.normal(size=(k, d))
        b = 0.5 * rng.normal(size=k)
        t = {"kind": kind, "m0": _f32(m0), "A": _f32(A), "b": _f32(b)}
        if kind == "xindep":
            s0 = rng.uniform(0.6, 1.6, size=d)
            t["s0"] = _f32(s0)
            S0 = np.diag(s0**2)
        else:
            S0 = np.diag(rng.uniform(0.5, 2.0, size=d)) if diag else _spd(rng, d, 0.5, 2.5)
            t["S0"] = _f32(S0)
        if kind == "mvlg_mvn":
            Rm = _spd(rng, k, 0.3, 1.5)
            t["R"] = _f32(Rm)
        else:
            r = rng.uniform(0.5, 1.5, size=k)
            t["r"] = _f32(r)
            Rm = np.diag(r**2)
        z = rng.multivariate_normal(m0, S0)
        y = rng.multivariate_normal(A @ z + b, Rm)
        t["y"] = _f32(y)
        return t
    if kind == "chain":
        t = {
            "kind": kind,
            "m": rng.normal(),
            "s1": rng.uniform(0.7, 1.6),
            "a": rng.choice([-1, 1]) * rng.uniform(0.3, 1.2),
            "c": 0.5 * rng.normal(),
            "s2": rng.uniform(0.6, 1.4),
            "w": rng.choice([-1, 1], size=k) * rng.uniform(0.4, 1.5, size=k),
            "v": 0.4 * rng.normal(size=k),
            "bb": 0.3 * rng.normal(size=k),
            "sy": rng.uniform(0.6, 1.3),
            "u": rng.uniform(0.5, 1.3),
            "s3": rng.uniform(0.5, 1.2),
        }
        z1 = t["m"] + t["s1"] * rng.normal()
        z2 = t["a"] * z1 + t["c"] + t["s2"] * rng.normal()
        t["y"] = t["w"] * z2 + t["v"] * z1 + t["bb"] + t["sy"] * rng.normal(size=k)
        t["y1"] = t["u"] * z1 + t["s3"] * rng.normal()
        return {kk: (vv if kk == "kind" else _f32(vv)) for kk, vv in t.items()}
    raise ValueError(kind)


def gen_points(rng, tgt, fam, npts):
    """Parameter points: exact posterior (if representable) then random ones."""
    cl = R.Closed(tgt)
    d = fam["d"]
    pts = []
    rot = _rot(rng, d) if fam["kind"] == "fc" else None
    post = R.posterior_theta(tgt, fam, cl, rot=rot)
    if post is not None:
        pts.append({"name": "post", "theta": _f32(post)})
    sd = np.sqrt(np.diag(cl.post_cov))
    while len(pts) < npts:
        k = fam["kind"]
        if k == "mf":
            th = np.concatenate([cl.post_mean + 0.5 * sd * rng.normal(size=d), np.log(sd) + 0.3 * rng.normal(size=d)])
        elif k == "fc":
            while True:  # keep q well conditioned (float32 tolerances assume cond(Sigma_q) <= ~50)
                C = np.linalg.cholesky(cl.post_cov) @ _rot(rng, d)
                C = C + 0.15 * np.sqrt(np.abs(cl.post_cov).max()) * rng.normal(size=(d, d))
                C = np.asarray(C, np.float32).astype(np.float64)
                if np.linalg.cond(C @ C.T) <= 50.0:
                    break
            th = np.concatenate([cl.post_mean + 0.5 * sd * rng.normal(size=d), C.ravel()])
        else:
            base = R.posterior_theta(tgt, fam, cl)
            th = base + np.array([0.4, 0.3, 0.4, 0.3, 0.3])[: len(base)] * rng.normal(size=len(base))
        pts.append({"name": "rand", "theta": _f32(th)})
    return pts


def _est_configs():
    """(target kind, d, k, diag, family) skeletons of one replica."""
    out = []
    for est in ("reparam", "reinforce"):
        out.append(("scalar", 1, 4, False, {"kind": "hw_scalar", "d": 1, "est": est, "mode": "scalars"}))
    for d, k in ((1, 3), (2, 3), (3, 4)):
        for fk in ("mf", "fc"):
            for est in ("reparam", "reinforce"):
                out.append(("mvlg", d, k, False, {"kind": fk, "d": d, "est": est}))
    out.append(("mvlg", 2, 3, True, {"kind": "mf", "d": 2, "est": "reparam"}))
    out.append(("mvlg", 3, 4, True, {"kind": "mf", "d": 3, "est": "reinforce"}))
    out.append(("xindep", 3, 3, True, {"kind": "mf", "d": 3, "est": "reparam"}))
    out.append(("xindep", 2, 4, True, {"kind": "mf", "d": 2, "est": "reinforce"}))
    out.append(("xindep", 2, 3, False, {"kind": "fc", "d": 2, "est": "reparam"}))
    out.append(("mvlg_mvn", 2, 3, False, {"kind": "fc", "d": 2, "est": "reparam"}))
    out.append(("mvlg_mvn", 2, 2, False, {"kind": "mf", "d": 2, "est": "reinforce"}))
    out.append(("mvlg_mvn", 3, 3, False, {"kind": "fc", "d": 3, "est": "reinforce"}))
    out.append(("mvlg_mvn", 3, 2, False, {"kind": "mf", "d": 3, "est": "reparam"}))
    for e1 in ("reparam", "reinforce"):
        for e2 in ("reparam", "reinforce"):
            out.append(("chain", 2, 3, False, {"kind": "hw_chain", "d": 2, "est1": e1, "est2": e2}))
    return out


def _vi_configs():
    return [
        ("mvlg", 2, 3, {"kind": "mf", "d": 2, "est": "reparam"}),
        ("mvlg", 3, 4, {"kind": "mf", "d": 3, "est": "reinforce"}),
        ("chain", 2, 3, {"kind": "hw_chain", "d": 2, "est1": "reinforce", "est2": "reparam"}),
        ("scalar", 1, 4, {"kind": "hw_scalar", "d": 1, "est": "reparam"}),
    ]


def plan(tier, seed):
    reps = 1 if tier == "quick" else 5
    cases = []
    idx = 0
    for rep in range(reps):
        for kind, d, k, diag, fam in _est_configs():
            rng = np.random.default_rng([seed, 17, idx])
            tgt = gen_target(rng, kind, d, k, diag)
            pts = gen_points(rng, tgt, fam, N_POINTS[tier])
            cases.append(
                {"kind": "est", "tgt": tgt, "fam": fam, "diag": diag, "points": pts, "key": int(rng.integers(1, 2**31 - 1))}
            )
            idx += 1
    ntests = sum(len(c["points"]) * (R.n_params(c["fam"]) + 2) for c in cases)
    for c in cases:
        c["alpha"] = FAMILYWISE_ALPHA / ntests
    for rep in range(reps if tier == "quick" else 3):
        for ci, (kind, d, k, fam) in enumerate(_vi_configs()):
            for n_it in (1, 5, 50):
                rng = np.random.default_rng([seed, 17, 100000 + idx])
                tgt = gen_target(rng, kind, d, k)
                theta0 = gen_points(rng, tgt, fam, 2)[-1]["theta"]
                rein = "reinforce" in (fam.get("est"), fam.get("est1"), fam.get("est2"))
                lo, hi = (1e-5, 2e-3) if rein else (1e-3, 5e-2)
                lrs = np.exp(rng.uniform(np.log(lo), np.log(hi), size=3)).tolist()
                cases.append(
                    {
                        "kind": "vi",
                        "tgt": tgt,
                        "fam": fam,
                        "theta0": theta0,
                        "n_iterations": n_it,
                        "lrs": lrs,
                        "entry": "elbo_vi" if (ci + idx) % 2 == 0 else "optimize_vi",
                        "key": int(rng.integers(1, 2**31 - 1)),
                    }
                )
                idx += 1
    # library family with dict parameters handed to elbo_vi.
    # The "overlap" monitor (a family that also samples an OBSERVED address; the model must still see the
    # observation) is retired: the property quantifies over variational families for the latents given the
    # constraint and does not say what the objective means when q overwrites an observation, so demanding
    # "the constraint wins" asked for more than the property states (DESIGN 8.7).  Code kept, no cases planned.
    for j, (kind, d, k, where) in enumerate(()):
        rng = np.random.default_rng([seed, 17, 200000 + j])
        tgt = gen_target(rng, kind, d, k)
        fam = {"kind": "hw_chain", "d": 2, "est1": "reparam", "est2": "reparam"} if kind == "chain" else {"kind": "mf", "d": d, "est": "reparam"}
        cases.append(
            {"kind": "overlap", "tgt": tgt, "fam": fam, "where": where, "theta0": gen_points(rng, tgt, fam, 2)[-1]["theta"],
             "key": int(rng.integers(1, 2**31 - 1))}
        )
    for j, est in enumerate(("reparam", "reinforce")):
        rng = np.random.default_rng([seed, 17, 300000 + j])
        tgt = gen_target(rng, "mvlg", 2, 3)
        fam = {"kind": "fc", "d": 2, "est": est}
        cases.append(
            {"kind": "vi_pytree", "tgt": tgt, "fam": fam, "theta0": gen_points(rng, tgt, fam, 2)[-1]["theta"],
             "n_iterations": 5, "lr": 1e-3 if est == "reparam" else 1e-4, "key": int(rng.integers(1, 2**31 - 1))}
        )
    return cases


# ---------------------------------------------------------------------------
# worker side
# ---------------------------------------------------------------------------
_W = {}


def worker_setup(ctx):
    import jax
    import jax.numpy as jnp
    import genjax
    from genjax import gen, normal, multivariate_normal, seed
    from genjax.inference import vi
    from genjax import adev

    LOG = []

    def probe(tag, *vals):
        vals = [jax.lax.stop_gradient(jnp.asarray(v)) for v in vals]
        jax.debug.callback(lambda *v: LOG.append((tag, [np.asarray(a) for a in v])), *vals, ordered=True)

    def make_targets(pr):
        @gen
        def scalar(m0, s0, sx, ones):
            mu = normal(m0, s0) @ "mu"
            y = normal.vmap(in_axes=(0, None))(mu * ones, sx) @ "y"
            if pr:
                probe("t", mu, y)
            return y

        @gen
        def mvlg(m0, S0, A, b, r):
            x = multivariate_normal(m0, S0) @ "x"
            y = normal.vmap(in_axes=(0, 0))(A @ x + b, r) @ "y"
            if pr:
                probe("t", x, y)
            return y

        @gen
        def mvlg_mvn(m0, S0, A, b, Rm):
            x = multivariate_normal(m0, S0) @ "x"
            y = multivariate_normal(A @ x + b, Rm) @ "y"
            if pr:
                probe("t", x, y)
            return y

        @gen
        def xindep(m0, s0, A, b, r):
            x = normal.vmap(in_axes=(0, 0))(m0, s0) @ "x"
            y = normal.vmap(in_axes=(0, 0))(A @ x + b, r) @ "y"
            if pr:
                probe("t", x, y)
            return y

        @gen
        def chain_sub(z1, a, c, s2, w, v, bb, sy):
            z2 = normal(a * z1 + c, s2) @ "z2"
            y = normal.vmap(in_axes=(0, None))(w * z2 + v * z1 + bb, sy) @ "y"
            if pr:
                probe("sub", z2, y)
            return z2

        @gen
        def chain(m, s1, a, c, s2, w, v, bb, sy, u, s3):
            z1 = normal(m, s1) @ "z1"
            z2 = chain_sub(z1, a, c, s2, w, v, bb, sy) @ "g"
            y1 = normal(u * z1, s3) @ "y1"
            if pr:
                probe("top", z1, y1)
            return z2

        return {"scalar": scalar, "mvlg": mvlg, "mvlg_mvn": mvlg_mvn, "xindep": xindep, "chain": chain}

    _W.update(
        jax=jax, jnp=jnp, genjax=genjax, vi=vi, adev=adev, seed=seed, gen=gen, LOG=LOG,
        targets={True: make_targets(True), False: make_targets(False)},
        fams={}, fns={}, estimate_ok={},
    )


def _adev_normal(est):
    adev = _W["adev"]
    return {"reparam": adev.normal_reparam, "reinforce": adev.normal_reinforce}[est]


def get_family(fam, overlap=None, ny=0):
    """The genjax variational family for a spec (cached: one object per structure)."""
    key = json.dumps(fam, sort_keys=True) + "|" + str(overlap) + "|" + str(ny)
    if key in _W["fams"]:
        return _W["fams"][key]
    vi, gen, jnp, adev = _W["vi"], _W["gen"], _W["jnp"], _W["adev"]
    k = fam["kind"]
    if k == "mf" and overlap is None:
        f = vi.mean_field_normal_family(fam["d"], fam["est"])
    elif k == "mf":
        lib = vi.mean_field_normal_family(fam["d"], fam["est"])
        src = lib.source.value

        @gen
        def f(constraint, params):
            x = src(constraint, params)
            # also proposes a value for the OBSERVED address "y"
            adev.multivariate_normal_reparam(jnp.zeros(ny), jnp.eye(ny)) @ "y"
            return x

    elif k == "fc":
        f = vi.full_covariance_normal_family(fam["d"], fam["est"])
    elif k == "hw_scalar":
        n_ = _adev_normal(fam["est"])
        if fam.get("mode") == "scalars":

            @gen
            def f(constraint, m, ls):
                return n_(m, jnp.exp(ls)) @ "mu"

        else:

            @gen
            def f(constraint, params):
                return n_(params[0], jnp.exp(params[1])) @ "mu"

    elif k == "hw_chain":
        n1, n2 = _adev_normal(fam["est1"]), _adev_normal(fam["est2"])

        @gen
        def fsub(al, be, ls, z1):
            z2 = n2(al + be * z1, jnp.exp(ls)) @ "z2"
            if overlap == "nested":
                adev.multivariate_normal_reparam(jnp.zeros(ny), jnp.eye(ny)) @ "y"
            return z2

        @gen
        def f(constraint, params):
            z1 = n1(params[0], jnp.exp(params[1])) @ "z1"
            z2 = fsub(params[2], params[3], params[4], z1) @ "g"
            if overlap == "top":
                adev.normal_reparam(z1, 1.0) @ "y1"
            return z2

    else:
        raise ValueError(k)
    _W["fams"][key] = f
    return f


def jax_inputs(tgt):
    """(observation choice map, target args) as float32 jax arrays."""
    jnp = _W["jnp"]
    a = lambda x: jnp.asarray(np.asarray(x, dtype=np.float32))
    k = tgt["kind"]
    if k == "scalar":
        return {"y": a(tgt["y"])}, (a(tgt["m0"]), a(tgt["s0"]), a(tgt["sx"]), jnp.ones(len(tgt["y"]), jnp.float32))
    if k == "mvlg":
        return {"y": a(tgt["y"])}, (a(tgt["m0"]), a(tgt["S0"]), a(tgt["A"]), a(tgt["b"]), a(tgt["r"]))
    if k == "mvlg_mvn":
        return {"y": a(tgt["y"])}, (a(tgt["m0"]), a(tgt["S0"]), a(tgt["A"]), a(tgt["b"]), a(tgt["R"]))
    if k == "xindep":
        return {"y": a(tgt["y"])}, (a(tgt["m0"]), a(tgt["s0"]), a(tgt["A"]), a(tgt["b"]), a(tgt["r"]))
    if k == "chain":
        return (
            {"g": {"y": a(tgt["y"])}, "y1": a(tgt["y1"])},
            tuple(a(tgt[n]) for n in ("m", "s1", "a", "c", "s2", "w", "v", "bb", "sy", "u", "s3")),
        )
    raise ValueError(k)


def param_args(fam, theta):
    """The *variational_params tuple for a flat float32-exact theta."""
    jnp = _W["jnp"]
    th = np.asarray(theta, dtype=np.float32)
    d = fam["d"]
    if fam["kind"] == "fc":
        return ({"mean": jnp.asarray(th[:d]), "chol_cov": jnp.asarray(th[d:].reshape(d, d))},)
    if fam.get("mode") == "scalars":
        return tuple(jnp.asarray(t) for t in th)
    return (jnp.asarray(th),)


def flat_params(fam, tree):
    """Flatten a params-shaped result (gradient, tangent direction) to the reference order.
    ``tree`` is what grad_estimate returns: the single argument's gradient, or a tuple."""
    d = fam["d"]
    if fam["kind"] == "fc":
        return np.concatenate([np.asarray(tree["mean"]).reshape(-1, d), np.asarray(tree["chol_cov"]).reshape(-1, d * d)], -1)
    if fam.get("mode") == "scalars":
        return np.stack([np.asarray(t) for t in tree], -1).reshape(-1, len(tree))
    a = np.asarray(tree)
    return a.reshape(-1, a.shape[-1])


def parse_events(tgt, events):
    """Probe events of consecutive model executions -> list of (Z (d,), seen dict)."""
    out = []
    if tgt["kind"] == "chain":
        assert len(events) % 2 == 0, events
        for i in range(0, len(events), 2):
            (t1, (z2, y)), (t2, (z1, y1)) = events[i], events[i + 1]
            assert (t1, t2) == ("sub", "top"), (t1, t2)
            out.append((np.array([z1, z2], dtype=np.float64), {"g/y": y, "y1": y1}))
    else:
        for tag, (z, y) in events:
            assert tag == "t"
            out.append((np.atleast_1d(np.asarray(z, dtype=np.float64)), {"y": y}))
    return out


def obs_flat(tgt):
    if tgt["kind"] == "chain":
        return {"g/y": np.asarray(tgt["y"], np.float32), "y1": np.asarray(tgt["y1"], np.float32)}
    return {"y": np.asarray(tgt["y"], np.float32)}


def _bits(a):
    return np.ascontiguousarray(np.asarray(a, dtype=np.float32)).view(np.int32)


def _biteq(a, b):
    a, b = np.asarray(a), np.asarray(b)
    return a.shape == b.shape and a.dtype == b.dtype and bool(np.all(_bits(a) == _bits(b)))


def fam_label(fam):
    if fam["kind"] == "hw_chain":
        return f"hw_chain-{fam['est1']}+{fam['est2']}"
    return f"{fam['kind']}-{fam['est']}"


def structure_key(case, *extra):
    t, f = case["tgt"], case["fam"]
    return json.dumps([t["kind"], f, len(np.atleast_1d(t.get("y"))), *extra], sort_keys=True)


def _cal(rec):
    p = os.environ.get("C17_CAL")
    if p:
        with open(p, "a") as fh:
            fh.write(json.dumps(rec) + "\n")


# ---------------------------------------------------------------------------
# estimator cases
# ---------------------------------------------------------------------------
def build_fns(case, use_estimate):
    """jit-compiled (probe, vmapped) functions for a structure; constants are arguments so
    that cases with the same structure share the compilation."""
    jax, jnp, vi, seed = _W["jax"], _W["jnp"], _W["vi"], _W["seed"]
    from genjax.adev import Dual

    sk = structure_key(case, use_estimate)
    if sk in _W["fns"]:
        return _W["fns"][sk]
    fam = case["fam"]
    family = get_family(fam)

    def make(target):
        def f(pargs, vargs, obs, targs):
            elbo = vi.elbo_factory(target, family, obs, targs)
            if use_estimate:
                val = elbo.estimate(*pargs)
            else:
                zeros = jax.tree_util.tree_map(jnp.zeros_like, pargs)
                val = elbo.jvp_estimate(*Dual.dual_tree(pargs, zeros)).primal
            dj = elbo.jvp_estimate(*Dual.dual_tree(pargs, vargs))
            g = elbo.grad_estimate(*pargs)
            return val, dj.primal, dj.tangent, g

        return f

    fprobe = jax.jit(seed(make(_W["targets"][True][case["tgt"]["kind"]])))
    fplain = make(_W["targets"][False][case["tgt"]["kind"]])

    def f2(pargs, vargs, obs, targs):
        val, _, _, g = fplain(pargs, vargs, obs, targs)
        return val, g

    fvmap = jax.jit(jax.vmap(seed(f2), in_axes=(0, None, None, None, None)))
    _W["fns"][sk] = (fprobe, fvmap)
    return fprobe, fvmap


def try_estimate(case, ctx, obs, targs, pargs):
    """Does Expectation.estimate run at all for this kind of parameters?  (eager, once per case)"""
    jax, vi, seed = _W["jax"], _W["vi"], _W["seed"]
    fam = case["fam"]
    family = get_family(fam)
    target = _W["targets"][False][case["tgt"]["kind"]]

    def f(*pa):
        return vi.elbo_factory(target, family, obs, targs).estimate(*pa)

    r = ctx.call(lambda: seed(f)(jax.random.key(case["key"]), *pargs))
    ctx.count("estimate_calls")
    if hasattr(r, "brief"):
        pk = "dict-params" if fam["kind"] == "fc" else ("scalar-params" if fam.get("mode") == "scalars" else "array-params")
        ctx.violation(
            f"estimate|{pk}|raises:{r.type}",
            {"target": case["tgt"], "family": fam, "theta": case["points"][0]["theta"], **r.brief(),
             "note": "elbo_factory(...).estimate(params) raised; value monitors fall back to jvp_estimate with explicit zero tangents"},
        )
        return False
    return True


def run_est(case, ctx):
    jax, jnp = _W["jax"], _W["jnp"]
    tgt, fam = case["tgt"], case["fam"]
    label = fam_label(fam)
    tier = ctx.tier
    obs, targs = jax_inputs(tgt)
    cl = R.Closed(tgt)
    LOG = _W["LOG"]
    P = R.n_params(fam)
    d = fam["d"]
    rng = np.random.default_rng([case["key"], 1])
    use_estimate = try_estimate(case, ctx, obs, targs, param_args(fam, case["points"][0]["theta"]))
    fprobe, fvmap = build_fns(case, use_estimate)
    value_api = "estimate" if use_estimate else "jvp_estimate(zero-tangent)"
    obsf = obs_flat(tgt)
    base = {"target": tgt, "family": fam}

    for pi, pt in enumerate(case["points"]):
        theta = np.asarray(pt["theta"], dtype=np.float64)
        pargs = param_args(fam, theta)
        ref = R.self_check(tgt, fam, theta, cl)  # AssertionError here = harness bug (BROKEN)
        ctx.evaluation()
        nontrivial = len(np.atleast_1d(tgt["y"])) >= 2 and np.abs(ref["grad"]).max() > 0
        if fam["kind"] == "fc" and d > 1:
            C = theta[d:].reshape(d, d)
            nontrivial = nontrivial and np.abs(C - C.T).max() > 1e-3
        if nontrivial:
            ctx.distinct("nontrivial", [tgt["kind"], d, len(np.atleast_1d(tgt["y"])), fam, pt["name"], case.get("diag")])
        vdir = np.asarray(rng.normal(size=P), dtype=np.float32)
        vargs = param_args(fam, vdir)
        det = {**base, "theta": pt["theta"], "point": pt["name"]}

        # ------------------------------------------------------------- per-draw (probe) monitor
        nprobe = N_PROBE[tier]
        rows = []
        raised = None
        for j in range(nprobe):
            key = jax.random.key(int(rng.integers(1, 2**31 - 1)))
            LOG.clear()
            out = ctx.call(lambda: fprobe(key, pargs, vargs, obs, targs))
            jax.effects_barrier()
            if hasattr(out, "brief"):
                raised = out
                break
            ev = parse_events(tgt, list(LOG))
            assert len(ev) == 3, f"expected 3 model executions, saw {len(ev)}"
            val, jp, jt, g = out
            rows.append((ev, float(val), float(jp), float(jt), flat_params(fam, g)[0].astype(np.float64)))
        LOG.clear()
        if raised is not None:
            ctx.violation(f"value+jvp+grad|{label}|raises:{raised.type}", {**det, **raised.brief()})
            continue
        # observed values the model saw
        for ev, *_ in rows:
            for z, seen in ev:
                ctx.count("constraint_seen_checks")
                for addr, want in obsf.items():
                    if not _biteq(np.asarray(seen[addr], np.float32), want):
                        ctx.violation(
                            "elbo|disjoint-addresses|model-sees-altered-observation",
                            {**det, "address": addr, "model_saw": seen[addr], "constraint": want},
                        )
        Zv = np.stack([r[0][0][0] for r in rows])
        Zj = np.stack([r[0][1][0] for r in rows])
        Zg = np.stack([r[0][2][0] for r in rows])
        vals = np.array([r[1] for r in rows])
        jps = np.array([r[2] for r in rows])
        jts = np.array([r[3] for r in rows])
        gs = np.stack([r[4] for r in rows])

        Fv, vsc, _, _, _ = R.per_draw(tgt, fam, theta, R.noise_from_z(fam, theta, Zv), want_grad=False)
        tol = C_VALUE * (1.0 + vsc)
        err = np.abs(vals - Fv)
        _cal({"m": "value", "label": label, "tk": tgt["kind"], "ratio": float((err / (1 + vsc)).max())})
        ctx.count("per_draw_value_checks", len(vals))
        if np.any(err > tol):
            i = int(np.argmax(err / tol))
            ctx.violation(
                f"{'estimate' if use_estimate else 'jvp_estimate'}|{label}|per-draw-value!=logp(y,z)-logq(z)",
                {**det, "api": value_api, "z": Zv[i], "observed": vals[i], "expected": Fv[i], "tolerance": tol[i],
                 "log_evidence": cl.logpx, "n_bad": int(np.sum(err > tol)), "n": len(vals)},
            )
        if pt["name"] == "post":
            e2 = np.abs(vals - cl.logpx)
            ctx.count("posterior_tight_draws", len(vals))
            if np.any(e2 > tol):
                i = int(np.argmax(e2 / tol))
                ctx.violation(
                    f"{'estimate' if use_estimate else 'jvp_estimate'}|{label}|exact-posterior-value!=log-evidence",
                    {**det, "api": value_api, "z": Zv[i], "observed": vals[i], "expected": cl.logpx, "tolerance": tol[i]},
                )
        # jvp_estimate with a tangent direction
        Fj, jsc, Gj, gscj, _ = R.per_draw(tgt, fam, theta, R.noise_from_z(fam, theta, Zj))
        tolp = C_VALUE * (1.0 + jsc)
        errp = np.abs(jps - Fj)
        want_t = Gj @ vdir.astype(np.float64)
        tolt = C_GRAD * (1.0 + gscj @ np.abs(vdir.astype(np.float64)))
        errt = np.abs(jts - want_t)
        _cal({"m": "jvp", "label": label, "tk": tgt["kind"], "ratio": float((errt / (tolt / C_GRAD)).max())})
        ctx.count("per_draw_jvp_checks", len(jps))
        if np.any(errp > tolp):
            i = int(np.argmax(errp / tolp))
            ctx.violation(
                f"jvp_estimate|{label}|per-draw-primal",
                {**det, "z": Zj[i], "observed": jps[i], "expected": Fj[i], "tolerance": tolp[i]},
            )
        if np.any(errt > tolt):
            i = int(np.argmax(errt / tolt))
            ctx.violation(
                f"jvp_estimate|{label}|per-draw-tangent",
                {**det, "z": Zj[i], "direction": vdir, "observed": jts[i], "expected": want_t[i], "tolerance": tolt[i]},
            )
        # grad_estimate
        Fg, gsc0, Gg, gscg, _ = R.per_draw(tgt, fam, theta, R.noise_from_z(fam, theta, Zg))
        tolg = C_GRAD * (1.0 + gscg)
        errg = np.abs(gs - Gg)
        _cal({"m": "grad", "label": label, "tk": tgt["kind"], "ratio": float((errg / (1 + gscg)).max())})
        ctx.count("per_draw_grad_checks", len(gs))
        if np.any(errg > tolg):
            i, p = np.unravel_index(int(np.argmax(errg / tolg)), errg.shape)
            ctx.violation(
                f"grad_estimate|{label}|per-draw-gradient",
                {**det, "z": Zg[i], "component": int(p), "observed": gs[i], "expected": Gg[i], "tolerance": tolg[i],
                 "n_bad_components": int(np.sum(errg > tolg)), "identity": "d/dtheta F(theta;noise) + F * d/dtheta sum_score_sites log q"},
            )

        # ------------------------------------------------------------- statistical monitor
        N = N_DRAWS[tier]
        keys = jax.random.split(jax.random.key(int(rng.integers(1, 2**31 - 1))), N)
        out = ctx.call(lambda: jax.block_until_ready(fvmap(keys, pargs, vargs, obs, targs)))
        if hasattr(out, "brief"):
            ctx.violation(f"vmap(seed(value+grad))|{label}|raises:{out.type}", {**det, **out.brief()})
            continue
        v = np.asarray(out[0], dtype=np.float64)
        G = flat_params(fam, out[1]).astype(np.float64)
        assert v.shape == (N,) and G.shape == (N, P), (v.shape, G.shape)
        alpha = case["alpha"]
        sqn = math.sqrt(N)
        if pt["name"] == "post":
            tolall = 4.0 * C_VALUE * (1.0 + vsc.max())
            e = np.abs(v - cl.logpx)
            ctx.count("posterior_tight_draws", N)
            if e.max() > tolall:
                ctx.violation(
                    f"{'estimate' if use_estimate else 'jvp_estimate'}|{label}|exact-posterior-value!=log-evidence",
                    {**det, "api": value_api, "n_draws": N, "n_bad": int(np.sum(e > tolall)), "worst_observed": v[int(np.argmax(e))],
                     "expected": cl.logpx, "tolerance": tolall},
                )
        else:
            se = math.sqrt(ref["value_var"]) / sqn
            thr = R.z_threshold(alpha, N, ref["value_skew"])
            zval = (v.mean() - ref["elbo"]) / se
            ctx.count("ztests")
            if abs(zval) > thr:
                ctx.violation(
                    f"{'estimate' if use_estimate else 'jvp_estimate'}|{label}|mean!=closed-form-ELBO",
                    {**det, "n_draws": N, "mean": v.mean(), "closed_form_elbo": ref["elbo"], "z": zval, "threshold": thr,
                     "log_evidence": cl.logpx, "sample_std": v.std(), "reference_std": math.sqrt(ref["value_var"])},
                )
            ctx.count("ztests")
            if (v.mean() - cl.logpx) / se > thr:
                ctx.violation(
                    f"{'estimate' if use_estimate else 'jvp_estimate'}|{label}|mean-above-log-evidence",
                    {**det, "n_draws": N, "mean": v.mean(), "log_evidence": cl.logpx, "z": (v.mean() - cl.logpx) / se},
                )
        gm = G.mean(0)
        worst = None
        for p in range(P):
            se = math.sqrt(ref["grad_var"][p]) / sqn
            thr = R.z_threshold(alpha, N, ref["grad_skew"][p])
            zg = (gm[p] - ref["grad"][p]) / se
            ctx.count("ztests")
            if abs(zg) > thr and (worst is None or abs(zg) / thr > worst[0]):
                worst = (abs(zg) / thr, p, zg, thr)
        if worst is not None:
            _, p, zg, thr = worst
            ctx.violation(
                f"grad_estimate|{label}|mean!=closed-form-gradient",
                {**det, "n_draws": N, "component": int(p), "mean_gradient": gm, "closed_form_gradient": ref["grad"],
                 "z": zg, "threshold": thr, "reference_std": np.sqrt(ref["grad_var"])},
            )
        thr0 = R.z_threshold(alpha, N, 0.0)
        ctx.note(
            f"z-tests: N={N} seeded draws per test, per-test alpha={alpha:.2e} (family-wise {FAMILYWISE_ALPHA:g}), threshold "
            f"{thr0:.2f} sigma before skewness correction -> detectable bias ~ {thr0 / sqn:.3f} per-draw standard deviations "
            f"of the estimator (reference variance from exact Gauss-Hermite moments)"
        )
        if pi == 0 and case.get("index", 0) % 9 == 0:
            ctx.sample(
                {"kind": "est", "target": tgt, "family": fam, "theta": pt["theta"], "point": pt["name"], "value_api": value_api,
                 "log_evidence": cl.logpx, "closed_form_elbo": ref["elbo"], "mean_of_draws": float(v.mean()),
                 "closed_form_gradient": ref["grad"], "mean_gradient": gm, "first_draw": {"z": Zv[0], "estimate": vals[0], "reference": Fv[0]}}
            )


# ---------------------------------------------------------------------------
# update-rule cases
# ---------------------------------------------------------------------------
class _Hooked:
    """Client-boundary wrapper of the ELBO object: every grad_estimate call emits (params_in, grad_out)."""

    def __init__(self, inner, log):
        self._inner = inner
        self._log = log

    def grad_estimate(self, *params):
        jax = _W["jax"]
        g = self._inner.grad_estimate(*params)
        log = self._log
        jax.debug.callback(
            lambda p, gg: log.append((jax.tree_util.tree_map(np.asarray, p), jax.tree_util.tree_map(np.asarray, gg))),
            params[0] if len(params) == 1 else params, g, ordered=True,
        )
        return g

    def __getattr__(self, name):
        return getattr(self._inner, name)


def _flat_leaves(tree, lead=None):
    jax = _W["jax"]
    leaves = jax.tree_util.tree_leaves(tree)
    if lead is None:
        return np.concatenate([np.asarray(l, dtype=np.float32).ravel() for l in leaves]) if leaves else np.zeros(0, np.float32)
    return np.concatenate([np.asarray(l, dtype=np.float32).reshape(lead, -1) for l in leaves], axis=1)


def check_update(p, g, new, lr):
    """Exact: is ``new`` a correctly rounded float32 ``p + lr*g`` (two roundings or FMA)?  Returns bad indices."""
    lr32 = np.float32(lr)
    two = p + lr32 * g
    fma = (p.astype(np.float64) + np.float64(lr32) * g.astype(np.float64)).astype(np.float32)
    ok = (_bits(new) == _bits(two)) | (_bits(new) == _bits(fma))
    bad = []
    for i in np.nonzero(~ok)[0]:
        cands = R.update_candidates(p[i], lr32, g[i])
        if not any(_bits(c) == _bits(new[i]) for c in cands):
            bad.append(int(i))
    return bad, int(np.sum(_bits(new) != _bits(two)))


def run_vi_one(case, ctx, target, family, obs, targs, p0, lr, n_it, entry, track, label, det):
    jax, vi, seed = _W["jax"], _W["vi"], _W["seed"]
    log = []
    key = jax.random.key(case["key"])
    if entry == "optimize_vi":
        elbo = _Hooked(vi.elbo_factory(target, family, obs, targs), log)
        res = ctx.call(lambda: seed(lambda p: vi.optimize_vi(elbo, p, lr, n_it, track))(key, p0))
    else:
        orig = vi.elbo_factory
        vi.elbo_factory = lambda *a, **k: _Hooked(orig(*a, **k), log)
        try:
            res = ctx.call(
                lambda: seed(
                    lambda p: vi.elbo_vi(target, family, p, obs, targs, learning_rate=lr, n_iterations=n_it, track_history=track)
                )(key, p0)
            )
        finally:
            vi.elbo_factory = orig
    jax.effects_barrier()
    ctx.count("vi_runs")
    return res, log


def check_vi_result(ctx, res, log, p0, lr, n_it, entry, track, det, keyprefix):
    p0f = _flat_leaves(p0)
    ctx.count("vi_hook_events", len(log))
    if len(log) != n_it:
        ctx.violation(f"{keyprefix}|hook-count!=n_iterations", {**det, "grad_estimate_calls": len(log), "n_iterations": n_it})
        return
    fin = _flat_leaves(res.final_params)
    P = [_flat_leaves(p) for p, _ in log]
    G = [_flat_leaves(g) for _, g in log]
    if not np.all(_bits(P[0]) == _bits(p0f)):
        ctx.violation(f"{keyprefix}|first-input!=init_params", {**det, "first_params_in": P[0], "init_params": p0f})
    nrep = getattr(res.n_iterations, "value", res.n_iterations)
    if int(nrep) != n_it:
        ctx.violation(f"{keyprefix}|n_iterations-field", {**det, "reported": int(nrep), "n_iterations": n_it})
    H = None
    if track:
        leaves = _W["jax"].tree_util.tree_leaves(res.param_history)
        lead = leaves[0].shape[0] if leaves and leaves[0].ndim else 0
        if lead != n_it:
            ctx.violation(f"{keyprefix}|len(history)!=n_iterations", {**det, "len_history": int(lead), "n_iterations": n_it})
            return
        H = _flat_leaves(res.param_history, lead)
    else:
        if sum(np.size(l) for l in _W["jax"].tree_util.tree_leaves(res.param_history)) != 0:
            ctx.violation(f"{keyprefix}|track_history=False-returns-history", {**det})
    n_fused = 0
    for i in range(n_it):
        new = H[i] if H is not None else (P[i + 1] if i + 1 < n_it else fin)
        if H is not None:
            nxt = P[i + 1] if i + 1 < n_it else None
            if nxt is not None and not np.all(_bits(nxt) == _bits(H[i])):
                ctx.violation(f"{keyprefix}|params_in[i+1]!=history[i]", {**det, "i": i, "params_in_next": nxt, "history_i": H[i]})
                return
        if not (np.all(np.isfinite(P[i])) and np.all(np.isfinite(G[i]))):
            ctx.count("vi_nonfinite_iterations")
            continue
        bad, nf = check_update(P[i], G[i], new, lr)
        n_fused += nf
        ctx.count("vi_iterations_checked")
        if bad:
            j = bad[0]
            ctx.violation(
                f"{keyprefix}|history[i]!=params_in+lr*grad",
                {**det, "i": i, "component": j, "params_in": P[i], "grad_out": G[i], "observed": new,
                 "expected_two_roundings": P[i] + np.float32(lr) * G[i], "lr": lr,
                 "observed_minus_params_over_lr_grad": float((float(new[j]) - float(P[i][j])) / (float(np.float32(lr)) * float(G[i][j]) or 1.0))},
            )
            return
    last = H[-1] if H is not None else None
    if last is not None and not np.all(_bits(fin) == _bits(last)):
        ctx.violation(f"{keyprefix}|final_params!=history[-1]", {**det, "final_params": fin, "history_last": last})
    ctx.count("vi_elements_not_two_rounding", n_fused)


def run_vi(case, ctx):
    jnp = _W["jnp"]
    tgt, fam = case["tgt"], case["fam"]
    label = fam_label(fam)
    obs, targs = jax_inputs(tgt)
    target = _W["targets"][False][tgt["kind"]]
    family = get_family(fam)
    p0 = param_args(fam, case["theta0"])[0]
    n_it = case["n_iterations"]
    runs = [(lr, True, case["entry"]) for lr in case["lrs"]]
    other = "optimize_vi" if case["entry"] == "elbo_vi" else "elbo_vi"
    runs.append((case["lrs"][0], False, other))
    for lr, track, entry in runs:
        ctx.evaluation()
        det = {"target": tgt, "family": fam, "init_params": case["theta0"], "learning_rate": lr, "n_iterations": n_it,
               "entry": entry, "track_history": track, "key": case["key"]}
        res, log = run_vi_one(case, ctx, target, family, obs, targs, p0, lr, n_it, entry, track, label, det)
        if hasattr(res, "brief"):
            ctx.violation(f"{entry}|{label}|raises:{res.type}", {**det, **res.brief()})
            continue
        ctx.distinct("nontrivial", ["vi", tgt["kind"], fam, n_it, entry, track])
        check_vi_result(ctx, res, log, p0, lr, n_it, entry, track, det, "optimize_vi")
    if case.get("index", 0) % 5 == 0:
        ctx.sample({"kind": "vi", "family": fam, "n_iterations": n_it, "lrs": case["lrs"], "entry": case["entry"],
                    "grad_estimate_calls_last_run": len(log)})
    ctx.note(
        "update rule decided exactly: history[i] must be a correctly rounded float32 of params_in_i + float32(lr)*grad_i, "
        "either with the product rounded first or fused (XLA CPU contracts the multiply-add inside jit: measured ~12% of "
        "elements differ from the two-rounding result and all equal the FMA result); both candidates computed exactly "
        "(rational arithmetic for ties); counter vi_elements_not_two_rounding reports how many used the fused form"
    )


def run_vi_pytree(case, ctx):
    """Library full-covariance family (dict parameters) handed to the library optimiser."""
    tgt, fam = case["tgt"], case["fam"]
    obs, targs = jax_inputs(tgt)
    target = _W["targets"][False][tgt["kind"]]
    family = get_family(fam)
    p0 = param_args(fam, case["theta0"])[0]
    n_it, lr = case["n_iterations"], case["lr"]
    ctx.evaluation()
    for entry in ("elbo_vi", "optimize_vi"):
        det = {"target": tgt, "family": fam, "init_params": {k: np.asarray(v) for k, v in p0.items()}, "learning_rate": lr,
               "n_iterations": n_it, "entry": entry, "key": case["key"]}
        res, log = run_vi_one(case, ctx, target, family, obs, targs, p0, lr, n_it, entry, True, fam_label(fam), det)
        ctx.count("vi_pytree_runs")
        if hasattr(res, "brief"):
            ctx.violation(
                f"{entry}|full_covariance_normal_family(dict-params)|raises:{res.type}",
                {**det, **res.brief(), "note": "the library's own full-covariance family takes {'mean','chol_cov'}; the library optimiser cannot step it"},
            )
            continue
        check_vi_result(ctx, res, log, p0, lr, n_it, entry, True, det, "optimize_vi(dict-params)")


# ---------------------------------------------------------------------------
# a family that also proposes a value for an observed address
# ---------------------------------------------------------------------------
def run_overlap(case, ctx):
    jax, jnp, vi, seed = _W["jax"], _W["jnp"], _W["vi"], _W["seed"]
    from genjax.adev import Dual

    tgt, fam, where = case["tgt"], case["fam"], case["where"]
    obs, targs = jax_inputs(tgt)
    target = _W["targets"][True][tgt["kind"]]
    family = get_family(fam, overlap=where, ny=len(tgt["y"]))
    pargs = param_args(fam, case["theta0"])
    LOG = _W["LOG"]
    obsf = obs_flat(tgt)
    addr = {"top": "y1", "nested": "g/y"}[where] if tgt["kind"] == "chain" else "y"

    def fval(pa):
        elbo = vi.elbo_factory(target, family, obs, targs)
        zeros = jax.tree_util.tree_map(jnp.zeros_like, pa)
        return elbo.jvp_estimate(*Dual.dual_tree((pa,), (zeros,))).primal

    def fgrad(pa):
        return vi.elbo_factory(target, family, obs, targs).grad_estimate(pa)

    for api, f in (("jvp_estimate", fval), ("grad_estimate", fgrad)):
        jf = jax.jit(seed(f))
        for j in range(2):
            ctx.evaluation()
            LOG.clear()
            out = ctx.call(lambda: jf(jax.random.key(case["key"] + j), pargs[0]))
            jax.effects_barrier()
            det = {"target": tgt, "family": fam, "family_also_samples": addr, "theta": case["theta0"], "api": api, "key": case["key"] + j}
            if hasattr(out, "brief"):
                ctx.violation(f"elbo|family-samples-observed-address|raises:{out.type}", {**det, **out.brief()})
                break
            ev = parse_events(tgt, list(LOG))
            assert len(ev) == 1, len(ev)
            ctx.count("overlap_checks")
            seen = ev[0][1]
            for a, want in obsf.items():
                if not _biteq(np.asarray(seen[a], np.float32), want):
                    ctx.violation(
                        "elbo|family-samples-observed-address|model-sees-sampled-value",
                        {**det, "address": a, "model_saw": seen[a], "constraint": want,
                         "note": "elbo merges merge(constraint, q_choices): the second argument wins, the observation is replaced"},
                    )
    LOG.clear()
    ctx.distinct("nontrivial", ["overlap", tgt["kind"], where])


def run_case(case, ctx):
    k = case["kind"]
    if k == "est":
        return run_est(case, ctx)
    if k == "vi":
        return run_vi(case, ctx)
    if k == "vi_pytree":
        return run_vi_pytree(case, ctx)
    if k == "overlap":
        return run_overlap(case, ctx)
    raise ValueError(k)
