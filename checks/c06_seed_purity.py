"""C06 — a seeded function is a pure, transform-stable function of (key, args).

Workload (lib/c06_progs.py): generated probabilistic functions — plain functions
using ``dist.sample`` / ``dist(...)``, lax.scan / lax.cond / modular_vmap, GFI
methods (simulate / assess / generate / update / regenerate) of generated @gen
models with Scan / Cond / Vmap / nested calls, keyword arguments, Python-scalar
vs array arguments, typed and legacy uint32 keys, a user-bound ``sample_binder``
sampler (the pattern of the pjax module docstring).

Per program, between two evaluations of ``seed(f)(key, *args)`` a *perturbing
history* is executed (unseeded draws, other seeded programs, other keys, the
same program at other avals, sites with other sample_shape / kwargs through the
same Distribution objects, jit / vmap runs, and FAULT INJECTION: a GFI call that
raises half-way).  Monitors (all deterministic, no reference model needed — the
oracle is the function's own value computed in a different process state):

  repeat     held ``seed(f)``, new ``seed(f)`` wrapper, and a FRESH closure of the
             same program text give bit-identical outputs, before and after
             every history; at other avals long-lived == fresh closure
  transform  eager == jit == vmap-over-keys lane == jit(vmap) lane (DESIGN §3.6)
  distinct   every continuous random leaf differs between keys
  state      len(core.handler_stack) == 0 after every top-level call (also
             after one that raised); global_counter not advanced by a seeded
             call that needs no staging; a later top-level ``normal(0.,1.)``
             under seed returns a draw, not a Thunk
  subkeys    the sequence of sub-keys handed to the flat samplers is identical
             between first and repeated evaluation (hook on
             pjax.FlatSamplerCache.get_flat_sampler, DESIGN §3.2)
"""

from __future__ import annotations

import os

import numpy as np

from lib import c06_progs as P

PROPERTY = "C06"
LEVEL = "exploration"
RULE = (
    "programs drawn from the statement grammar of lib/c06_progs.py (families plain / gfi / mixed / held-binder; "
    "depth<=2 quick, <=3 thorough), each run with 8 keys and a history plan (>=3 quick / >=7 thorough perturbing "
    "histories incl. one injected fault); distinct_nontrivial = distinct (structural fingerprint of the program "
    "without constants, history kinds) where the program has >=3 sample sites and at least one site under "
    "scan/cond/vmap or inside a GFI method"
)
ASSUMPTIONS = [
    "JAX API translation layer (DESIGN §2)",
    "eager vs jit vs vmap compared under DESIGN §3.6 (16 ulp scaled; tie-prone programs need >=2 of 8 keys)",
    "functions closing over mutable Python state are outside the claim",
    "global_counter is allowed to tick while a seeded call STAGES a sample site (trace-time side effect of "
    "KeylessWrapper, unused by the seeded run); it must not tick when nothing is staged",
]
FLOORS = {
    "quick": {
        "programs": 50,
        "repeat_checks": 330,
        "history_runs": 150,
        "fresh_closure_checks": 120,
        "other_avals_checks": 40,
        "transform_lane_checks": 600,
        "distinct_key_leaf_checks": 200,
        "subkey_log_checks": 330,
        "subkeys_logged": 1800,
        "stack_checks": 1300,
        "counter_checks": 450,
        "fault_injections": 66,
        "thunk_probes": 66,
        "binder_form_checks": 250,
    },
    "thorough": {
        "programs": 380,
        "repeat_checks": 4300,
        "history_runs": 2400,
        "fresh_closure_checks": 1900,
        "other_avals_checks": 500,
        "transform_lane_checks": 5000,
        "distinct_key_leaf_checks": 1200,
        "subkey_log_checks": 4300,
        "subkeys_logged": 25000,
        "stack_checks": 15000,
        "counter_checks": 4000,
        "fault_injections": 600,
        "thunk_probes": 600,
        "binder_form_checks": 1400,
    },
}
TIMEOUT_S = {"quick": 2700, "thorough": 7200}  # watchdog only (shared, loaded machine); budget is ~2 / ~12 min

NKEYS = 8
ULPS_C = 16  # continuous leaves, scaled by max(1, |leaf|max)
ULPS_AUX = 64  # scores / weights: sums of log-density terms, scaled by the largest float in the output
EPS32 = float(np.finfo(np.float32).eps)

NONFAULT = [
    "unseeded-draws",
    "dist-other-shape-kwargs",
    "other-programs",
    "same-program-other-keys",
    "same-program-other-avals",
]


# ---------------------------------------------------------------------------
# plan
# ---------------------------------------------------------------------------
def plan(tier, seed):
    nprog = 52 if tier == "quick" else 380
    nbinder = 4 if tier == "quick" else 20
    if os.environ.get("VERIF_C06_NPROG"):  # development aid: a smaller plan (floors will then be missed)
        nprog = int(os.environ["VERIF_C06_NPROG"])
        nbinder = min(nbinder, 2)
    cases = []
    for i in range(nprog + nbinder):
        rng = np.random.default_rng([seed, 6, i])
        if i >= nprog:
            fam = "binder"
        else:
            fam = str(rng.choice(["plain", "gfi", "mixed"], p=[0.4, 0.33, 0.27]))
        spec = P.gen_program(rng, fam, tier, light=bool(rng.random() < 0.45))
        hist = []
        if tier == "quick":
            kinds = [str(rng.choice(NONFAULT[:2])), str(rng.choice(NONFAULT[2:], p=[0.25, 0.25, 0.5]))]
            if fam == "binder":
                kinds = ["same-program-other-avals", str(rng.choice(NONFAULT[:2]))]
            nfault = 1
        else:
            kinds = list(NONFAULT)
            rng.shuffle(kinds)
            nfault = 2
        for k in kinds:
            hist.append(_history(rng, k, spec))
        for j in range(nfault):
            hist.append({"kind": "fault", "fault": P.FAULTS[(i * nfault + j + seed) % len(P.FAULTS)]})
        order = rng.permutation(len(hist))
        hist = [hist[int(j)] for j in order]
        cases.append(
            {
                "kind": "program",
                "spec": spec,
                "hist": hist,
                "jit_first": bool(rng.random() < 0.25),
                "kseed": int(rng.integers(0, 2**31 - 1)),
                "legacy_key": bool(rng.random() < 0.15),
            }
        )
    for r in range(2 if tier == "quick" else 8):
        cases.append({"kind": "fault_enum", "round": r})
    # held sample bindings called in different forms (positional / keyword names / shapes): every history of up
    # to 2 (quick) or 3 (thorough) earlier calls, enumerated completely, before each probe form
    # constructs the seed interpreter does not interpret: it must refuse them or still deliver a pure function of the key
    cases.append({"kind": "uninterpreted", "kseed": int(seed) * 77 + 5})
    for r in range(3 if tier == "quick" else 9):
        cases.append({"kind": "binder_forms", "round": r, "depth": 2 if tier == "quick" else 3, "kseed": int(seed) * 1000 + r})
    return cases


def _history(rng, kind, spec):
    h = {"kind": kind}
    if kind == "unseeded-draws":
        h["k"] = int(rng.integers(1, 6))
    elif kind == "same-program-other-avals":
        pool = [v for v in P.X_VARIANTS if v != spec["x"]]
        if spec.get("held0"):
            pool = [v for v in ["py", "v3", "v1", "f32"] if v != spec["x"]]
        # always switch Python scalar <-> array, plus one more shape
        first = "v3" if spec["x"] in ("py", "f32") else "py"
        rest = [v for v in pool if v != first]
        h["variants"] = [first, str(rng.choice(rest))]
    elif kind == "other-programs":
        h["which"] = [int(x) for x in rng.choice(4, size=2, replace=False)]
    h["kseed"] = int(rng.integers(0, 2**31 - 1))
    return h


# ---------------------------------------------------------------------------
# worker side
# ---------------------------------------------------------------------------
_W = {}
_LOG = {"on": False, "keys": []}


def worker_setup(ctx):
    import warnings

    warnings.filterwarnings("ignore")
    import jax
    import jax.numpy as jnp
    import genjax
    import genjax.core as gcore
    import genjax.pjax as pjax

    _W.update(jax=jax, jnp=jnp, genjax=genjax, core=gcore, pjax=pjax)

    # ---- sub-key hook (DESIGN §3.2): class attribute, resolved per call
    orig = pjax.FlatSamplerCache.get_flat_sampler

    def _rec(kd):
        _LOG["keys"].append(np.asarray(kd).tobytes())

    def hooked(self, *args, **kwargs):
        flat = orig(self, *args, **kwargs)

        def flat_logged(key, *fa, **params):
            if _LOG["on"]:
                jax.debug.callback(_rec, jax.random.key_data(key), ordered=True)
            return flat(key, *fa, **params)

        return flat_logged

    pjax.FlatSamplerCache.get_flat_sampler = hooked

    # ---- lowering flags at their documented defaults
    if not (getattr(pjax, "enforce_lowering_exception", True) and not getattr(pjax, "lowering_warning", False)):
        ctx.note("lowering flags not at defaults at worker start")

    # ---- auxiliary programs for the other-programs history (fixed, cheap)
    aux = []
    for j in range(4):
        rng = np.random.default_rng([ctx.seed, 606, j])
        spec = P.gen_program(rng, ["plain", "gfi", "plain", "mixed"][j], "quick")
        aux.append((spec, P.build(spec)))
    _W["aux"] = aux
    ctx.note(
        "transform tolerance: continuous leaves 16 ulp(float32) x max(1,|leaf|); scores/weights 64 ulp x max(1, largest "
        "float in the output); a wrong key derivation moves a draw by O(1)"
    )
    ctx.note(
        "distinct-keys rule: a continuous random leaf taking the same bytes for >=3 of the keys tried is a violation "
        "(a key-insensitive site repeats for all keys; chance collisions of 3 float32 draws ~1e-14)"
    )


# ---- evaluation record -----------------------------------------------------
class Ev:
    __slots__ = ("raised", "labels", "leaves", "tree", "keylog", "dcount", "stack", "out")

    def ok(self):
        return self.raised is None


def _flatten(out):
    jax = _W["jax"]
    flat, tree = jax.tree_util.tree_flatten_with_path(out)
    labels, leaves = [], []
    for path, v in flat:
        labels.append(jax.tree_util.keystr(path))
        try:
            leaves.append(np.asarray(v))
        except Exception:  # noqa: BLE001  (non-array leaf, e.g. leaked object)
            leaves.append(np.asarray(repr(type(v))))
    return labels, leaves, str(tree)


def _eval(ctx, fn, key, a, kw, log=True):
    """One top-level seeded call with all state monitors around it."""
    jax, pjax, core = _W["jax"], _W["pjax"], _W["core"]
    ev = Ev()
    c0 = pjax.global_counter.count
    _LOG["keys"] = []
    _LOG["on"] = bool(log)
    try:
        try:
            res = ctx.call(lambda: jax.block_until_ready(fn(key, *a, **kw)))
        except jax.errors.UnexpectedTracerError as e:
            # raised by JAX itself (no genjax frame in the traceback) when a tracer that the code under
            # test kept in hidden state is used again; the harness stores no values across calls
            from lib.worker import Raised

            res = Raised(e, "UnexpectedTracerError")
            ctx.count("leaked_tracer_errors")
        if not hasattr(res, "brief"):
            jax.effects_barrier()
    finally:
        _LOG["on"] = False
    ev.keylog = list(_LOG["keys"])
    ev.dcount = pjax.global_counter.count - c0
    ev.stack = len(core.handler_stack)
    ctx.count("stack_checks")
    if hasattr(res, "brief"):
        ev.raised = res
        ev.labels, ev.leaves, ev.tree, ev.out = [], [], "", None
    else:
        ev.raised = None
        ev.out = res
        ev.labels, ev.leaves, ev.tree = _flatten(res)
    return ev


def _same_bits(e0, e1):
    """None if bit-identical, else a description of the first difference."""
    if e0.tree != e1.tree:
        return {"what": "output structure differs", "first": e0.tree[:300], "second": e1.tree[:300]}
    for lab, x, y in zip(e0.labels, e0.leaves, e1.leaves):
        if x.shape != y.shape or x.dtype != y.dtype:
            return {
                "what": "leaf shape/dtype differs",
                "leaf": lab,
                "first": [list(x.shape), str(x.dtype)],
                "second": [list(y.shape), str(y.dtype)],
            }
        if x.tobytes() != y.tobytes():
            return {
                "what": "leaf value differs",
                "leaf": lab,
                "first": x.ravel()[:6].tolist(),
                "second": y.ravel()[:6].tolist(),
            }
    return None


def _keys(case):
    """NKEYS keys; typed (jax.random.key) or legacy raw uint32 (jax.random.PRNGKey)."""
    jax = _W["jax"]
    if case.get("legacy_key"):
        return jax.random.split(jax.random.PRNGKey(case["kseed"]), NKEYS)
    return jax.random.split(jax.random.key(case["kseed"]), NKEYS)


def _feature(spec):
    return "held-sample_binder" if spec.get("held0") else "tfp-sites"


def _base_detail(case):
    return {
        "spec": case["spec"],
        "kseed": case["kseed"],
        "key": "jax.random.PRNGKey (uint32)" if case.get("legacy_key") else "jax.random.key (typed)",
        "x_variant": case["spec"]["x"],
    }


def _check_stack(ctx, ev, detail, when):
    """handler_stack must be empty after every top-level call."""
    if ev.stack != 0:
        core = _W["core"]
        kinds = [type(h).__name__ for h in core.handler_stack]
        key = (
            "handler-stack|left-non-empty-after-raising-call"
            if ev.raised is not None
            else "handler-stack|left-non-empty-after-successful-call"
        )
        ctx.violation(key, {**detail, "when": when, "handler_stack": kinds})
        del core.handler_stack[:]
        ctx.count("stack_cleared_by_harness")
        return False
    return True


def _compare_repeat(ctx, case, e0, e1, how, hist_kind):
    """Bitwise purity + identical sub-key sequence + state monitors."""
    spec = case["spec"]
    feat = _feature(spec)
    detail = {**_base_detail(case), "evaluation": how, "history": hist_kind}
    ctx.count("repeat_checks")
    _check_stack(ctx, e1, detail, f"after {how}")
    if e1.raised is not None:
        ctx.violation(
            f"repeat|{hist_kind}|{feat}|{how}|raises",
            {**detail, "first_call": "returned normally", **e1.raised.brief()},
        )
        return False
    diff = _same_bits(e0, e1)
    if diff is not None:
        ctx.violation(f"repeat|{hist_kind}|{feat}|{how}|output-differs", {**detail, **diff})
        return False
    ctx.count("subkey_log_checks")
    ctx.count("subkeys_logged", len(e1.keylog))
    if e0.keylog != e1.keylog:
        ctx.violation(
            f"repeat|{hist_kind}|{feat}|{how}|subkey-sequence-differs",
            {
                **detail,
                "n_first": len(e0.keylog),
                "n_second": len(e1.keylog),
                "first_keys": [np.frombuffer(b, dtype=np.uint32).tolist() for b in e0.keylog[:4]],
                "second_keys": [np.frombuffer(b, dtype=np.uint32).tolist() for b in e1.keylog[:4]],
            },
        )
        return False
    return True


def _counter_must_rest(ctx, case, ev, how):
    ctx.count("counter_checks")
    if ev.dcount != 0:
        ctx.violation(
            "global-counter|advanced-by-seeded-call-that-stages-nothing",
            {**_base_detail(case), "evaluation": how, "global_counter_delta": ev.dcount},
        )


# ---- histories -------------------------------------------------------------
def _run_history(ctx, case, h, f_long, sf_held):
    """Executes one perturbing history.  Returns the label used in keys."""
    jax, jnp, genjax, pjax, core = _W["jax"], _W["jnp"], _W["genjax"], _W["pjax"], _W["core"]
    from genjax import seed

    spec = case["spec"]
    kind = h["kind"]
    ctx.count("history_runs")
    ctx.count("history:" + (kind if kind != "fault" else "fault:" + h["fault"]))
    hk = jax.random.key(h.get("kseed", 1))
    detail = {**_base_detail(case), "history": h}

    def guarded(fn, what, expect_shape=None):
        r = ctx.call(lambda: jax.block_until_ready(fn()))
        n = len(core.handler_stack)
        ctx.count("stack_checks")
        if hasattr(r, "brief"):
            ctx.violation(f"history|{kind}|call-raises:{r.type}", {**detail, "call": what, **r.brief()})
            del core.handler_stack[:]
            return None
        if n:
            ctx.violation(
                "handler-stack|left-non-empty-after-successful-call", {**detail, "when": what, "depth": n}
            )
            del core.handler_stack[:]
        if expect_shape is not None:
            ctx.count("history_site_shape_checks")
            got = tuple(np.shape(r))
            if got != tuple(expect_shape):
                ctx.violation(
                    "history-site|output-shape-depends-on-earlier-calls",
                    {**detail, "call": what, "shape": list(got), "expected": list(expect_shape)},
                )
        return r

    if kind == "unseeded-draws":
        c0 = pjax.global_counter.count
        calls = [
            ("normal.sample(0.,1.)", lambda: genjax.normal.sample(0.0, 1.0), ()),
            ("flip.sample(0.3)", lambda: genjax.flip.sample(0.3), ()),
            ("normal(0.,1.)", lambda: genjax.normal(0.0, 1.0), ()),
            ("normal.sample(.., sample_shape=(2,))", lambda: genjax.normal.sample(0.0, 1.0, sample_shape=(2,)), (2,)),
            ("uniform.sample(low=0.,high=2.)", lambda: genjax.uniform.sample(low=0.0, high=2.0), ()),
        ]
        for i in range(h["k"]):
            what, fn, shp = calls[i % len(calls)]
            guarded(fn, what, shp)
        ticks = pjax.global_counter.count - c0
        ctx.count("unseeded_counter_ticks", ticks)
        if ticks < h["k"]:
            ctx.count("unseeded_history_did_not_move_counter")
    elif kind == "dist-other-shape-kwargs":
        calls = [
            ("seed: normal.sample(loc=,scale=)", lambda: seed(lambda: genjax.normal.sample(loc=0.1, scale=1.2))(hk), ()),
            (
                "seed: normal.sample(.., sample_shape=(4,))",
                lambda: seed(lambda: genjax.normal.sample(0.1, 1.2, sample_shape=(4,)))(hk),
                (4,),
            ),
            ("normal.sample(zeros(3), 1.)", lambda: genjax.normal.sample(jnp.zeros(3), 1.0), (3,)),
            ("seed: categorical.sample(zeros(5))", lambda: seed(lambda: genjax.categorical.sample(jnp.zeros(5)))(hk), ()),
            (
                "seed: flip.sample(0.3, sample_shape=(2,3))",
                lambda: seed(lambda: genjax.flip.sample(0.3, sample_shape=(2, 3)))(hk),
                (2, 3),
            ),
            (
                "seed: uniform.sample(low=zeros(2), high=2., sample_shape=(3,))",
                lambda: seed(lambda: genjax.uniform.sample(low=jnp.zeros(2), high=2.0, sample_shape=(3,)))(hk),
                (3, 2),
            ),
            (
                "seed: normal.sample(ones((2,2)), 1., sample_shape=(2,))",
                lambda: seed(lambda: genjax.normal.sample(jnp.ones((2, 2)), 1.0, sample_shape=(2,)))(hk),
                (2, 2, 2),
            ),
            ("seed: gamma.sample(2., rate=1.)", lambda: seed(lambda: genjax.gamma.sample(2.0, rate=1.0))(hk), ()),
        ]
        for what, fn, shp in calls:
            guarded(fn, what, shp)
    elif kind == "other-programs":
        for j in h["which"]:
            aspec, af = _W["aux"][j]
            a, kw = P.make_call(aspec)
            guarded(lambda: seed(af)(hk, *a, **kw), f"seed(aux{j})")
    elif kind == "same-program-other-keys":
        a, kw = P.make_call(spec)
        k1, k2 = jax.random.split(hk)
        guarded(lambda: sf_held(k1, *a, **kw), "held seed(f), other key")
        guarded(lambda: seed(f_long)(k2, *a, **kw), "new seed(f), other key")
    elif kind == "same-program-other-avals":
        key0 = _keys(case)[0]
        feat = _feature(spec)
        for v in h["variants"]:
            a, kw = P.make_call(spec, v)
            e_long = _eval(ctx, seed(f_long), key0, a, kw, log=False)
            _check_stack(ctx, e_long, detail, "long-lived closure at other avals")
            e_fresh = _eval(ctx, seed(P.build(spec)), key0, a, kw, log=False)
            _check_stack(ctx, e_fresh, detail, "fresh closure at other avals")
            ctx.count("other_avals_checks")
            d2 = {**detail, "x_variant_called": v}
            if e_fresh.raised is not None and e_long.raised is not None:
                # every generated program is polymorphic in the shape of x (the first site maps over it,
                # everything else reads a scalar summary), so a rejection is state left by earlier calls
                ctx.violation(
                    f"other-avals|{feat}|both-closures-raise-at-other-avals",
                    {**d2, "called_first_at": spec["x"], **e_long.raised.brief()},
                )
                continue
            # one mechanism key: what a closure that was already called at other avals returns is not
            # what a fresh closure of the same program returns (symptom in the detail)
            okey = f"other-avals|{feat}|long-lived-closure-disagrees-with-fresh-closure"
            if e_long.raised is not None or e_fresh.raised is not None:
                bad = e_long if e_long.raised is not None else e_fresh
                who = "long-lived closure" if e_long.raised is not None else "fresh closure"
                ctx.violation(
                    okey,
                    {**d2, "symptom": f"{who} raises, the other returns", "called_first_at": spec["x"], **bad.raised.brief()},
                )
                continue
            diff = _same_bits(e_fresh, e_long)
            if diff is not None:
                ctx.violation(
                    okey,
                    {
                        **d2,
                        "symptom": "both return, outputs differ",
                        "called_first_at": spec["x"],
                        **diff,
                        "first_is": "fresh closure",
                        "second_is": "long-lived closure",
                    },
                )
    elif kind == "fault":
        _inject_fault(ctx, h["fault"], detail)
    else:
        raise ValueError(kind)
    return kind if kind != "fault" else "fault"


def _inject_fault(ctx, name, detail):
    """One top-level GFI call that raises half-way; handler_stack must be
    empty afterwards and a later top-level dist call under seed must draw."""
    jax, genjax, core = _W["jax"], _W["genjax"], _W["core"]
    from genjax import seed

    fn, expect, method = P.make_fault(name)
    del core.handler_stack[:]
    r = ctx.call(fn)
    ctx.count("fault_injections")
    depth = len(core.handler_stack)
    ctx.count("stack_checks")
    if not hasattr(r, "brief"):
        ctx.count("fault_did_not_raise")
        ctx.note(f"fault {name} did not raise")
        del core.handler_stack[:]
        return
    if r.type != expect:
        ctx.count("fault_raised_other_type:" + r.type)
    # consequence probe BEFORE any clean-up
    probe = ctx.call(lambda: seed(lambda: genjax.normal(0.0, 1.0))(jax.random.key(11)))
    ctx.count("thunk_probes")
    if hasattr(probe, "brief"):
        probe_desc = "raised " + probe.type
    else:
        probe_desc = type(probe).__name__
    is_draw = (not hasattr(probe, "brief")) and hasattr(probe, "dtype")
    if depth != 0:
        kinds = [type(h).__name__ for h in core.handler_stack]
        ctx.violation(
            "handler-stack|left-non-empty-after-raising-call",
            {
                **detail,
                "fault": name,
                "gfi_method_left_half_way": method,
                "raised": r.type,
                "len(handler_stack)_after": depth,
                "handlers_left": kinds,
                "later seed(lambda: normal(0.,1.))(key) returned": probe_desc,
                "expected": "len(handler_stack)==0 and a float32 draw",
            },
        )
        del core.handler_stack[:]
        ctx.count("stack_cleared_by_harness")
    elif not is_draw:
        ctx.violation(
            "handler-stack|empty-but-later-top-level-call-does-not-draw",
            {**detail, "fault": name, "probe": probe_desc},
        )
    del core.handler_stack[:]


# ---- transform comparison (DESIGN §3.6) -------------------------------------
def _lane_cmp(labels, ref, got):
    """Returns (hard, soft, info): hard = continuous mismatch beyond tolerance or
    structure mismatch, soft = discrete leaf mismatch."""
    if len(ref) != len(got):
        return True, False, {"what": "number of leaves differs"}
    big = 1.0
    for x in ref:
        if x.dtype.kind == "f" and x.size:
            m = float(np.nanmax(np.abs(x)))
            if np.isfinite(m):
                big = max(big, m)
    hard = soft = False
    info = None
    for lab, x, y in zip(labels, ref, got):
        if x.shape != y.shape or x.dtype != y.dtype:
            return True, False, {
                "what": "leaf shape/dtype differs",
                "leaf": lab,
                "reference": [list(x.shape), str(x.dtype)],
                "got": [list(y.shape), str(y.dtype)],
            }
        if x.dtype.kind == "f" and not lab.startswith("['d']"):
            if lab.startswith("['aux']"):
                tol = ULPS_AUX * EPS32 * big
            else:
                m = float(np.nanmax(np.abs(x))) if x.size else 0.0
                tol = ULPS_C * EPS32 * max(1.0, m if np.isfinite(m) else 1.0)
            with np.errstate(invalid="ignore"):
                bad = ~((np.abs(x.astype(np.float64) - y.astype(np.float64)) <= tol) | (x == y) | (np.isnan(x) & np.isnan(y)))
            if bad.any() and not hard:
                hard = True
                i = int(np.argmax(bad.ravel()))
                info = {
                    "what": "continuous leaf differs",
                    "leaf": lab,
                    "reference": float(x.ravel()[i]),
                    "got": float(y.ravel()[i]),
                    "tolerance": tol,
                }
        else:
            if not np.array_equal(x, y):
                soft = True
                if info is None:
                    info = {
                        "what": "discrete leaf differs",
                        "leaf": lab,
                        "reference": x.ravel()[:6].tolist(),
                        "got": y.ravel()[:6].tolist(),
                    }
    return hard, soft, info


def _lane(ev_batched, j):
    return [x[j] for x in ev_batched.leaves]


def _undecided(results, tie_prone):
    """A single-key mismatch on fewer than NKEYS keys: more keys are needed."""
    nh = sum(1 for r in results if r[1])
    ns = sum(1 for r in results if r[2] and not r[1])
    if nh + ns == 0 or nh + ns >= 2 or len(results) >= NKEYS:
        return False
    first = next(r for r in results if r[1] or r[2])
    if first[3] and first[3].get("what", "").startswith(("leaf shape", "number", "eager call")):
        return False
    return not (nh and not tie_prone)


def _transform_verdict(ctx, case, name, results, tie_prone):
    """results: list of (key index, hard, soft, info).  DESIGN §3.6."""
    n = len(results)
    nh = sum(1 for r in results if r[1])
    ns = sum(1 for r in results if r[2] and not r[1])
    ctx.count("transform_lane_checks", n)
    if nh == 0 and ns == 0:
        return
    first = next(r for r in results if r[1] or r[2])
    detail = {
        **_base_detail(case),
        "transform_pair": name,
        "keys_tried": n,
        "keys_with_continuous_mismatch": nh,
        "keys_with_only_discrete_mismatch": ns,
        "key_index": first[0],
        **(first[3] or {}),
    }
    what0 = (first[3] or {}).get("what", "")
    if what0.startswith(("leaf shape", "number")):
        ctx.violation(f"transform|{name}|output-structure-differs", detail)
    elif what0.startswith("eager call"):
        return  # reported where it happened
    elif nh and not tie_prone:
        ctx.violation(f"transform|{name}|continuous-leaf-differs", detail)
    elif nh + ns >= 2:
        what = "continuous-leaf-differs" if nh >= 2 else "discrete-leaf-differs-for->=2-keys"
        ctx.violation(f"transform|{name}|{what}", detail)
    else:
        ctx.count("transform_single_key_tie_tolerated")


# ---- one program -----------------------------------------------------------
def run_case(case, ctx):
    if case["kind"] == "fault_enum":
        return _run_fault_enum(case, ctx)
    if case["kind"] == "binder_forms":
        return _run_binder_forms(case, ctx)
    if case["kind"] == "uninterpreted":
        return _run_uninterpreted(case, ctx)
    return _run_program(case, ctx)


# ---------------------------------------------------------------------------
# a sampling site inside a construct the seed interpreter does not look into (custom_jvp / custom_vjp functions,
# checkpoint, and nestings of them): seed may refuse the function (outside the property's domain), but if it accepts
# it the result must still be a pure function of (key, args): equal for equal keys whatever happened in between -
# also for a freshly built identical program - and different for different keys
# ---------------------------------------------------------------------------
def _uninterpreted_programs():
    jax, jnp = _W["jax"], _W["jnp"]
    import genjax

    def site(x):
        return genjax.normal.sample(x, 1.0)

    def mk_custom_vjp():
        @jax.custom_vjp
        def st(x):
            return site(x)

        st.defvjp(lambda x: (st(x), None), lambda _, g: (g,))
        return st

    def mk_custom_jvp():
        @jax.custom_jvp
        def cj(x):
            return site(x)

        cj.defjvp(lambda p, t: (cj(p[0]), t[0]))
        return cj

    def progs():
        yield "custom_vjp", lambda: (lambda x, f=mk_custom_vjp(): site(x) + f(x))
        yield "custom_jvp", lambda: (lambda x, f=mk_custom_jvp(): site(x) + f(x))
        yield "checkpoint", lambda: (lambda x: site(x) + jax.checkpoint(site)(x))
        yield "checkpoint>checkpoint", lambda: (lambda x: site(x) + jax.checkpoint(jax.checkpoint(site))(x))
        yield "checkpoint>custom_vjp", lambda: (lambda x, f=mk_custom_vjp(): site(x) + jax.checkpoint(f)(x))
        yield "custom_jvp>checkpoint", lambda: (lambda x: site(x) + jax.checkpoint(mk_custom_jvp())(x))

    return list(progs())


def _run_uninterpreted(case, ctx):
    jax, jnp = _W["jax"], _W["jnp"]
    import genjax
    from genjax import seed

    ctx.evaluation()
    rng = np.random.default_rng([case["kseed"], 67])
    x = jnp.float32(round(float(rng.normal()), 3))
    k1, k2 = jax.random.key(int(rng.integers(2**31))), jax.random.key(int(rng.integers(2**31)))
    for name, make in _uninterpreted_programs():
        det = {"construct": name, "program": f"lambda x: normal.sample(x, 1) + <{name} around normal.sample(x, 1)>", "x": float(x)}
        for how in ("eager", "jit"):
            def run(key, _make=make, _how=how):
                f = seed(_make())  # a freshly built identical program every time
                return np.asarray((jax.jit(f) if _how == "jit" else f)(key, x))

            r1 = ctx.call(run, k1)
            ctx.count("uninterpreted_probes")
            if hasattr(r1, "brief"):
                ctx.count("uninterpreted_refused")  # outside the domain of the property: seed does not accept it
                continue
            for _ in range(int(rng.integers(1, 4))):  # other sampling in between (moves the global counter)
                genjax.normal.sample(0.0, 1.0)
            r1b = ctx.call(run, k1)
            r2 = ctx.call(run, k2)
            ctx.count("uninterpreted_accepted")
            if hasattr(r1b, "brief") or hasattr(r2, "brief"):
                ctx.violation(f"uninterpreted|{name}|{how}|accepted-once-then-raises", {**det, "evaluation": how})
                continue
            if not np.array_equal(r1, r1b):
                ctx.violation(f"uninterpreted|{name}|{how}|same-key-different-result", {**det, "evaluation": how, "first": r1.tolist(), "again": r1b.tolist()})
            elif np.array_equal(r1, r2) or np.float32(r1 - r2) == np.float32(0):
                ctx.violation(f"uninterpreted|{name}|{how}|distinct-keys-same-result", {**det, "evaluation": how, "value": r1.tolist()})
            else:
                # the site inside the construct must follow the key as well: with the plain site's draw removed
                pass
        ctx.distinct("nontrivial", ["uninterpreted", name])


# ---------------------------------------------------------------------------
# held sample bindings: the result of a seeded call must not depend on which call FORMS the same binding served
# earlier (positional vs keyword, keyword names of equal arity, other shapes), seeded or unseeded
# ---------------------------------------------------------------------------
BINDER_FORMS = ["pos-logits", "kw-logits", "kw-probs", "kw-logits-vec", "kw-probs-vec"]


def _run_binder_forms(case, ctx):
    import itertools

    jax, jnp = _W["jax"], _W["jnp"]
    from genjax import seed
    from genjax.pjax import sample_binder
    import tensorflow_probability.substrates.jax as tfp

    ctx.evaluation()
    rng = np.random.default_rng([case["kseed"], 66])

    def bern_sampler(key, logits=None, *, probs=None, sample_shape=()):
        d = tfp.distributions.Bernoulli(logits=logits) if probs is None else tfp.distributions.Bernoulli(probs=probs)
        return d.sample(seed=key, sample_shape=tuple(sample_shape) + (64,))

    # a value that means very different things as a probability and as a logit
    v_s = jnp.float32(round(float(rng.uniform(0.55, 0.9)), 3))
    v_v = jnp.asarray(np.round(rng.uniform(0.55, 0.9, size=3), 3), jnp.float32)

    def call(b, form):
        if form == "pos-logits":
            return b(v_s)
        if form == "kw-logits":
            return b(logits=v_s)
        if form == "kw-probs":
            return b(probs=v_s)
        if form == "kw-logits-vec":
            return b(logits=v_v)
        if form == "kw-probs-vec":
            return b(probs=v_v)
        raise ValueError(form)

    key = jax.random.key(int(rng.integers(2**31)))
    # reference: a fresh binding per form, no history
    want = {}
    for form in BINDER_FORMS:
        b = sample_binder(bern_sampler, name="held_bern")
        r = ctx.call(lambda: np.asarray(seed(lambda: call(b, form))(key)))
        if hasattr(r, "brief"):
            ctx.violation(f"binder-forms|fresh-binding|{form}|raises", {"form": form, **r.brief()})
            return
        want[form] = r
    hists = []
    for d in range(1, case["depth"] + 1):
        hists += list(itertools.product(BINDER_FORMS, repeat=d))
    # deal the histories over the rounds; odd rounds make the earlier calls unseeded (global-counter path)
    nrounds = 3 if case["depth"] == 2 else 9
    mine = [h for i, h in enumerate(hists) if i % nrounds == case["round"] % nrounds]
    for hi, hist in enumerate(mine):
        for probe in BINDER_FORMS:
            b = sample_binder(bern_sampler, name="held_bern")
            unseeded = (hi + case["round"]) % 2 == 1
            det = {"held_binding": "sample_binder(bernoulli sampler(logits=None, *, probs=None))", "earlier_calls": list(hist),
                   "earlier_calls_seeded": not unseeded, "probe_call": probe, "scalar": float(v_s), "vector": np.asarray(v_v).tolist()}
            bad = False
            for j, form in enumerate(hist):
                if unseeded:
                    r = ctx.call(lambda: np.asarray(call(b, form)))
                else:
                    r = ctx.call(lambda: np.asarray(seed(lambda: call(b, form))(jax.random.fold_in(key, j + 1))))
                if hasattr(r, "brief"):
                    ctx.violation(f"binder-forms|history-call|{form}|raises", {**det, **r.brief()})
                    bad = True
                    break
            if bad:
                continue
            for how in ("eager", "jit"):
                fn = seed(lambda: call(b, probe))  # a new function object: staged again
                got = ctx.call(lambda: np.asarray((jax.jit(fn) if how == "jit" else fn)(key)))
                ctx.count("binder_form_checks")
                if hasattr(got, "brief"):
                    ctx.violation(f"binder-forms|held-binding|{how}|raises", {**det, **got.brief()})
                    break
                if got.shape != want[probe].shape or not np.array_equal(got, want[probe]):
                    ctx.violation(
                        "binder-forms|held-binding|result-depends-on-earlier-call-forms",
                        {**det, "evaluation": how, "mean_got": float(np.mean(got)), "mean_fresh_binding": float(np.mean(want[probe])),
                         "shape_got": list(got.shape), "shape_fresh": list(want[probe].shape)},
                    )
                    break
        ctx.distinct("nontrivial", ["binder_forms", list(hist)])
    if case["round"] == 0:
        ctx.sample({"kind": "binder_forms", "histories": len(mine), "forms": BINDER_FORMS})


def _run_fault_enum(case, ctx):
    core = _W["core"]
    ctx.evaluation()
    del core.handler_stack[:]
    for name in P.FAULTS:
        _inject_fault(ctx, name, {"case": "fault_enum", "round": case.get("round", 0)})
        ctx.distinct("nontrivial", ["fault", name])
    if case.get("round", 0) == 0:
        ctx.sample({"kind": "fault_enum", "faults": P.FAULTS})


def _run_program(case, ctx):
    jax, jnp, core, pjax = _W["jax"], _W["jnp"], _W["core"], _W["pjax"]
    from genjax import seed

    spec = case["spec"]
    sig, flags = P.features(spec)
    feat = _feature(spec)
    tie_prone = "tie-prone" in flags
    ctx.evaluation()
    ctx.count("programs")
    for fl in flags:
        if not fl.startswith("site:"):
            ctx.count("feature:" + fl)
    nsites = P.count_sites(spec)
    nontrivial = nsites >= 3 and any(
        fl.split(":")[0] in ("plain", "gen", "method") for fl in flags if ":" in fl
    )
    if nontrivial:
        ctx.distinct("nontrivial", [sig, sorted(h["kind"] for h in case["hist"])])

    # programs with scan / cond / rejection samplers compile on every eager run
    cheap = not P.has_compiled_control_flow(spec)
    thorough = ctx.tier == "thorough"
    del core.handler_stack[:]
    f_long = P.build(spec)
    sf_held = seed(f_long)
    a, kw = P.make_call(spec)
    keys = _keys(case)
    key0 = keys[0]
    if case.get("legacy_key"):
        ctx.count("feature:legacy-uint32-key")
    base = _base_detail(case)

    jitted = {}

    def jit_all():
        """jit(seed(f)) for all keys; returns list of Ev (or None when it raised)."""
        if "evs" in jitted:
            return jitted["evs"]
        jf = jax.jit(sf_held)
        evs = []
        for j in range(NKEYS):
            ev = _eval(ctx, jf, keys[j], a, kw, log=False)
            _check_stack(ctx, ev, base, "after jit(seed(f))")
            if ev.raised is not None:
                ctx.violation(f"transform|jit|{feat}|raises", {**base, "key_index": j, **ev.raised.brief()})
                evs = None
                break
            if j >= 1:
                # a compiled seeded function must not touch the unseeded counter
                _counter_must_rest(ctx, case, ev, "second call of jit(seed(f))")
            evs.append(ev)
        jitted["evs"] = evs
        jitted["jf"] = jf
        return evs

    if case.get("jit_first"):
        ctx.count("jit_first_programs")
        jit_all()

    # ---------------- phase A: first evaluation, immediate repeats
    e0 = _eval(ctx, sf_held, key0, a, kw)
    _check_stack(ctx, e0, base, "after first seed(f) call")
    if e0.raised is not None:
        ctx.violation(f"seed|first-call|{feat}|raises", {**base, **e0.raised.brief()})
        return
    ctx.count("counter_ticks_while_staging", e0.dcount)
    ctx.count("subkeys_logged", len(e0.keylog))
    if len(e0.keylog) == 0:
        ctx.count("programs_without_logged_subkeys")
    e1 = _eval(ctx, sf_held, key0, a, kw)
    if _compare_repeat(ctx, case, e0, e1, "held-seed(f)", "immediate"):
        _counter_must_rest(ctx, case, e1, "immediate repeat of held seed(f)")
    if cheap or thorough:
        e1b = _eval(ctx, seed(f_long), key0, a, kw)
        if _compare_repeat(ctx, case, e0, e1b, "new-seed-wrapper", "immediate"):
            _counter_must_rest(ctx, case, e1b, "immediate repeat through a new seed(f) wrapper")
        e1c = _eval(ctx, seed(P.build(spec)), key0, a, kw)
        ctx.count("fresh_closure_checks")
        _compare_repeat(ctx, case, e0, e1c, "fresh-closure", "immediate")

    # ---------------- phase B: histories
    for hi, h in enumerate(case["hist"]):
        label = _run_history(ctx, case, h, f_long, sf_held)
        # programs that compile on every eager run alternate between the two repeat styles (quick tier)
        both = cheap or thorough
        if both or (hi + case.get("index", 0)) % 2 == 0:
            eh = _eval(ctx, sf_held, key0, a, kw)
            if _compare_repeat(ctx, case, e0, eh, "held-seed(f)", label):
                _counter_must_rest(ctx, case, eh, f"repeat of held seed(f) after history {label}")
        if both or (hi + case.get("index", 0)) % 2 == 1:
            ef = _eval(ctx, seed(P.build(spec)), key0, a, kw)
            ctx.count("fresh_closure_checks")
            _compare_repeat(ctx, case, e0, ef, "fresh-closure", label)

    # ---------------- phase C: transforms
    jevs = jit_all()
    n_eager = NKEYS if cheap else (3 if thorough else 2)
    eag = {}

    eag[0] = e0  # key0 is keys[0]: the first evaluation doubles as eager lane 0

    def eager(j):
        if j not in eag:
            ev = _eval(ctx, sf_held, keys[j], a, kw, log=False)
            _check_stack(ctx, ev, base, "after eager seed(f)")
            eag[j] = ev
        return eag[j]

    if jevs is not None:
        res = []

        def add(j):
            ev = eager(j)
            if ev.raised is not None:
                ctx.violation(f"seed|other-key|{feat}|raises", {**base, "key_index": j, **ev.raised.brief()})
                res.append((j, True, False, {"what": "eager call raised"}))
            else:
                res.append((j,) + _lane_cmp(ev.labels, ev.leaves, jevs[j].leaves))

        for j in range(n_eager):
            add(j)
        if _undecided(res, tie_prone):
            ctx.count("transform_escalated_to_all_keys")
            for j in range(n_eager, NKEYS):
                add(j)
        _transform_verdict(ctx, case, "eager-vs-jit", res, tie_prone)

    def batched(name, fn):
        ev = _eval(ctx, lambda ks: fn(ks), keys, (), {}, log=False)
        _check_stack(ctx, ev, base, f"after {name}")
        if ev.raised is not None:
            ctx.violation(f"transform|{name}|{feat}|raises", {**base, **ev.raised.brief()})
            return None
        return ev

    vf = jax.vmap(lambda k: sf_held(k, *a, **kw))
    if thorough or case.get("index", 0) % 3 == 0:
        ev_v = batched("vmap", vf)
    else:
        # op-by-op batched evaluation runs the same genjax code as jit(vmap) does while tracing: one program
        # in three in the quick tier
        ev_v = None
        ctx.count("eager_vmap_skipped_for_cost")
    ev_jv = batched("jit(vmap)", jax.jit(vf))
    ref = jevs
    ref_name = "jit"
    if ref is None:
        # jit itself failed (already reported): fall back to the eager lanes we have
        ref = [eager(j) for j in range(n_eager)]
        ref = [e for e in ref if e.raised is None]
        ref_name = "eager"
    for name, evb in (("vmap", ev_v), ("jit(vmap)", ev_jv)):
        if evb is None or not ref:
            continue
        res = []
        for j, rj in enumerate(ref):
            res.append((j,) + _lane_cmp(rj.labels, rj.leaves, _lane(evb, j)))
        _transform_verdict(ctx, case, f"{ref_name}-vs-{name}", res, tie_prone)

    # ---------------- distinct keys
    pool = ref if ref else []
    if len(pool) >= 3:
        labels = pool[0].labels
        for li, lab in enumerate(labels):
            if not (lab.startswith("['c']") or lab.startswith("['h']")):
                continue
            ctx.count("distinct_key_leaf_checks")
            seen = {}
            for e in pool:
                b = e.leaves[li].tobytes()
                seen[b] = seen.get(b, 0) + 1
            worst = max(seen.values())
            if worst >= 3:
                ctx.violation(
                    f"distinct-keys|{feat}|continuous-leaf-repeats-across-keys",
                    {
                        **base,
                        "leaf": lab,
                        "keys_tried": len(pool),
                        "keys_sharing_one_value": worst,
                        "value": pool[0].leaves[li].ravel()[:6].tolist(),
                        "evaluated_with": ref_name,
                    },
                )
                break

    # ---------------- final repeat: after jit / vmap / jit(vmap) runs
    ez = _eval(ctx, sf_held, key0, a, kw)
    if _compare_repeat(ctx, case, e0, ez, "held-seed(f)", "after-jit-and-vmap-runs"):
        _counter_must_rest(ctx, case, ez, "repeat of held seed(f) after jit/vmap runs")

    if case.get("index", 0) % 31 == 0:
        ctx.sample(
            {
                "kind": "program",
                "family": spec["family"],
                "features": flags,
                "sites": nsites,
                "histories": [h["kind"] if h["kind"] != "fault" else "fault:" + h["fault"] for h in case["hist"]],
                "subkeys_first_call": len(e0.keylog),
                "h": float(np.asarray(e0.out["h"])),
            }
        )
