"""C05 — traces stay coherent under any history of edits and inference moves.

History monitor: from an initial trace (some addresses observed through
generate) apply a seeded random sequence of operations drawn from
{update(args), update(constraints), update(both), regenerate, mh, mala, hmc,
vectorize-regenerate + resample_vectorized_trace + index one particle,
index out of a vectorized trace, jit round trip, Trace.update}.  After EVERY
step the reference interpreter decides:

  coherent   score == -density(choices; get_args()), retval == program(choices)
  args       get_args() are the arguments of the last operation
  observed   addresses observed at creation and never selected / re-constrained
             still hold their original values (bitwise)
  telescope  weights of consecutive updates sum to ref(last) - ref(first)
  stack      genjax.core.handler_stack is empty between operations
"""

from __future__ import annotations

import math

import numpy as np

PROPERTY = "C05"
LEVEL = "exploration"
RULE = (
    "programs from the spec grammar, SeedSequence([VERIF_SEED, 5, index]); per program several random operation "
    "histories (length 6 quick / 16 thorough) over a pool of selections and constraint subsets of the unobserved "
    "addresses; distinct_nontrivial = distinct (program structural hash, operation-kind sequence) histories of "
    "length >= 3 that contain at least two different operation kinds"
)
ASSUMPTIONS = [
    "reference interpreter lib/refmodel.py (float64); selection reference lib/selspec.py",
    "JAX API translation layer (DESIGN §2)",
]
OPS = ["update_args", "update_cons", "update_both", "regenerate", "mh", "mala", "hmc", "vec_resample_index", "jit_roundtrip", "trace_update"]
FLOORS = {
    "quick": {"steps_checked": 300, "distinct:bigrams": 45, "telescope_checks": 30, "op_mh": 20, "op_mala": 8, "op_hmc": 8, "op_vec_resample_index": 15},
    "thorough": {"steps_checked": 5000, "distinct:bigrams": 80, "telescope_checks": 400, "op_mh": 300, "op_mala": 100, "op_hmc": 100, "op_vec_resample_index": 200},
}
TIMEOUT_S = {"quick": 1800, "thorough": 7200}
CLEAR_CACHES_EVERY = {"quick": 0, "thorough": 6}  # see lib/worker.py
N_CASES = {"quick": 40, "thorough": 300}
FAMILY_CYCLE = ["builtin", "mixed", "builtin", "probe"]
GEN_CFG = {"max_stmts": 3, "kinds": {"site": 5, "call": 1.0, "vmap": 1.2, "scan": 0.8, "cond": 2.2, "let": 0.4}}


def plan(tier, seed):
    return [{"family": FAMILY_CYCLE[i % len(FAMILY_CYCLE)], "gseed": [seed, 5, i]} for i in range(N_CASES[tier])]


def _perturb(prog, vals, rng, scale):
    out = []
    for (cls, shape), v in zip(prog["ptypes"], vals):
        a = np.asarray(v)
        if cls == "f":
            out.append(np.round(a + rng.normal(size=a.shape) * scale, 3).astype(np.float32).tolist())
        else:
            out.append(v)
    return out


def run_case(case, ctx):
    import jax
    import jax.numpy as jnp
    import genjax.core as gcore
    from genjax import modular_vmap, seed
    from genjax.inference import hmc, mala, mh
    from genjax.inference.smc import resample_vectorized_trace

    from lib import gfi, probes, spec
    from lib import refmodel as R
    from lib import selspec as S

    tier = ctx.tier
    g, prog = gfi.make_case_program(case["gseed"], case["family"], tier, GEN_CFG)
    rng = np.random.default_rng(case["gseed"] + [11])
    ctx.evaluation()
    h = spec.struct_hash(prog)
    feats = spec.features(prog)
    base = {"program": spec.show(prog), "family": case["family"]}
    gf = ctx.call(spec.build, prog)
    if hasattr(gf, "brief"):
        ctx.violation(gfi.raise_key("build", gf), {**base, **gf.brief()})
        return
    lp = spec.leaf_paths(prog)
    paths = sorted(lp)
    if len(paths) < 2:
        ctx.count("skipped_too_few_addresses")
        return

    def dist_of(p):
        st = lp[p][0]
        return st["callee"]["dist"] if st["k"] == "vmap" else st["dist"]

    # observed addresses (about a third), never touched afterwards
    nobs = max(1, len(paths) // 3)
    obs = frozenset(paths[int(i)] for i in rng.choice(len(paths), size=nobs, replace=False))
    free = [p for p in paths if p not in obs]
    cont_free = [p for p in free if dist_of(p) in spec.CONTINUOUS and dist_of(p) not in ("uniform", "p_uniform", "exponential")]
    vals = g.arg_values(prog)

    # pools (compiled functions are reused across steps and histories)
    def mk_sel(ps):
        e = ["none"]
        for p in ps:
            t = ["tup", list(p)] if len(p) > 1 else ["str", p[0]]
            e = t if e == ["none"] else ["or", e, t]
        return e

    sel_pool = []
    for _ in range(3):
        k = int(rng.integers(1, max(2, len(free))))
        ps = [free[int(i)] for i in rng.choice(len(free), size=min(k, len(free)), replace=False)]
        sel_pool.append((frozenset(ps), S.build(mk_sel(ps)), S.show(mk_sel(ps))))
    # a selection that can switch a Cond (the choices feeding its predicate), when there is one
    feeders = [p for p in sorted(spec.cond_feeders(prog)) if p in free]
    if feeders:
        ps = feeders[:2]
        sel_pool[0] = (frozenset(ps), S.build(mk_sel(ps)), S.show(mk_sel(ps)))
        ctx.count("programs_with_cond_feeder_selection")
    cont_sel = None
    if cont_free:
        ps = [cont_free[int(i)] for i in rng.choice(len(cont_free), size=min(2, len(cont_free)), replace=False)]
        cont_sel = (frozenset(ps), S.build(mk_sel(ps)), S.show(mk_sel(ps)))
    cons_pool = []
    for _ in range(2):
        k = int(rng.integers(1, max(2, len(free))))
        cons_pool.append(frozenset(free[int(i)] for i in rng.choice(len(free), size=min(k, len(free)), replace=False)))

    J = {
        "generate": jax.jit(seed(gf.generate)),
        "update": jax.jit(gf.update),
        "regenerate": jax.jit(seed(gf.regenerate)),
        "mh": jax.jit(seed(mh)),
        "mala": jax.jit(seed(lambda t, s: mala(t, s, 0.08))),
        "hmc": jax.jit(seed(lambda t, s: hmc(t, s, 0.05, 2))),
        "assess": jax.jit(gf.assess),
        "identity": jax.jit(lambda t: t),
    }
    NP = 3

    def vec_regen(t, s, *a):
        return modular_vmap(lambda _: gf.regenerate(t, s, *a)[0], in_axes=0, axis_size=NP)(jnp.zeros(NP))

    J["vec_regen"] = jax.jit(seed(vec_regen))
    J["vec_resample"] = jax.jit(seed(lambda t, lw: resample_vectorized_trace(t, lw, NP, "categorical")))

    n_hist = 3 if tier == "quick" else 8
    length = 6 if tier == "quick" else 16
    sampled = False
    for hi in range(n_hist):
        # ---- initial trace with observations
        ref0 = R.run(prog, vals, chooser=R.prior_chooser(rng, safe=True))
        if ref0.min_margin < 1e-4 or not math.isfinite(ref0.total):
            ctx.count("skipped_near_tie")
            continue
        obs_np = R.restrict(ref0.choices, obs)
        args = spec.to_jax_args(prog, vals)
        r = ctx.call(J["generate"], jax.random.key(int(rng.integers(2**31))), R.to_jax(obs_np), *args)
        if hasattr(r, "brief"):
            ctx.violation(gfi.raise_key("generate", r), {**base, "args": vals, **r.brief()})
            return
        tr = r[0]
        cur_vals = vals
        hist = []
        upd_run = None  # (ref density at start of the current run of updates, sum of weights)
        obs_leaves = R.flat_leaves(obs_np)
        ok = True
        prev_op = "init"
        for step in range(length):
            ops = list(OPS)
            if cont_sel is None:
                ops = [o for o in ops if o not in ("mala", "hmc")]
            op = ops[int(rng.integers(len(ops)))]
            key = jax.random.key(int(rng.integers(2**31)))
            cur_args = spec.to_jax_args(prog, cur_vals)
            vals_before = cur_vals
            new_vals = cur_vals
            w = None
            desc = {"op": op}
            probes.HOST.reset("observe", int(rng.integers(2**31)))
            if op in ("update_args", "update_both", "update_cons", "trace_update"):
                if op in ("update_args", "update_both"):
                    new_vals = _perturb(prog, cur_vals, rng, 0.4)
                cons = None
                if op in ("update_cons", "update_both", "trace_update"):
                    sub = cons_pool[int(rng.integers(len(cons_pool)))]
                    refc = R.run(prog, new_vals, chooser=R.prior_chooser(rng, safe=True))
                    cons_np = R.restrict(refc.choices, sub)
                    cons = R.to_jax(cons_np)
                    desc["constrained"] = sorted(gfi.pstr(p) for p in sub)
                na = spec.to_jax_args(prog, new_vals)
                if op == "trace_update":
                    res = ctx.call(lambda: tr.update(cons))
                else:
                    res = ctx.call(J["update"], tr, cons, *na)
                if not hasattr(res, "brief"):
                    new_tr, w = res[0], res[1]
            elif op == "regenerate":
                sset, sel, sshow = sel_pool[int(rng.integers(len(sel_pool)))]
                desc["selection"] = sshow
                res = ctx.call(J["regenerate"], key, tr, sel, *cur_args)
                if not hasattr(res, "brief"):
                    new_tr = res[0]
            elif op == "mh":
                sset, sel, sshow = sel_pool[int(rng.integers(len(sel_pool)))]
                desc["selection"] = sshow
                res = ctx.call(J["mh"], key, tr, sel)
                new_tr = res
            elif op in ("mala", "hmc"):
                sset, sel, sshow = cont_sel
                desc["selection"] = sshow
                res = ctx.call(J[op], key, tr, sel)
                new_tr = res
            elif op == "vec_resample_index":
                sset, sel, sshow = sel_pool[int(rng.integers(len(sel_pool)))]
                desc["selection"] = sshow
                res = ctx.call(J["vec_regen"], key, tr, sel, *cur_args)
                if not hasattr(res, "brief"):
                    lw = jnp.asarray(rng.normal(size=NP).astype(np.float32))
                    res = ctx.call(J["vec_resample"], jax.random.key(int(rng.integers(2**31))), res, lw)
                if not hasattr(res, "brief"):
                    j = int(rng.integers(NP))
                    desc["lane"] = j
                    vt = res
                    res = ctx.call(lambda: jax.tree_util.tree_map(lambda v: v[j], vt))
                    new_tr = res
            elif op == "jit_roundtrip":
                res = ctx.call(J["identity"], tr)
                new_tr = res
            hist.append(desc)
            ctx.count("op_" + op)
            ctx.distinct("bigrams", [prev_op, op])
            prev_op = op
            d = {**base, "initial_args": vals, "observed": sorted(gfi.pstr(p) for p in obs), "history": list(hist), "step": step}
            if hasattr(res, "brief"):
                ctx.violation(gfi.raise_key(op, res), {**d, **res.brief()})
                ok = False
                break
            tr_prev, tr = tr, new_tr
            cur_vals = new_vals
            # ---------------------------------------------- after-step oracle
            chk = ctx.call(_after_step, ctx, prog, tr, cur_vals, d, J["assess"], obs_leaves, op)
            if hasattr(chk, "brief"):
                ctx.violation(gfi.raise_key(op + "-result", chk), {**d, **chk.brief()})
                ok = False
                break
            status, ref = chk
            if status == "bad":
                ok = False
                break
            if status == "skip":
                break
            ctx.count("steps_checked")
            if len(gcore.handler_stack) != 0:
                ctx.violation("handler-stack|not-empty-after-operation", {**d, "depth": len(gcore.handler_stack)})
                ok = False
                break
            # ---- telescoping of consecutive updates
            if w is not None:
                if upd_run is None:
                    ref_prev = R.run(prog, vals_before, choices=R.to_numpy(tr_prev.get_choices()))
                    upd_run = [ref_prev.total, 0.0, ref_prev.abs_sum()]
                upd_run[1] += float(w)
                want = ref.total - upd_run[0]
                t = R.tol(upd_run[2] + ref.abs_sum(), 2 * len(ref.sites)) * (1 + len(hist))
                ctx.count("telescope_checks")
                if math.isfinite(want) and not (abs(upd_run[1] - want) <= t):
                    ctx.violation("update|weights-do-not-telescope", {**d, "sum_of_weights": upd_run[1], "reference": want, "tol": t})
                    ok = False
                    break
            else:
                upd_run = None
        kinds = [x["op"] for x in hist]
        if ok and len(hist) >= 3 and len(set(kinds)) >= 2:
            ctx.distinct("nontrivial", [h, kinds])
            if not sampled:
                sampled = True
                ctx.sample({"program": spec.show(prog), "observed": sorted(gfi.pstr(p) for p in obs), "history": hist})


def _after_step(ctx, prog, tr, cur_vals, d, assess_fn, obs_leaves, op):
    from lib import gfi, spec
    from lib import refmodel as R

    args = spec.to_jax_args(prog, cur_vals)
    status, ref = gfi.coherence(ctx, op, prog, cur_vals, tr, d, assess_fn, args, allow_outside=True)
    if status != "ok":
        return status, ref
    ap = gfi.args_problem(tr, args)
    if ap is not None:
        ctx.violation(f"{op}|get_args-differs" + ap, {**d, "expected_args": cur_vals})
        if not ap.endswith("recorded-per-lane"):
            return "bad", ref
    got = R.flat_leaves(R.to_numpy(tr.get_choices()))
    for p, v in obs_leaves.items():
        if p not in got or np.shape(got[p]) != np.shape(v) or not np.array_equal(np.asarray(got[p]), np.asarray(v).astype(np.asarray(got[p]).dtype)):
            ctx.violation(f"{op}|observed-address-changed", {**d, "path": gfi.pstr(p)})
            return "bad", ref
    return "ok", ref
