"""C19 — state/save is transparent and collects exactly what was saved.

Workload: seeded *placement specs* (lib/c19_spec.py) saying where
``save(name=value)`` / ``tag_state(v1, .., name=..)`` / leaf-mode ``save(v1, ..)``
sit: nested Python functions, ``namespace`` wrappers (nested), ``jax.lax.scan``
bodies (nested scans, namespace around a scan, namespace inside a scan body,
scan inside a namespace inside a scan), ``jax.vmap`` / ``genjax.modular_vmap``
lanes, repeated writes to one name, several values per save.  ``save`` inside
``cond`` is outside the claim and never generated.

``build_real`` turns a spec into the real function (real save / tag_state /
namespace / scan / vmap).  ``lib.c19_spec.Ref`` is the independent oracle
(pure Python + numpy float64, threads its own namespace list, loops instead of
scan / vmap).  Every program is run as

    f(*args)                     (plain; the un-instrumented result)
    state(f)(*args), jax.jit(state(f))(*args)
    seed(state(f))(key, *args), state(seed(f))(key, *args)   [+ jit(seed(state(f)))]

(programs with ``normal.sample`` sites only in the seeded forms, compared with
the same-key ``seed(f)`` run whose samples are handed to the oracle) and
monitored for: result == un-instrumented result; collected dict == reference
(same key set at every level, arity, dtype, shape, values).
"""

from __future__ import annotations

import itertools

import numpy as np

from lib import c19_spec as S

PROPERTY = "C19"
LEVEL = "exploration"
RULE = (
    "seeded placement specs (depth<=3 quick / <=4 thorough frames, <=2 / <=3 nested scan|vmap levels): "
    "save/tag_state/leaf-save statements inside nested functions, namespaces (incl. nested, around scans, "
    "inside scan bodies), scans (nested, reverse, 1-2 carries, xs none/int/float/batched), jax.vmap and "
    "modular_vmap lanes (in_axes 0/1/None); every saved value depends on every enclosing iteration index "
    "and lane; all sizes along one nesting chain differ.  distinct_nontrivial = distinct structural "
    "skeletons (statement kinds, nesting, namespaces, sizes, in_axes; constants dropped) with >=2 writes "
    "of which at least one sits under a namespace, scan or vmap"
)
ASSUMPTIONS = [
    "JAX API translation layer (DESIGN §2)",
    "'batched' under vmap fixes no axis position: the lane axis of a collected value may sit anywhere "
    "relative to scan axes / value axes (counted as batch_axis_not_leading); scan iteration axes must be "
    "leading and in nesting order",
    "a scan merges its stacked values as one write at the position of the scan statement (later write wins)",
    "one name is never used both as a namespace and as a saved name; a leaf-mode namespace holds nothing else",
    "a value that does not depend on the lane may be collected without the lane axis (only generated in the "
    "flagged mixed-batching programs)",
]
FLOORS = {
    "quick": {
        "state_runs": 100, "jit_state_runs": 100, "seed_state_runs": 60, "state_seed_runs": 60,
        "leaves_compared": 1500, "leaves_under_scan": 300, "leaves_under_vmap": 200,
        "leaves_under_ns": 400, "leaves_nested_scan": 30, "leaves_repeated_write": 200,
        "leaves_multi_value": 80, "leaves_leaf_mode": 80, "leaves_ns_around_scan": 60, "result_checks": 450,
    },
    "thorough": {
        "state_runs": 800, "jit_state_runs": 800, "seed_state_runs": 450, "state_seed_runs": 450,
        "leaves_compared": 12000, "leaves_under_scan": 2500, "leaves_under_vmap": 1600,
        "leaves_under_ns": 3200, "leaves_nested_scan": 250, "leaves_repeated_write": 1600,
        "leaves_multi_value": 600, "leaves_leaf_mode": 600, "leaves_ns_around_scan": 450, "result_checks": 3400,
    },
}
TIMEOUT_S = {"quick": 900, "thorough": 5400}
NCASES = {"quick": 200, "thorough": 1500}
TOL = 2e-5


def plan(tier, seed):
    cases = []
    for k, prog in enumerate(S.fixed_programs()):
        rng = np.random.default_rng([seed, 19, 10**6 + k])
        cases.append({
            "prog": prog,
            "args": {"x": round(float(rng.uniform(-1.5, 1.5)), 3),
                     "v": [round(float(t), 3) for t in rng.uniform(-1.5, 1.5, size=prog["LV"])],
                     "key": int(rng.integers(0, 2**31 - 1))},
        })
    for i in range(NCASES[tier]):
        prog, args = S.generate(seed, i, tier)
        cases.append({"prog": prog, "args": args})
    return cases


# ---------------------------------------------------------------------------
# worker side: the real interpreter of a spec
# ---------------------------------------------------------------------------
_W = {}


def worker_setup(ctx):
    import jax
    import jax.numpy as jnp
    from genjax import modular_vmap, normal, seed
    from genjax.state import namespace, save, state, tag_state

    _W.update(
        jax=jax, jnp=jnp, modular_vmap=modular_vmap, normal=normal, seed=seed,
        namespace=namespace, save=save, state=state, tag_state=tag_state,
    )
    ctx.note(
        "float tolerance |real-ref| <= 2e-5*(1+|ref|) (real float32, reference float64); saved values "
        "differ between iterations / lanes / writes by O(0.1..1)"
    )


def build_real(prog):
    """The real function described by ``prog``: f(x, v) -> (tuple of all top-level
    values, tree of sampled values in frame order)."""
    jax, jnp = _W["jax"], _W["jnp"]
    save, tag_state, namespace = _W["save"], _W["tag_state"], _W["namespace"]
    normal, modular_vmap = _W["normal"], _W["modular_vmap"]
    LV = prog["LV"]
    f32 = jnp.float32

    def fl(a):
        return jnp.asarray(a, dtype=f32)

    def ev(e, env, top=True):
        op = e[0]
        if op == "v":
            val = env[e[1]]
            return val if top else fl(val)
        if op == "c":
            return fl(e[1])
        if op == "add":
            return ev(e[1], env, False) + ev(e[2], env, False)
        if op == "sub":
            return ev(e[1], env, False) - ev(e[2], env, False)
        if op == "mul":
            return ev(e[1], env, False) * ev(e[2], env, False)
        if op == "sin":
            return jnp.sin(ev(e[1], env, False))
        if op == "scale":
            return fl(e[1]) * ev(e[2], env, False)
        if op == "sum":
            return jnp.sum(ev(e[1], env, False))
        if op == "mean":
            a = ev(e[1], env, False)
            return jnp.sum(a) / fl(a.size)
        if op == "idx":
            return ev(e[1], env, False)[e[2]]
        if op == "spread":
            return ev(e[1], env, False) + fl(S.SPREAD_STEP) * jnp.arange(LV, dtype=f32)
        raise ValueError(op)

    def wrap_ns(fn, names):
        for ns in reversed(names):
            fn = namespace(fn, ns)
        return fn

    def run_block(block, env):
        smp = []
        for st in block:
            k = st["k"]
            if k == "let":
                env[st["v"]] = ev(st["e"], env, False)
            elif k == "save":
                save(**{name: ev(e, env) for name, e in st["items"]})
            elif k == "tag":
                out = tag_state(*[ev(e, env) for e in st["es"]], name=st["name"])
                if st.get("bind"):
                    outs = out if isinstance(out, tuple) else (out,)
                    for v, o in zip(st["bind"], outs):
                        env[v] = o
            elif k == "leaf":
                save(*[ev(e, env) for e in st["es"]])
            elif k == "sample":
                z = normal.sample(ev(st["mu"], env, False), S.SIGMA)
                env[st["v"]] = z
                smp.append(z)
            elif k == "call":

                def fn(*a, _st=st, _env=env):
                    e2 = dict(_env)
                    e2.update(zip(_st["params"], a))
                    s2 = run_block(_st["body"], e2)
                    return ev(_st["ret"], e2, False), s2

                r, s2 = wrap_ns(fn, st["ns"])(*[ev(a, env, False) for a in st["args"]])
                env[st["v"]] = r
                smp.append(s2)
            elif k == "scan":
                smp.append(do_scan(st, env))
            elif k == "vmap":
                smp.append(do_vmap(st, env))
            else:
                raise ValueError(k)
        return smp

    def do_scan(st, env):
        n = st["n"]
        single = len(st["carry"]) == 1

        def body(carry, xv, _st=st, _env=env):
            e2 = dict(_env)
            cs = (carry,) if single else carry
            for c, val in zip(_st["carry"], cs):
                e2[c["p"]] = val
            if _st["xp"] is not None:
                e2[_st["xp"]] = xv
            s2 = run_block(_st["body"], e2)
            couts = tuple(ev(e, e2, False) for e in _st["cout"])
            y = ev(_st["y"], e2, False) if _st["y"] is not None else None
            return (couts[0] if single else couts), (y, s2)

        form = st["xs"]["form"]
        if form == "iota_i":
            xs = jnp.arange(n, dtype=jnp.int32)
        elif form == "iota_f":
            xs = jnp.arange(n, dtype=f32)
        elif form == "ramp":
            xs = ev(st["xs"]["e"], env, False) + fl(S.LANE_STEP) * jnp.arange(n, dtype=f32)
        else:
            xs = None
        inits = tuple(ev(c["init"], env, False) for c in st["carry"])
        init = inits[0] if single else inits
        cfin, (ys, s2) = jax.lax.scan(wrap_ns(body, st["ns_body"]), init, xs, length=n, reverse=st["rev"])
        cf = (cfin,) if single else cfin
        for v, val in zip(st["vc"], cf):
            env[v] = val
        if st["vy"] is not None:
            env[st["vy"]] = ys
        return s2

    def do_vmap(st, env):
        B = st["B"]

        def lane(*a, _st=st, _env=env):
            e2 = dict(_env)
            for p, val in zip(_st["params"], a):
                e2[p["p"]] = val
            s2 = run_block(_st["body"], e2)
            return ev(_st["ret"], e2, False), s2

        args, axes = [], []
        lanes = fl(S.LANE_STEP) * jnp.arange(B, dtype=f32)
        for p in st["params"]:
            base = ev(p["e"], env, False)
            f = p["form"]
            if f == "lanes_s":
                args.append(base + lanes)
                axes.append(0)
            elif f in ("lanes_v0", "lanes_v1"):
                vec = base if jnp.ndim(base) == 1 else base + fl(S.SPREAD_STEP) * jnp.arange(LV, dtype=f32)
                if f == "lanes_v0":
                    args.append(vec[None, :] + lanes[:, None])
                    axes.append(0)
                else:
                    args.append(vec[:, None] + lanes[None, :])
                    axes.append(1)
            else:
                args.append(base)
                axes.append(None)
        g = wrap_ns(lane, st["ns_body"])
        if st["kind"] == "jax":
            mapped = jax.vmap(g, in_axes=tuple(axes))
        else:
            mapped = modular_vmap(g, in_axes=tuple(axes))
        r, s2 = mapped(*args)
        env[st["v"]] = r
        return s2

    def f(x, v):
        env = {"x": fl(x), "v": fl(v)}
        smp = run_block(prog["body"], env)
        return tuple(env[n] for n in prog["ret"]), smp

    return f


# ---------------------------------------------------------------------------
# comparison helpers
# ---------------------------------------------------------------------------
def _close(a, b):
    return a.shape == b.shape and bool(np.all(np.abs(a - b) <= TOL * (1.0 + np.abs(b))))


def _rnd(a):
    return np.round(np.asarray(a, dtype=np.float64), 5).tolist()


def _flatten_real(d, prefix=()):
    """path -> ("leaf", [arrays], is_tuple) | ("empty-namespace",)"""
    out = {}
    for k, v in d.items():
        p = prefix + (k,)
        if isinstance(v, dict):
            if not v:
                out[p] = ("empty-namespace",)
            else:
                out.update(_flatten_real(v, p))
        elif isinstance(v, (tuple, list)):
            out[p] = ("leaf", [np.asarray(u) for u in v], True)
        else:
            out[p] = ("leaf", [np.asarray(v)], False)
    return out


def _perms_keeping(ndim, vpos):
    others = [i for i in range(ndim) if i not in vpos]
    for perm in itertools.permutations(range(ndim)):
        sub = [i for i in perm if i in others]
        if sub == others:
            yield perm


def _match_array(r, e, axes):
    """'ok' | 'ok-relaxed' | 'ok-unbatched' | 'dtype' | 'shape' | 'value'"""
    want = "int32" if e.dtype.kind in "iu" else "float32"
    if str(r.dtype) != want:
        return "dtype"
    r64, e64 = r.astype(np.float64), e.astype(np.float64)
    if _close(r64, e64):
        return "ok"
    vpos = [i for i, t in enumerate(axes) if t == "V"]
    if vpos and r64.ndim == e64.ndim:
        for perm in _perms_keeping(e64.ndim, vpos):
            if _close(r64, np.transpose(e64, perm)):
                return "ok-relaxed"
    # a value that does not depend on the lane may be collected without the lane axis
    const_v = [i for i in vpos if np.all(e64 == np.take(e64, [0], axis=i))]
    for k in range(1, len(const_v) + 1):
        for drop in itertools.combinations(const_v, k):
            e2 = e64
            for i in sorted(drop, reverse=True):
                e2 = np.take(e2, 0, axis=i)
            axes2 = [t for i, t in enumerate(axes) if i not in drop]
            vpos2 = [i for i, t in enumerate(axes2) if t == "V"]
            if r64.ndim == e2.ndim:
                for perm in _perms_keeping(e2.ndim, vpos2):
                    if _close(r64, np.transpose(e2, perm)):
                        return "ok-unbatched"
    return "shape" if r64.shape != e64.shape else "value"


def _entry_matches(rec, ent):
    if rec[0] != "leaf":
        return False
    _, vals, tup = rec
    if tup != ent.tup or len(vals) != len(ent.vals):
        return False
    return all(_match_array(r, np.asarray(e), ent.axes).startswith("ok") for r, e in zip(vals, ent.vals))


def _explain_array(r, ent, j):
    """Name the way a collected array is wrong (mechanism, not values)."""
    e = np.asarray(ent.vals[j], dtype=np.float64)
    r = r.astype(np.float64)
    axes = ent.axes
    spos = [i for i, t in enumerate(axes) if t == "S"]
    for h in ent.hist:
        if j < len(h["vals"]) and _close(r, np.asarray(h["vals"][j], dtype=np.float64)):
            return "repeated-write|earlier-value-kept"
    if len(spos) >= 2:
        for perm in itertools.permutations(range(e.ndim)):
            if perm != tuple(range(e.ndim)) and all(perm[i] == i for i in range(e.ndim) if i not in spos):
                if _close(r, np.transpose(e, perm)):
                    return "nested-scan|stacking-axis"
    for ax in spos:
        if _close(r, np.flip(e, axis=ax)):
            return "scan|iteration-order-reversed"
    if r.ndim != e.ndim:
        return "collected|rank-differs|under:" + S.prov_kinds(ent)
    return None


def compare_collected(real, exp, ctx, count=True):
    """List of (key, detail) for every way ``real`` (nested dict from genjax)
    differs from ``exp`` (path -> Entry from the reference)."""
    out = []
    if not isinstance(real, dict):
        return [("collected|not-a-dict", {"got_type": type(real).__name__})]
    R = _flatten_real(real)
    loc = S.real_location_if_scan_drops_namespaces
    # -- entries written in a scan that sits inside a namespace: if such an entry is not
    #    (correctly) at its place, name the misplacement; remember where the stray copies are
    handled = set()
    stray = set()
    for p, ent in exp.items():
        for h in ent.hist:
            qh = loc(p, ent, prov=h["prov"], mode=h["mode"])
            if qh and qh != p and qh in R:
                stray.add(qh)
        q = loc(p, ent)
        if q is None or q == p:
            continue
        if count:
            ctx.count("leaves_ns_around_scan")
        if p in R and _entry_matches(R[p], ent):
            continue
        handled.add(p)
        if q and q in R:
            stray.add(q)
        out.append((
            "scan-in-namespace|collected-at-wrong-level",
            {"expected_path": "/".join(p), "found_at": "/".join(q) if q and q in R else None,
             "written_under": S.prov_kinds(ent), "expected_value": [_rnd(v) for v in ent.vals],
             "real_keys": sorted("/".join(x) for x in R)},
        ))
    missing = [p for p in exp if p not in handled and (p not in R or R[p][0] != "leaf")]
    for p in missing:
        ent = exp[p]
        # lost because a scan replaced the namespace dict it shares a name with?
        shared = False
        for p2, e2 in exp.items():
            if p2 == p or not any(t.startswith("scan#") for t in e2.prov):
                continue
            loc2 = _after_last_scan(p2, e2)
            if loc2 and len(loc2) >= 2 and loc2[0] == p[0]:
                shared = True
        if shared:
            key = "scan-merge|replaces-namespace-dict|earlier-entries-lost"
        else:
            key = "collected|entry-missing|under:" + S.prov_kinds(ent)
        out.append((key, {"expected_path": "/".join(p), "written_under": S.prov_kinds(ent),
                          "expected_value": [_rnd(v) for v in ent.vals],
                          "real_keys": sorted("/".join(x) for x in R)}))
    for p in R:
        if p not in exp and p not in stray:
            out.append((
                "collected|unexpected-entry" if R[p][0] == "leaf" else "collected|empty-namespace-dict",
                {"path": "/".join(p), "expected_keys": sorted("/".join(x) for x in exp)},
            ))
    # -- entries at the right place: arity, dtype, shape, value
    for p, ent in exp.items():
        if p in missing or p in handled:
            continue
        if p in stray and not _entry_matches(R[p], ent):
            # overwritten by a stray copy of a misplaced entry (already reported above)
            ctx.count("leaves_masked_by_misplaced_entry")
            continue
        _, vals, tup = R[p]
        kinds = S.prov_kinds(ent)
        if count:
            ctx.count("leaves_compared")
            if "scan" in kinds:
                ctx.count("leaves_under_scan")
            if "vmap" in kinds:
                ctx.count("leaves_under_vmap")
            if "ns" in kinds:
                ctx.count("leaves_under_ns")
            if ent.axes.count("S") >= 2:
                ctx.count("leaves_nested_scan")
            if ent.hist:
                ctx.count("leaves_repeated_write")
            if ent.tup:
                ctx.count("leaves_multi_value")
            if ent.mode == "leaf":
                ctx.count("leaves_leaf_mode")
        if tup != ent.tup or len(vals) != len(ent.vals):
            out.append((
                "collected|multi-value-arity|" + ent.mode,
                {"path": "/".join(p), "expected_count": len(ent.vals), "expected_tuple": ent.tup,
                 "got_count": len(vals), "got_tuple": tup},
            ))
            continue
        for j, (r, e) in enumerate(zip(vals, ent.vals)):
            e = np.asarray(e)
            m = _match_array(r, e, ent.axes)
            if m == "ok":
                continue
            if m == "ok-relaxed":
                ctx.count("batch_axis_not_leading")
                continue
            if m == "ok-unbatched":
                ctx.count("lane_independent_value_collected_unbatched")
                continue
            if m == "dtype":
                key = "collected|dtype-differs"
            else:
                key = _explain_array(r, ent, j) or (
                    ("collected|shape-differs|under:" if m == "shape" else "collected|value-differs|under:") + kinds
                )
            out.append((
                key,
                {"path": "/".join(p), "value_index": j, "written_under": kinds, "axes": ent.axes,
                 "expected_shape": list(e.shape), "got_shape": list(r.shape), "got_dtype": str(r.dtype),
                 "expected": _rnd(e), "got": _rnd(r),
                 "earlier_writes": [_rnd(h["vals"][j]) for h in ent.hist if j < len(h["vals"])][:3]},
            ))
    return out


def _after_last_scan(path, ent):
    last = None
    for i, t in enumerate(ent.prov):
        if t.startswith("scan#"):
            last = i
    if last is None:
        return path
    inner = tuple(t[3:] for t in ent.prov[last + 1:] if t.startswith("ns:"))
    return inner if ent.mode == "leaf" else inner + (path[-1],)


def compare_result(got, base):
    """None or (what, detail): got / base are pytrees of arrays."""
    jax = _W["jax"]
    lg, tg = jax.tree_util.tree_flatten(got)
    lb, tb = jax.tree_util.tree_flatten(base)
    if tg != tb:
        return "structure", {"got": str(tg), "expected": str(tb)}
    for i, (a, b) in enumerate(zip(lg, lb)):
        a, b = np.asarray(a), np.asarray(b)
        if a.dtype != b.dtype:
            return "dtype", {"leaf": i, "got": str(a.dtype), "expected": str(b.dtype)}
        if a.shape != b.shape:
            return "shape", {"leaf": i, "got": list(a.shape), "expected": list(b.shape)}
        if not _close(a.astype(np.float64), b.astype(np.float64)):
            return "value", {"leaf": i, "got": _rnd(a), "expected": _rnd(b)}
    return None


def compare_plain(base_ret, ref_ret):
    """Plain f(*args) against the reference evaluation (save / tag_state are identities)."""
    for i, (a, r) in enumerate(zip(base_ret, ref_ret)):
        a, r = np.asarray(a), np.asarray(r)
        want = "int32" if r.dtype.kind in "iu" else "float32"
        if str(a.dtype) != want:
            return "dtype", {"leaf": i, "got": str(a.dtype), "expected": want}
        if a.shape != r.shape:
            return "shape", {"leaf": i, "got": list(a.shape), "expected": list(r.shape)}
        if not _close(a.astype(np.float64), r.astype(np.float64)):
            return "value", {"leaf": i, "got": _rnd(a), "expected": _rnd(r)}
    return None


def _np_tree(t):
    if t is None:
        return None
    if isinstance(t, (list, tuple)):
        return [_np_tree(u) for u in t]
    return np.asarray(t)


# ---------------------------------------------------------------------------
# one case
# ---------------------------------------------------------------------------
def run_case(case, ctx):
    jax = _W["jax"]
    state, seed = _W["state"], _W["seed"]
    prog, args = case["prog"], case["args"]
    feats = S.features(prog)
    fset = set(feats["feats"])
    has_sample = "sample" in fset
    mixed = "mixed" in fset
    ctx.evaluation()
    for ft in fset:
        ctx.count("feat:" + ft)
    if feats["writes"] >= 2 and any(("ns" in t or "scan" in t or "vmap" in t) and ":" not in t for t in fset):
        ctx.distinct("nontrivial", S.skeleton(prog))

    f = build_real(prog)
    x = np.float32(args["x"])
    v = np.asarray(args["v"], dtype=np.float32)
    key = jax.random.key(args["key"])
    found = {}  # key -> {"detail":..., "variants":[...]}
    ran = []

    def report(k, detail, variant):
        if k not in found:
            found[k] = {"detail": detail, "variants": [variant]}
        elif variant not in found[k]["variants"]:
            found[k]["variants"].append(variant)

    def flush():
        for k, rec in found.items():
            ctx.violation(
                k,
                {"variants_showing_it": rec["variants"], "variants_run": ran, "args": args,
                 "features": sorted(fset), **rec["detail"], "program": prog},
            )

    # ---- the un-instrumented run
    base_name = "seed(f)" if has_sample else "f"
    try:
        base = ctx.call(lambda: seed(f)(key, x, v) if has_sample else f(x, v))
        if not hasattr(base, "brief"):
            base = jax.block_until_ready(base)
    except Exception as e:  # noqa: BLE001
        if not mixed:
            raise
        base = None
        report(
            "vmap|multi-value-tag-mixed-batch-dims|identity-broken",
            {"what": "the plain function (no state wrapper) fails", "raised": type(e).__name__, "msg": str(e)[:300]},
            base_name,
        )
        flush()
        return
    ran.append(base_name)
    if hasattr(base, "brief"):
        kk = (
            "vmap|multi-value-tag-mixed-batch-dims|identity-broken" if mixed
            else f"{'seed' if has_sample else 'plain'}|un-instrumented-run|raises:{base.type}"
        )
        report(kk, {"what": "the function without state() raises", **base.brief()}, base_name)
        flush()
        return
    base_ret, base_smp = base
    ref_ret, exp = S.Ref(prog).run(args["x"], args["v"], _np_tree(base_smp))
    ctx.count("plain_runs")
    # tag_state / save are identities: the plain result equals the reference value
    bad = compare_plain(base_ret, ref_ret)
    if bad is not None:
        kk = (
            "vmap|multi-value-tag-mixed-batch-dims|identity-broken" if mixed
            else "tag_state|value-passed-through|differs-from-reference:" + bad[0]
        )
        report(kk, {"what": "plain f(*args) differs from the reference evaluation", **bad[1]}, base_name)
        flush()
        return

    # ---- instrumented variants
    if has_sample:
        variants = [
            ("seed(state)", "seed_state_runs", lambda: seed(state(f))(key, x, v)),
            ("state(seed)", "state_seed_runs", lambda: state(seed(f))(key, x, v)),
            ("jit(seed(state))", "jit_seed_state_runs", lambda: jax.jit(seed(state(f)))(key, x, v)),
        ]
    else:
        variants = [
            ("state", "state_runs", lambda: state(f)(x, v)),
            ("jit(state)", "jit_state_runs", lambda: jax.jit(state(f))(x, v)),
        ]
        if case.get("index", 0) % 2 == 0:
            variants.append(("seed(state)", "seed_state_runs", lambda: seed(state(f))(key, x, v)))
        else:
            variants.append(("state(seed)", "state_seed_runs", lambda: state(seed(f))(key, x, v)))

    leaf_unstorable = [
        p for p, e in exp.items()
        if e.mode == "leaf" and S.real_location_if_scan_drops_namespaces(p, e) == ()
    ]
    for name, counter, thunk in variants:
        res = ctx.call(lambda: jax.block_until_ready(thunk()))
        ran.append(name)
        ctx.count(counter)
        if hasattr(res, "brief"):
            if res.type == "ValueError" and "Leaf mode" in res.msg and leaf_unstorable:
                report(
                    "scan-in-namespace|leaf-save|raises:ValueError",
                    {"expected_path": "/".join(leaf_unstorable[0]), **res.brief()}, name,
                )
            elif mixed:
                # the wrong out-dims of the tag_state batch rule can surface only once the
                # function is staged (same mechanism as the plain-run failure)
                report(
                    "vmap|multi-value-tag-mixed-batch-dims|identity-broken",
                    {"what": "plain f(*args) happens to work, the state-wrapped run raises", **res.brief()}, name,
                )
            else:
                report(f"state|run|raises:{res.type}", res.brief(), name)
            continue
        if not (isinstance(res, tuple) and len(res) == 2):
            report("state|return-shape|not-(result,dict)", {"got_type": type(res).__name__}, name)
            continue
        got_ret, got_coll = res
        ctx.count("result_checks")
        bad = compare_result(got_ret, base)
        if bad is not None:
            report(
                "vmap|multi-value-tag-mixed-batch-dims|identity-broken" if mixed else "state|result-changed",
                {"what": bad[0], "compared_with": base_name, **bad[1]}, name,
            )
        for k, detail in compare_collected(got_coll, exp, ctx, count=True):
            report(k, detail, name)
    flush()
    if case.get("index", 0) % 37 == 0:
        ctx.sample({
            "program": prog, "args": args, "features": sorted(fset), "variants_run": ran,
            "expected_collected": {
                "/".join(p): {"shape": [list(np.shape(u)) for u in e.vals], "axes": e.axes,
                              "under": S.prov_kinds(e), "earlier_writes": len(e.hist)}
                for p, e in exp.items()
            },
        })
