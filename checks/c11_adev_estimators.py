"""C11 — ADEV value and gradient estimators are unbiased (exact for enumeration).

Runtime monitoring of ``genjax.adev.expectation`` programs generated from VERIF_SEED
(``lib/c11_ref.gen_program``): chains of 1-4 ADEV sites (every exported primitive,
scalar and batched — direct array parameters or an inner ``modular_vmap`` —), whose
parameters depend on the arguments and on earlier outcomes, smooth deterministic
code between them, ``jax.lax.cond`` on discrete outcomes (branches may hold a site),
and a return value with products of the outcomes (cross terms).  The oracle is an
independent float64 interpreter of the same spec (``lib/c11_ref.Ref``: finite
enumeration, 200-term geometric sums, Gauss-Hermite / Gauss-Legendre quadrature,
4th-order central differences).  The estimators' internal randomness is driven
through ``lib/c11_host`` (the two sample_binder doors; DESIGN §3.2).

Monitors (mechanism part of the violation key in brackets):

  [enum]      enumeration-only programs: jvp_estimate / grad_estimate / estimate equal the exact expectation and
              its derivative; two different PRNG keys give bit-equal results (zero variance).
  [pathwise]  reparameterised + enumeration programs: with the standardised noise chosen by the host (one constant
              per run; then independent logged draws), primal and tangent equal the float64 program with the site
              replaced by loc + scale * noise (pathwise identity per draw).
  [script]    score-function / measure-valued discrete sites, the lane-wise Rao-Blackwellised batched flip
              estimators, normal_reinforce scripted at Gauss-Hermite nodes under a polynomial integrand, composed with
              enumeration and reparameterised sites: depth-first exploration of ALL outcome scripts of the real
              jvp_estimate / grad_estimate; sum(prob * tangent) equals the exact derivative (cross terms included),
              sum(prob * primal) the exact value.
  [stat]      real samplers, jax.vmap over N keys of seed(jvp_estimate) and seed(grad_estimate): z-tests of the means
              against the exact value / derivative.  Also identifies the forward law of geometric_reinforce
              (probability vs logit) from forward runs of the program, which is then the reference law.
  [equiv]     same key: grad_estimate == jvp_estimate tangents along basis directions; estimate == jvp primal;
              jit == op-by-op; modular_vmap over the arguments == lane-by-lane runs (host policy: outcome is a
              deterministic function of the element's parameters).

On a failure the culprit primitive is named by running that primitive's one-site unit program under the same
monitor (cached per worker); if no unit program fails the key says ``composed(<primitives>)``.
"""

from __future__ import annotations

import math
import os
import re

import numpy as np

from lib import c11_ref as R

PROPERTY = "C11"
LEVEL = "exploration"
RULE = (
    "expectation programs drawn from VERIF_SEED by lib/c11_ref.gen_program in four families (enum, pathwise, script, "
    "stat) plus one-site unit programs of every exported ADEV primitive (scalar, batched direct, batched through an "
    "inner modular_vmap); each program is run at 2-3 (quick) / 4-6 (thorough) argument points with a random tangent "
    "direction; distinct_nontrivial = distinct structural signatures (primitive sequence, batching, cond nesting, "
    "argument shapes) of programs with >= 2 sites of which one depends on another's outcome"
)
ASSUMPTIONS = [
    "reference: lib/c11_ref.Ref, float64 numpy; continuous laws integrated by 12-32 node Gauss quadrature (integrands are "
    "compositions of sin/cos/tanh/exp(-k/2)/polynomials with scale <= 1: quadrature error < 1e-7), derivatives by 4th-order "
    "central differences with h = 2e-3 (error < 1e-8)",
    "laws: flip(p) p = P(True); categorical(logits); normal(loc, scale); uniform(low, high); multivariate normal(loc, "
    "covariance); geometric counts failures (support 0,1,...) and its parameter is read the way the program's own forward "
    "run (seed(f)) samples it — identified by a z-test of forward draws against both readings",
    "geometric outcome scripts are truncated where the tail mass is < 1e-9 (the neglected contribution is < 1e-6 of a term)",
    "zero variance is demanded of scalar flip_enum, flip_enum_parallel and categorical_enum_parallel; a batched flip_enum "
    "documents lane-wise Rao-Blackwellisation (it samples) and is checked for exact unbiasedness by script exploration",
    "statistical monitor: studentised z-test, N = 1e5 (quick) / 4e5 (thorough) draws per test, threshold |z| > 7.5 "
    "(two-sided tail 6.4e-14; <= 15000 tests per run keep the family-wise false-alarm rate <= 1e-9 under the normal "
    "approximation; integrands are bounded or polynomial in Gaussian draws so the Cramer correction at z = 7.5 is < 10x)",
    "parameters stay in the open interior of their domains (p in [0.15, 0.85], geometric p in [0.35, 0.75], scale in [0.4, 1])",
    "JAX API translation layer (DESIGN §2)",
]
FLOORS = {
    "quick": {
        "enum_points_decided": 30, "enum_key_pairs_bitequal": 30, "pathwise_const_decided": 40, "pathwise_stream_decided": 20,
        "script_instances_decided": 60, "script_leaves": 600, "stat_tests": 80, "equiv_grad_vs_jvp": 60, "equiv_jit_vs_eager": 20,
        "equiv_mvmap": 30, "programs_with_cond": 10, "programs_two_estimator_kinds": 25, "forward_law_identified": 1, "forward_law_tests": 20,
        "batched_sites_decided": 15,
    },
    "thorough": {
        "enum_points_decided": 150, "enum_key_pairs_bitequal": 150, "pathwise_const_decided": 200, "pathwise_stream_decided": 100,
        "script_instances_decided": 300, "script_leaves": 3000, "stat_tests": 400, "equiv_grad_vs_jvp": 300, "equiv_jit_vs_eager": 100,
        "equiv_mvmap": 150, "programs_with_cond": 50, "programs_two_estimator_kinds": 120, "forward_law_identified": 1, "forward_law_tests": 20,
        "batched_sites_decided": 60,
    },
}
TIMEOUT_S = {"quick": 3600, "thorough": 10800}  # watchdog only (shared machine); see CASE_BUDGET_S
CASE_BUDGET_S = 120

Z_THRESHOLD = 7.5
MAX_TESTS = 15000
N_STAT = {"quick": 100_000, "thorough": 400_000}
MAX_LEAVES = {"quick": 1500, "thorough": 6000}
GH_NODES = 5
TOL = 4e-5

UNIT_FAMILY = {}
for _p in R.ENUM:
    UNIT_FAMILY[_p] = "enum"
for _p in R.REPARAM:
    UNIT_FAMILY[_p] = "pathwise"
for _p in R.DSTOCH:
    UNIT_FAMILY[_p] = "script"
for _p in R.CREINF:
    UNIT_FAMILY[_p] = "stat"


def plan(tier, seed):
    quick = tier == "quick"
    npts = 2 if quick else 4
    counts = {"enum": 16, "pathwise": 18, "script": 30, "stat": 20} if quick else {"enum": 100, "pathwise": 110, "script": 200, "stat": 100}
    cases = []

    def add(family, spec, tag, unit=None, n=npts):
        i = len(cases)
        rng = np.random.default_rng([int(seed), 11, 7, i])
        pts = [R.gen_point(rng, spec) for _ in range(n)]
        cases.append({"family": family, "spec": spec, "points": pts, "vseed": [int(seed), 11, i], "unit": unit, "tag": tag})

    # unit programs: every primitive alone, under every monitor that applies to it
    for prim in R.ALL_PRIMS:
        variants = [0]
        if prim in R.BATCHABLE:
            variants += [2, 3]
        if prim in R.NORMAL_LAW:
            variants += [4, 5, 6]
        if prim in ("flip_enum", "flip_mvd"):
            variants += [7, 8]
        for var in variants:
            spec = R.unit_program(prim, var)
            fam = UNIT_FAMILY[prim]
            if prim == "flip_enum" and var:
                fam = "script"  # batched flip_enum samples (lane-wise Rao-Blackwellisation)
            add(fam, spec, f"unit:{prim}:{var}", unit=prim)
            if fam == "script":
                add("stat", spec, f"unit-stat:{prim}:{var}", unit=prim, n=1)
        if prim == "normal_reinforce":
            add("script", R.unit_program(prim, 1), "unit-gh:normal_reinforce", unit=prim)
    add("enum", R.unit_cond_site_program(), "unit:site-inside-cond-branch")
    add("enum", R.unit_cond_after_parallel_program(), "unit:cond-under-parallel-enumeration")
    for fam in ("enum", "pathwise", "script", "stat"):
        for j in range(counts[fam]):
            rng = np.random.default_rng([int(seed), 11, {"enum": 1, "pathwise": 2, "script": 3, "stat": 4}[fam], j])
            spec = R.gen_program(rng, fam)
            add(fam, spec, f"{fam}:{j}", n=(npts + 1 if fam != "stat" else max(1, npts // 2)))
    # the law of every primitive executed as a plain sample site (the sampler the pure continuation runs)
    cases.append({"family": "forward", "spec": None, "points": [], "vseed": [int(seed), 11, 999], "unit": None, "tag": "forward-laws"})
    for i, c in enumerate(cases):
        c["index"] = i
    flt = os.environ.get("VERIF_C11_FILTER")  # development aid: regular expression on the case tag
    if flt:
        cases = [c for c in cases if re.search(flt, c["tag"])]
    return cases


# ---------------------------------------------------------------------------
# worker side
# ---------------------------------------------------------------------------
_W = {}


def worker_setup(ctx):
    import jax
    import jax.numpy as jnp
    import genjax  # noqa: F401
    from lib import c11_host as H

    H.install()
    import genjax.adev as adev
    from genjax.pjax import modular_vmap, seed

    _W.update(jax=jax, jnp=jnp, adev=adev, seed=seed, modular_vmap=modular_vmap, H=H, HOST=H.HOST, unit_cache={}, geo=None,
              ntests=0)
    R.selftest()
    n = N_STAT[ctx.tier]
    ctx.note(
        f"statistical monitor: N = {n} draws per test, |z| > {Z_THRESHOLD} (two-sided tail 6.4e-14, <= {MAX_TESTS} tests per "
        f"run -> family-wise false alarm <= 1e-9); detectable bias with power 0.999: {(Z_THRESHOLD + 3.1) / math.sqrt(n):.4f} "
        "standard deviations of the single-draw estimator (a dropped term or wrong sign moves the mean by O(1) of a term, "
        "i.e. 0.1-1 standard deviations)"
    )
    ctx.note(
        f"exact monitors: |observed - reference| <= {TOL} * (1 + sum(prob * |leaf|) + |reference|) in float32 vs float64; "
        "a dropped / mis-weighted term moves a value by O(0.1-1)"
    )


# ---- jax interpreter of the spec --------------------------------------------------------------------------------


def _jev(e, env, th):
    jax, jnp = _W["jax"], _W["jnp"]
    op = e[0]
    if op == "c":
        return float(e[1])
    if op == "p":
        return th[e[1]]
    if op == "v":
        return env[e[1]]
    if op == "+":
        return _jev(e[1], env, th) + _jev(e[2], env, th)
    if op == "-":
        return _jev(e[1], env, th) - _jev(e[2], env, th)
    if op == "*":
        return _jev(e[1], env, th) * _jev(e[2], env, th)
    if op == "vec":
        return jnp.stack([jnp.asarray(_jev(x, env, th), jnp.float32) for x in e[1:]])
    if op == "idx":
        return _jev(e[1], env, th)[e[2]]
    if op == "sum":
        return jnp.sum(_jev(e[1], env, th))
    if op == "dot":
        return jnp.sum(_jev(e[1], env, th) * _jev(e[2], env, th))
    if op == "where":
        return jnp.where(_jev(e[1], env, th), _jev(e[2], env, th), _jev(e[3], env, th))
    if op == "eq":
        return _jev(e[1], env, th) == e[2]
    if op == "tab":
        return jnp.asarray(e[2], jnp.float32)[_jev(e[1], env, th)]
    if op == "cov2":
        s1, s2, r = (jnp.asarray(_jev(x, env, th), jnp.float32) for x in e[1:4])
        return jnp.stack([jnp.stack([s1 * s1, r * s1]), jnp.stack([r * s1, r * r + s2 * s2])])
    x = _jev(e[1], env, th)
    if op == "neg":
        return -x
    if op == "sin":
        return jnp.sin(x)
    if op == "cos":
        return jnp.cos(x)
    if op == "tanh":
        return jnp.tanh(x)
    if op == "sq":
        return x * x
    if op == "sig":
        return jax.nn.sigmoid(x)
    if op == "exp":
        return jnp.exp(x)
    if op == "f":
        return jnp.asarray(x, jnp.float32)
    if op == "prob":
        return 0.15 + 0.7 * jax.nn.sigmoid(x)
    if op == "gprob":
        return 0.35 + 0.4 * jax.nn.sigmoid(x)
    if op == "scale":
        return 0.4 + 0.6 * jax.nn.sigmoid(x)
    if op == "not":
        return jnp.logical_not(x)
    raise ValueError(op)


def _jbody(body, env, th):
    jax, jnp, adev = _W["jax"], _W["jnp"], _W["adev"]
    for st in body:
        if st["s"] == "let":
            env[st["v"]] = _jev(st["e"], env, th)
        elif st["s"] == "site":
            prim = getattr(adev, st["prim"])
            args = [_jev(a, env, th) for a in st["args"]]
            if st.get("how") == "mvmap":
                mapped = [i for i, a in enumerate(args) if jnp.ndim(a) > 0]
                fixed = {i: a for i, a in enumerate(args) if i not in mapped}

                def lane(*xs, _prim=prim, _mapped=mapped, _fixed=fixed, _n=len(args)):
                    full = [None] * _n
                    for i, x in zip(_mapped, xs):
                        full[i] = x
                    for i, a in _fixed.items():
                        full[i] = a
                    return _prim(*full)

                env[st["v"]] = _W["modular_vmap"](lane)(*[args[i] for i in mapped])
            else:
                env[st["v"]] = prim(*args)
        else:
            pred = _jev(st["pred"], env, th)

            def mk(br):
                def fn():
                    benv = dict(env)
                    _jbody(br["body"], benv, th)
                    return jnp.asarray(_jev(br["ret"], benv, th), jnp.float32)

                return fn

            env[st["v"]] = jax.lax.cond(pred, mk(st["t"]), mk(st["f"]))


def build_fn(spec):
    names = [p["name"] for p in spec["params"]]

    def f(*args):
        th = dict(zip(names, args))
        env = {}
        _jbody(spec["body"], env, th)
        return _W["jnp"].asarray(_jev(spec["ret"], env, th), _W["jnp"].float32)

    return f


class Prog:
    """One spec bound to the real ADEV entry points (compiled lazily, once per variant).

    genjax caches staged jaxprs by function identity, and a staged sample site keeps the keyed sampler it was traced
    with; the host-driven and the real-sampler variants therefore get their own function objects (``_build``)."""

    def __init__(self, spec):
        self.spec = spec
        self.names = [p["name"] for p in spec["params"]]
        self.vector_arg = any(p["n"] for p in spec["params"])
        self.n = len(self.names)
        self.builds = {}
        self.cache = {}

    def _build(self, hosted):
        if hosted not in self.builds:
            adev = _W["adev"]
            f = build_fn(self.spec)
            e = adev.expectation(f)
            Dual = adev.Dual
            n = self.n

            def jvp(*a):
                d = e.jvp_estimate(*[Dual(x, t) for x, t in zip(a[:n], a[n:])])
                return d.primal, d.tangent

            def grad(*a):
                g = e.grad_estimate(*a)
                return g if n > 1 else (g,)

            def est(*a):
                return e.estimate(*a)

            self.builds[hosted] = {"jvp": jvp, "grad": grad, "est": est, "fwd": f}
        return self.builds[hosted]

    def validate(self, th):
        """the harness's own interpreter must trace the program (no ADEV involved): an error here is ours"""
        _W["jax"].make_jaxpr(build_fn(self.spec))(*self.args(th))

    def args(self, th, v=None):
        jnp = _W["jnp"]
        a = [jnp.asarray(th[k], jnp.float32) for k in self.names]
        if v is not None:
            a += [jnp.asarray(v[k], jnp.float32) for k in self.names]
        return a

    def fn(self, what, variant):
        """variant: jit (real samplers) | host (jit, host call-backs) | eager | keys (jit(vmap over keys)) | mvmap (host)"""
        jax, seed = _W["jax"], _W["seed"]
        k = (what, variant)
        if k not in self.cache:
            raw = self._build(variant in ("host", "mvmap"))[what]
            if variant in ("jit", "host"):
                self.cache[k] = jax.jit(seed(raw))
            elif variant == "eager":
                self.cache[k] = seed(raw)
            elif variant == "keys":
                nargs = self.n * (2 if what == "jvp" else 1)
                self.cache[k] = jax.jit(jax.vmap(seed(raw), in_axes=(0,) + (None,) * nargs))
            elif variant == "mvmap":
                self.cache[k] = jax.jit(seed(_W["modular_vmap"](raw)))
            else:
                raise ValueError(variant)
        return self.cache[k]

    def call(self, what, variant, key, *a):
        """host variants trace and run with the host switched on, the others with the host off."""
        HOST = _W["HOST"]
        fn = self.fn(what, variant)
        HOST.on = variant in ("host", "mvmap")
        try:
            return _W["jax"].block_until_ready(fn(key, *a))
        finally:
            HOST.on = False


class Fail(Exception):
    def __init__(self, quantity, detail):
        self.quantity = quantity
        self.detail = detail


def _guard(ctx, fn):
    from lib.worker import Raised
    import traceback

    try:
        return ctx.call(fn)
    except Fail:
        raise
    except Exception as e:  # noqa: BLE001 - jit hides genjax frames for errors surfacing at lowering
        tb = traceback.format_exc()
        if "genjax" in tb or "beartype" in tb:
            return Raised(e, tb)
        raise


def _run(ctx, prog, what, variant, key, *a):
    r = _guard(ctx, lambda: prog.call(what, variant, key, *a))
    if hasattr(r, "brief"):
        raise Fail("raises:" + r.type, {"entry": what, "variant": variant, **r.brief()})
    return r


def _f64(x):
    return np.asarray(x, dtype=np.float64)


def _ok(got, ref, scale=0.0):
    got, ref = _f64(got), _f64(ref)
    if got.shape != ref.shape:
        return False
    if not np.all(np.isfinite(got)):
        return False
    return bool(np.all(np.abs(got - ref) <= TOL * (1.0 + scale + np.abs(ref))))


def _key(i):
    return _W["jax"].random.key(1000 + i)


def _geo_param(ctx):
    """Forward law of geometric_reinforce(p): probability or logit?  (z-test of forward draws against both)"""
    if _W["geo"] is None:
        jax, jnp, seed, adev = _W["jax"], _W["jnp"], _W["seed"], _W["adev"]
        n, p = 40000, 0.55
        ks = jax.random.split(jax.random.key(77), n)
        draws = _guard(ctx, lambda: jax.jit(jax.vmap(seed(lambda q: adev.geometric_reinforce(q)), in_axes=(0, None)))(ks, jnp.float32(p)))
        if hasattr(draws, "brief"):
            _W["geo"] = ("probs", {"raised": draws.brief()})
            return _W["geo"][0]
        x = _f64(draws)
        zs = {}
        for nm, q in (("probs", p), ("logits", 1 / (1 + math.exp(-p)))):
            zs[nm] = (x.mean() - (1 - q) / q) / (math.sqrt((1 - q) / q**2) / math.sqrt(n))
        ok = [nm for nm, z in zs.items() if abs(z) < Z_THRESHOLD]
        info = {"p": p, "n": n, "forward_mean": float(x.mean()), "z": zs, "min": float(x.min())}
        if len(ok) == 1:
            ctx.count("forward_law_identified")
            ctx.note(f"geometric_reinforce forward law (seed(f) draws, p={p}): parameter is read as {ok[0]} {info}")
            _W["geo"] = (ok[0], info)
        else:
            ctx.violation("stat|geometric_reinforce|forward-law-matches-neither-reading", info)
            _W["geo"] = ("probs", info)
    return _W["geo"][0]


def _mk_pol(spec, mode, **kw):
    nc = R.n_cont_axes(spec)
    nq = 32 if nc <= 2 else (20 if nc == 3 else 12)
    geo = kw.pop("geo_param", "probs")
    return lambda: R.Policy(mode, nq=nq, geo_param=geo, **kw)


def _has_geo(spec):
    return "geometric_reinforce" in R.prims_of(spec)


def _th_detail(th, v=None):
    d = {"args": th}
    if v is not None:
        d["tangents"] = v
    return d


# ---- monitors: each raises Fail(quantity, detail) on the first disagreement ---------------------------------------------


def mon_enum(ctx, prog, th, v, count=True):
    spec = prog.spec
    ref = R.Ref(spec)
    mk = _mk_pol(spec, "exact")
    e0, d0 = ref.value_and_dir(th, v, mk)
    a = prog.args(th, v)
    p1, t1 = _run(ctx, prog, "jvp", "jit", _key(1), *a)
    p2, t2 = _run(ctx, prog, "jvp", "jit", _key(2), *a)
    det = {**_th_detail(th, v), "primal": [float(p1), float(p2)], "tangent": [float(t1), float(t2)], "reference_value": e0,
           "reference_tangent": d0}
    if not (np.asarray(p1).tobytes() == np.asarray(p2).tobytes() and np.asarray(t1).tobytes() == np.asarray(t2).tobytes()):
        raise Fail("depends-on-key", det)
    if count:
        ctx.count("enum_key_pairs_bitequal")
    if not _ok(p1, e0):
        raise Fail("value", det)
    if not _ok(t1, d0, abs(d0)):
        raise Fail("tangent", det)
    g = _run(ctx, prog, "grad", "jit", _key(3), *prog.args(th))
    gref = ref.grad(th, mk)
    for nm, gi in zip(prog.names, g):
        if not _ok(gi, gref[nm]):
            raise Fail("grad", {**_th_detail(th), "argument": nm, "grad_estimate": _f64(gi).tolist(), "reference": gref[nm]})
    ev_ = _run(ctx, prog, "est", "jit", _key(4), *prog.args(th))
    if not _ok(ev_, e0):
        raise Fail("estimate-value", {**_th_detail(th), "estimate": float(ev_), "reference": e0})
    if count:
        ctx.count("enum_points_decided")


def _explore(ctx, prog, what, a, tier, **kw):
    """sum over all outcome scripts: returns (means, total prob, leaves, sum prob*|leaf|, events of the first leaf)"""
    H = _W["H"]
    acc = None
    mag = None
    tot = 0.0
    n = 0
    first = None
    gen = H.explore(lambda: tuple(_f64(x) for x in _run(ctx, prog, what, "host", _key(0), *a)), max_leaves=MAX_LEAVES[tier], **kw)
    for res, prob, evs in gen:
        if acc is None:
            acc = [np.zeros_like(x) for x in res]
            mag = [np.zeros_like(x) for x in res]
            first = evs
        for i, x in enumerate(res):
            acc[i] = acc[i] + prob * x
            mag[i] = mag[i] + prob * np.abs(x)
        tot += prob
        n += 1
    return acc, tot, n, mag, first


def mon_script(ctx, prog, th, v, rng, with_grad=False, count=True, family="script"):
    """const-noise run(s) with all discrete outcomes enumerated; family == pathwise: exactly one leaf expected."""
    H = _W["H"]
    spec = prog.spec
    geo = _geo_param(ctx) if _has_geo(spec) else "probs"
    eps = round(float(rng.uniform(0.3, 1.4) * rng.choice([-1, 1])), 3)
    u = round(float(rng.uniform(0.15, 0.85)), 3)
    ref = R.Ref(spec)
    mk = _mk_pol(spec, "fixed", eps=eps, u=u, geo_param=geo)
    e0, d0 = ref.value_and_dir(th, v, mk)
    kw = dict(eps=eps, u=u, gh=GH_NODES, geo_param=geo)
    try:
        acc, tot, n, mag, first = _explore(ctx, prog, "jvp", prog.args(th, v), ctx.tier, **kw)
    except H.TooManyLeaves:
        ctx.count("script_instances_skipped_too_many_leaves")
        return
    det = {**_th_detail(th, v), "noise": {"eps": eps, "u": u, "gh_nodes": GH_NODES, "geometric_parameter": geo}, "leaves": n,
           "total_probability": tot, "mean_primal": float(acc[0]), "mean_tangent": float(acc[1]), "reference_value": e0,
           "reference_tangent": d0, "first_leaf_events": [e.as_dict() for e in (first or [])[:8]]}
    if abs(tot - 1.0) > 1e-6:
        raise Fail("outcome-probabilities-do-not-sum-to-1", det)
    if family == "pathwise" and n != 1:
        raise Fail("reparameterised-program-has-discrete-randomness", det)
    if not _ok(acc[0], e0, float(mag[0])):
        raise Fail("value-mean" if family == "script" else "value", det)
    if not _ok(acc[1], d0, float(mag[1])):
        raise Fail("tangent-mean" if family == "script" else "tangent", det)
    if count:
        ctx.count("script_leaves" if family == "script" else "pathwise_leaves", n)
        ctx.count("script_instances_decided" if family == "script" else "pathwise_const_decided")
    if with_grad:
        gref = ref.grad(th, mk)
        try:
            acc, tot, n, mag, _ = _explore(ctx, prog, "grad", prog.args(th), ctx.tier, **kw)
        except H.TooManyLeaves:
            return
        for nm, gi, mi in zip(prog.names, acc, mag):
            if not _ok(gi, gref[nm], float(np.max(mi))):
                raise Fail("grad-mean" if family == "script" else "grad",
                           {**_th_detail(th), "noise": det["noise"], "argument": nm, "mean_grad_estimate": _f64(gi).tolist(),
                            "reference": gref[nm], "leaves": n})
        if count:
            ctx.count("script_grad_decided" if family == "script" else "pathwise_grad_decided")


def mon_stream(ctx, prog, th, v, rng, count=True):
    """independent logged noise per draw (observe mode).  The host call-backs of independent sites are unordered, so
    the assignment of logged draws to sites is found by matching the primal (all orders of the host calls of one kind
    are tried; a coincidental match of a float32 primal with independent random noise has negligible probability);
    the tangent is then compared under that assignment.  No assignment found -> counted as unresolved, not decided
    (the constant-noise run above decides those programs)."""
    import itertools

    HOST = _W["HOST"]
    spec = prog.spec
    HOST.reset("observe", seed=int(rng.integers(1 << 30)))
    p, t = _run(ctx, prog, "jvp", "host", _key(0), *prog.args(th, v))
    groups = {"normal": {}, "uniform": {}, "mvn": {}}
    for e in HOST.events:
        if e.kind in groups:
            zs = [float(z) for z in e.std] if e.kind == "mvn" else [float(e.std)]
            groups[e.kind].setdefault(e.call, []).extend(zs)
    calls = {k: [g[c] for c in sorted(g)] for k, g in groups.items()}
    for k in ("normal", "uniform"):  # few draws: permute single draws (lanes of a vectorised continuation share a call)
        flat = [z for c in calls[k] for z in c]
        if len(flat) <= 6:
            calls[k] = [[z] for z in flat]
    ndraw = sum(len(z) for k in calls for z in calls[k])
    orders = [list(itertools.permutations(range(len(calls[k])))) for k in ("normal", "uniform", "mvn")]
    if len(orders[0]) * len(orders[1]) * len(orders[2]) > 800:
        ctx.count("pathwise_stream_order_unresolved")
        return
    ref = R.Ref(spec)
    for on, ou, om in itertools.product(*orders):
        stream = {"normal": [z for i in on for z in calls["normal"][i]], "uniform": [z for i in ou for z in calls["uniform"][i]],
                  "mvn": [z for i in om for z in calls["mvn"][i]]}
        pol = R.Policy("stream", stream=stream)
        e0 = ref.expect(th, pol)
        if pol.underflow or pol.used != ndraw or not _ok(p, e0):
            continue
        _, d0 = ref.value_and_dir(th, v, lambda: R.Policy("stream", stream=stream))
        if not _ok(t, d0, abs(d0)):
            raise Fail("tangent-per-draw", {**_th_detail(th, v), "logged_noise": stream, "primal": float(p), "tangent": float(t),
                                            "reference_value": e0, "reference_tangent": d0})
        if count:
            ctx.count("pathwise_stream_decided")
            ctx.count("pathwise_noise_draws_logged", ndraw)
        return
    # no assignment of the logged draws to the sites reproduces the primal.  How many standard draws does the program
    # need (one per element of every reparameterised site reached)?
    need = {}
    for k in ("normal", "uniform", "mvn"):
        polc = R.Policy("stream", stream={"normal": [0.0] * 256, "uniform": [0.5] * 256, "mvn": [0.0] * 256})
        ref.expect(th, polc)
        need = {kk: 256 - len(polc.stream[kk]) for kk in ("normal", "uniform", "mvn")}
        break
    got = {k: sum(len(z) for z in calls[k]) for k in ("normal", "uniform", "mvn")}
    what = "noise-draw-count" if need != got else "primal-not-explained-by-logged-noise"
    raise Fail(what, {**_th_detail(th, v), "standard_draws_logged": got, "standard_draws_the_sites_need": need,
                      "logged_noise": {k: calls[k] for k in calls}, "primal": float(p), "tangent": float(t)})


def _ztest(ctx, name, x, ref, det):
    x = _f64(x)
    n = x.shape[0]
    _W["ntests"] += 1
    if _W["ntests"] > MAX_TESTS:
        raise AssertionError("more statistical tests than the calibration allows")
    ctx.count("stat_tests")
    if not np.all(np.isfinite(x)):
        raise Fail(name + "-nonfinite", det)
    m, s = float(x.mean()), float(x.std(ddof=1))
    se = s / math.sqrt(n)
    slack = 2e-5 * (1.0 + abs(ref) + float(np.abs(x).mean()))
    z = (m - ref) / se if se > 0 else (0.0 if abs(m - ref) <= slack else float("inf"))
    if abs(m - ref) > Z_THRESHOLD * se + slack:
        raise Fail(name, {**det, "quantity": name, "n": n, "mean": m, "std": s, "standard_error": se, "reference": ref, "z": z})
    return z


def mon_stat(ctx, prog, th, v, count=True):
    jax = _W["jax"]
    spec = prog.spec
    geo = _geo_param(ctx) if _has_geo(spec) else "probs"
    n = N_STAT[ctx.tier]
    ref = R.Ref(spec)
    mk = _mk_pol(spec, "exact", geo_param=geo)
    e0, d0 = ref.value_and_dir(th, v, mk)
    gref = ref.grad(th, mk)
    import json
    import zlib

    seedv = zlib.crc32(json.dumps(th, sort_keys=True).encode()) % (1 << 30)
    keys = jax.random.split(jax.random.key(seedv), n)
    det = {**_th_detail(th, v), "geometric_parameter": geo}
    P, T = _run(ctx, prog, "jvp", "keys", keys, *prog.args(th, v))
    _ztest(ctx, "value-mean", P, e0, det)
    _ztest(ctx, "tangent-mean", T, d0, det)
    G = _run(ctx, prog, "grad", "keys", keys, *prog.args(th))
    for nm, gi in zip(prog.names, G):
        gi = _f64(gi)
        if gi.ndim == 1:
            _ztest(ctx, "grad-mean", gi, gref[nm], {**det, "argument": nm})
        else:
            for j in range(gi.shape[1]):
                _ztest(ctx, "grad-mean", gi[:, j], gref[nm][j], {**det, "argument": f"{nm}[{j}]"})
    if count:
        ctx.count("stat_points_decided")


def mon_equiv(ctx, prog, th, v, pts, rng, do_eager, do_mvmap, count=True, do_unseeded=False, deterministic=False):
    jnp = _W["jnp"]
    HOST = _W["HOST"]
    kid = int(rng.integers(5, 500))
    k = _key(kid)
    a = prog.args(th, v)
    p, t = _run(ctx, prog, "jvp", "jit", k, *a)
    g = _run(ctx, prog, "grad", "jit", k, *prog.args(th))
    # grad_estimate == tangents of jvp_estimate along basis directions, same key
    lin = 0.0
    mag = 0.0
    for i, nm in enumerate(prog.names):
        gi = _f64(g[i])
        basis = []
        for j in range(max(1, gi.size)):
            vv = {kk: np.zeros_like(_f64(th[kk])) for kk in prog.names}
            if gi.ndim:
                vv[nm][j] = 1.0
            else:
                vv[nm] = np.asarray(1.0)
            _, tj = _run(ctx, prog, "jvp", "jit", k, *prog.args(th, vv))
            basis.append(float(tj))
        basis = np.asarray(basis).reshape(gi.shape)
        if not _ok(gi, basis, float(np.max(np.abs(basis)))):
            raise Fail("grad-vs-jvp-basis", {**_th_detail(th), "argument": nm, "grad_estimate": gi.tolist(),
                                             "jvp_basis_tangents": basis.tolist(), "key": "jax.random.key(%d)" % (1000 + kid)})
        lin += float(np.sum(basis * _f64(v[nm])))
        mag += float(np.sum(np.abs(basis * _f64(v[nm]))))
    if not _ok(t, lin, mag):
        raise Fail("jvp-not-linear-in-tangent", {**_th_detail(th, v), "tangent": float(t), "sum_v_i_basis_i": lin})
    if count:
        ctx.count("equiv_grad_vs_jvp")
    ev_ = _run(ctx, prog, "est", "jit", k, *prog.args(th))
    if not _ok(ev_, p, abs(float(p))):
        raise Fail("estimate-vs-jvp-primal", {**_th_detail(th), "estimate": float(ev_), "jvp_primal": float(p)})
    if count:
        ctx.count("equiv_estimate_vs_primal")
    if do_eager:
        pe, te = _run(ctx, prog, "jvp", "eager", k, *a)
        if not (_ok(pe, p, abs(float(p))) and _ok(te, t, mag)):
            raise Fail("jit-vs-eager", {**_th_detail(th, v), "eager": [float(pe), float(te)], "jit": [float(p), float(t)]})
        if count:
            ctx.count("equiv_jit_vs_eager")
    if do_unseeded:
        # no seed transformation: keys come from genjax's global counter
        raw = prog._build(False)["jvp"]
        r = _guard(ctx, lambda: raw(*a))
        if hasattr(r, "brief") and r.type == "LoweringSamplePrimitiveToMLIRException":
            # property C14: an unseeded site that would be compiled (here: inside the continuation of a lax.cond) is refused
            if count:
                ctx.count("equiv_unseeded_refused_by_lowering_guard")
        elif hasattr(r, "brief"):
            raise Fail("raises:" + r.type, {"entry": "jvp", "variant": "unseeded-eager", **r.brief()})
        else:
            pu, tu = r
            bad = not (np.isfinite(float(pu)) and np.isfinite(float(tu)))
            if deterministic:
                bad = bad or not (_ok(pu, p, abs(float(p))) and _ok(tu, t, mag))
            if bad:
                raise Fail("unseeded-vs-seeded", {**_th_detail(th, v), "unseeded": [float(pu), float(tu)],
                                                  "seeded_jit": [float(p), float(t)]})
            if count:
                ctx.count("equiv_unseeded_runs")
    if do_mvmap:
        geo = _geo_param(ctx) if _has_geo(prog.spec) else "probs"
        eps = round(float(rng.uniform(0.3, 1.2) * rng.choice([-1, 1])), 3)
        u = round(float(rng.uniform(0.2, 0.8)), 3)
        singles = []
        for thi, vi in pts:
            HOST.reset("policy", eps=eps, u=u, geo_param=geo)
            singles.append([float(x) for x in _run(ctx, prog, "jvp", "host", _key(0), *prog.args(thi, vi))])
        stacked = [jnp.stack([jnp.asarray(thi[nm], jnp.float32) for thi, _ in pts]) for nm in prog.names]
        stacked += [jnp.stack([jnp.asarray(vi[nm], jnp.float32) for _, vi in pts]) for nm in prog.names]
        HOST.reset("policy", eps=eps, u=u, geo_param=geo)
        pm, tm = _run(ctx, prog, "jvp", "mvmap", _key(0), *stacked)
        sp, st = np.asarray([s[0] for s in singles]), np.asarray([s[1] for s in singles])
        if not (_ok(pm, sp, float(np.max(np.abs(sp)))) and _ok(tm, st, float(np.max(np.abs(st))))):
            raise Fail("modular_vmap-vs-lane-by-lane", {"points": [p_[0] for p_ in pts], "tangents": [p_[1] for p_ in pts],
                                                        "policy": {"eps": eps, "u": u}, "vmapped": [_f64(pm).tolist(), _f64(tm).tolist()],
                                                        "lane_by_lane": [sp.tolist(), st.tolist()]})
        if count:
            ctx.count("equiv_mvmap")


# ---- attribution ------------------------------------------------------------------------------------------------


class _Quiet:
    """ctx stand-in for unit re-runs during attribution: counts nothing, records nothing."""

    def __init__(self, ctx):
        self._ctx = ctx
        self.tier = ctx.tier

    def call(self, fn, *a, **kw):
        return self._ctx.call(fn, *a, **kw)

    def count(self, *a, **kw):
        pass

    def note(self, *a, **kw):
        pass

    def violation(self, *a, **kw):
        pass


def _unit_monitor(prim, var, monitor):
    """monitor (and unit variant) under which a primitive's one-site program is re-run for attribution"""
    if monitor in ("stat", "equiv"):
        return monitor, var
    if prim in R.ENUM:
        return ("script" if (prim == "flip_enum" and var) else "enum"), var
    if prim in R.REPARAM:
        return "pathwise", var
    if prim in R.DSTOCH:
        return "script", var
    if prim == "normal_reinforce" and not var:
        return "script", 1  # scripted at Gauss-Hermite nodes
    return "stat", var


def _unit_fails(ctx, label, monitor):
    """does the one-site program of this primitive fail under the same monitor?"""
    prim = label.split("[")[0]
    var = 2 if "[batched:mvmap]" in label else (3 if "[batched:direct]" in label else 0)
    if var and prim in R.NORMAL_LAW:
        var = {2: 6, 3: 5}[var]  # the layouts with a vector scale: a failure of either layout explains the site
    mon, var = _unit_monitor(prim, var, monitor)
    ck = (prim, var, mon)
    cache = _W["unit_cache"]
    if ck not in cache:
        q = _Quiet(ctx)
        spec = R.unit_program(prim, var)
        rng = np.random.default_rng([11, 99, R.ALL_PRIMS.index(prim), var])
        bad = False
        try:
            prog = Prog(spec)
            pts = [R.gen_point(rng, spec) for _ in range(2)]
            if mon == "equiv":
                mon_equiv(q, prog, pts[0][0], pts[0][1], pts, rng, do_eager=True, do_mvmap=True, count=False)
            else:
                for th, v in pts[: (1 if mon == "stat" else 2)]:
                    _run_family(q, prog, mon, th, v, pts, rng, first=True, count=False)
        except Fail:
            bad = True
        cache[ck] = bad
    return cache[ck]


def _cond_site_unit_fails(ctx, which="cond-site"):
    cache = _W["unit_cache"]
    if which not in cache:
        spec = R.unit_cond_site_program() if which == "cond-site" else R.unit_cond_after_parallel_program()
        rng = np.random.default_rng([11, 98])
        bad = False
        try:
            prog = Prog(spec)
            for _ in range(2):
                th, v = R.gen_point(rng, spec)
                mon_enum(_Quiet(ctx), prog, th, v, count=False)
        except Fail:
            bad = True
        cache[which] = bad
    return cache[which]


def _culprit(ctx, spec, monitor, quantity):
    labels = R.labels_of(spec)
    bad = [lb for lb in labels if _unit_fails(ctx, lb, monitor)]
    if bad:
        return "+".join(bad)
    if R.has_site_in_cond(spec) and not quantity.startswith("raises") and _cond_site_unit_fails(ctx):
        return "site-inside-cond-branch"
    if R.has_cond_after_parallel(spec) and quantity.startswith("raises") and _cond_site_unit_fails(ctx, "cond-after-parallel"):
        return "cond-under-parallel-enumeration"
    if len(labels) == 1:
        return labels[0]
    return "composed(" + "+".join(sorted({lb.split("[")[0] for lb in labels})) + (",cond" if R.has_cond(spec) else "") + ")"


QUANTITY_CLASS = {
    "value": "value", "value-mean": "value", "estimate-value": "value",
    "tangent": "derivative", "tangent-mean": "derivative", "grad": "derivative", "grad-mean": "derivative",
    "tangent-per-draw": "derivative",
}


def violation_key(monitor, culprit, quantity):
    """mechanism key: <monitor>|<culprit>|<observable class>; the exact quantity goes to the detail"""
    if culprit in ("site-inside-cond-branch", "cond-under-parallel-enumeration"):
        monitor = "cond"
    return f"{monitor}|{culprit}|{QUANTITY_CLASS.get(quantity, quantity)}"


def _run_family(ctx, prog, family, th, v, pts, rng, first, count=True):
    if family == "enum":
        mon_enum(ctx, prog, th, v, count)
    elif family == "pathwise":
        mon_script(ctx, prog, th, v, rng, with_grad=first, count=count, family="pathwise")
        mon_stream(ctx, prog, th, v, rng, count)
    elif family == "script":
        mon_script(ctx, prog, th, v, rng, with_grad=first, count=count, family="script")
    elif family == "stat":
        mon_stat(ctx, prog, th, v, count)
    else:
        raise ValueError(family)


def run_case(case, ctx):
    import time

    t0 = time.time()
    try:
        _run_case(case, ctx)
    finally:
        ctx.count("seconds_" + case["family"], time.time() - t0)


def _run_forward_laws(case, ctx):
    """Every ADEV primitive run WITHOUT ADEV semantics (seed(prim) over a batch of keys) must draw from the law its
    estimator assumes: that keyed sampler is what the pure continuation (flip_mvd's phantom branch, forward runs)
    executes, and the host-driven monitors replace it, so only a statistical monitor on the real sampler sees it."""
    from math import erf, sqrt

    jax, jnp, seed, adev = _W["jax"], _W["jnp"], _W["seed"], _W["adev"]
    rng = np.random.default_rng(case["vseed"])
    n = 40000 if ctx.tier == "quick" else 200000
    ks_eps = math.sqrt(math.log(2.0 / 1e-11) / (2.0 * n))

    def draws(prim, *args):
        ks = jax.random.split(jax.random.key(int(rng.integers(1 << 30))), n)
        f = jax.jit(jax.vmap(seed(lambda *a: getattr(adev, prim)(*a)), in_axes=(0,) + (None,) * len(args)))
        return _guard(ctx, lambda: np.asarray(f(ks, *[jnp.asarray(a, jnp.float32) for a in args])))

    def bad(prim, what, info):
        ctx.violation(f"forward|{prim}|{what}", {"primitive": prim, "n": n, **info})

    def cells(prim, x, probs, args):
        for k, q in enumerate(probs):
            fr = float(np.mean(x == k))
            z = (fr - q) / math.sqrt(q * (1 - q) / n)
            ctx.count("forward_law_tests")
            if abs(z) > Z_THRESHOLD:
                bad(prim, "sampler-law-differs", {"args": args, "outcome": k, "frequency": fr, "reference_probability": q, "z": z})
                return

    def ks(prim, x, cdf, args):
        xs = np.sort(np.asarray(x, np.float64))
        F = np.array([cdf(v) for v in xs[:: max(1, n // 4000)]])
        idx = np.arange(0, n, max(1, n // 4000))
        d = float(np.max(np.abs(F - (idx + 0.5) / n)))
        ctx.count("forward_law_tests")
        if d > ks_eps + 1.0 / 4000:
            bad(prim, "sampler-law-differs", {"args": args, "kolmogorov_distance": d, "bound": ks_eps + 1.0 / 4000})

    Phi = lambda z: 0.5 * (1.0 + erf(z / sqrt(2.0)))  # noqa: E731
    ctx.evaluation()
    pq = round(float(rng.uniform(0.2, 0.4)), 3)
    for prim in R.FLIP_LAW:
        x = draws(prim, pq)
        if hasattr(x, "brief"):
            bad(prim, "raises", x.brief())
            continue
        cells(prim, np.asarray(x).astype(np.int64), [1 - pq, pq], [pq])
    # a vector that is far from a probability vector and whose softmax is far from its normalisation
    lg = [round(float(rng.uniform(0.1, 0.4)), 3), round(float(rng.uniform(1.2, 1.8)), 3), round(float(rng.uniform(2.5, 3.0)), 3)]
    lg = [lg[int(i)] for i in rng.permutation(3)]
    x = draws("categorical_enum_parallel", lg)
    if hasattr(x, "brief"):
        bad("categorical_enum_parallel", "raises", x.brief())
    else:
        w = np.exp(np.asarray(lg) - max(lg))
        cells("categorical_enum_parallel", np.asarray(x).astype(np.int64), list(w / w.sum()), [lg])
    mu, sg = round(float(rng.uniform(-1, 1)), 3), round(float(rng.uniform(0.5, 1.5)), 3)
    for prim in R.NORMAL_LAW:
        x = draws(prim, mu, sg)
        if hasattr(x, "brief"):
            bad(prim, "raises", x.brief())
            continue
        ks(prim, x, lambda v: Phi((v - mu) / sg), [mu, sg])
    lo, hi = round(float(rng.uniform(-1, 0)), 3), round(float(rng.uniform(0.5, 2)), 3)
    for prim in R.UNIFORM_LAW:
        x = draws(prim, lo, hi)
        if hasattr(x, "brief"):
            bad(prim, "raises", x.brief())
            continue
        ks(prim, x, lambda v: min(1.0, max(0.0, (v - lo) / (hi - lo))), [lo, hi])
    loc = [round(float(v), 3) for v in rng.uniform(-1, 1, 2)]
    a, b, r = float(rng.uniform(0.6, 1.4)), float(rng.uniform(0.6, 1.4)), float(rng.uniform(0.4, 0.7))
    cov = [[round(a * a, 4), round(r * a * b, 4)], [round(r * a * b, 4), round(b * b, 4)]]
    L = np.linalg.cholesky(np.asarray(cov))
    for prim in R.MVN_LAW:
        x = draws(prim, loc, cov)
        if hasattr(x, "brief"):
            bad(prim, "raises", x.brief())
            continue
        zt = np.linalg.solve(L, (np.asarray(x, np.float64) - np.asarray(loc)).T).T  # whitened: iid N(0,1) iff law is N(loc, cov)
        for j in range(2):
            ks(prim, zt[:, j], Phi, [loc, cov, f"whitened coordinate {j}"])
        rho = float(np.corrcoef(zt[:, 0], zt[:, 1])[0, 1]) * math.sqrt(n - 1)
        ctx.count("forward_law_tests")
        if abs(rho) > Z_THRESHOLD:
            bad(prim, "sampler-law-differs", {"args": [loc, cov], "whitened_correlation_z": rho})
    sd = [round(float(v), 3) for v in rng.uniform(0.5, 1.5, 2)]
    x = draws("multivariate_normal_diag_reparam", loc, sd)
    if hasattr(x, "brief"):
        bad("multivariate_normal_diag_reparam", "raises", x.brief())
    else:
        for j in range(2):
            ks("multivariate_normal_diag_reparam", np.asarray(x)[:, j], lambda v, j=j: Phi((v - loc[j]) / sd[j]), [loc, sd, f"coordinate {j}"])
    ctx.sample({"kind": "forward-laws", "draws_per_primitive": n, "kolmogorov_bound": ks_eps})


def _run_case(case, ctx):
    if case["family"] == "forward":
        return _run_forward_laws(case, ctx)
    spec = case["spec"]
    family = case["family"]
    rng = np.random.default_rng(list(case["vseed"]) + [5])
    labels = R.labels_of(spec)
    prims = R.prims_of(spec)
    ctx.count("programs")
    ctx.count("programs_" + family)
    if R.has_cond(spec):
        ctx.count("programs_with_cond")
    kinds = {("enum" if p in R.ENUM else "reparam" if p in R.REPARAM else "mvd" if p == "flip_mvd" else "reinforce") for p in prims}
    if len(kinds) >= 2:
        ctx.count("programs_two_estimator_kinds")
    nsites = len(R.sites(spec))
    if nsites >= 2 and not case.get("unit"):
        ctx.distinct("nontrivial", {"family": family, "sig": R.signature(spec)})
    for lb in labels:
        ctx.distinct("site_label", lb)
    prog = Prog(spec)
    pts = [(th, v) for th, v in case["points"]]
    prog.validate(pts[0][0])
    seen = set()
    state = {"decided": False, "raised": False}

    def report(monitor, f, th):
        culprit = _culprit(ctx, spec, monitor, f.quantity)
        key = violation_key(monitor, culprit, f.quantity)
        state["decided"] = True
        if f.quantity.startswith("raises"):
            state["raised"] = True
        if key in seen:
            return
        seen.add(key)
        ctx.violation(key, {"monitor": monitor, "quantity": f.quantity, "culprit": culprit, "tag": case["tag"],
                            "program": R.render(spec), "observed": f.detail})

    for i, (th, v) in enumerate(pts):
        ctx.evaluation()
        try:
            _run_family(ctx, prog, family, th, v, pts, rng, first=(i == 0))
            state["decided"] = True
        except Fail as f:
            report(family, f, th)
            if state["raised"]:
                break
    # transform equivalences on the first point (real samplers, same key)
    if not state["raised"]:
        th, v = pts[0]
        try:
            mon_equiv(ctx, prog, th, v, pts if len(pts) > 1 else pts * 2, rng, do_eager=(case.get("index", 0) % 3 == 0),
                      do_mvmap=(case.get("index", 0) % 2 == 1 or bool(case.get("unit"))),
                      do_unseeded=(case.get("index", 0) % 6 == 0), deterministic=(family == "enum"))
        except Fail as f:
            report("equiv", f, th)
    if state["decided"]:
        for p in prims:
            ctx.count("prim_decided_" + p)
        for lb in labels:
            if "[batched" in lb:
                ctx.count("batched_sites_decided")
    if case.get("index", 0) % 29 == 0:
        ctx.sample({"family": family, "tag": case["tag"], "program": R.render(spec), "point": pts[0][0]})
