"""C01 — assess is the joint log density; simulate samples exactly from it.

Workload: generated programs of the modelling language (lib/spec.py).  Oracle:
the independent float64 reference interpreter (lib/refmodel.py).

  assess     gf.assess / log_density on reference-drawn choice maps (eager, jit)
  simulate   seed(gf.simulate): score == -assess(choices) (real and reference),
             retval, get_args; eager / jit / vmap-over-keys
  events     every probe site: the trace value is the value the site returned,
             and the parameters the site saw are the reference conditional
             parameters given the trace's own parent values; one event per lane/iteration
  law        discrete probe programs: exact pmf of simulate by outcome-script
             enumeration == reference joint pmf, entry by entry
"""

from __future__ import annotations

import math

import numpy as np

PROPERTY = "C01"
LEVEL = "exploration"
RULE = (
    "programs generated from the spec grammar (sites, nested calls with kwargs, Vmap of distributions / functions / "
    "repeat, Scan, Cond with shared addresses, event-shaped mvn) from numpy SeedSequence([VERIF_SEED, 1, index]); "
    "distinct = structural hash of the spec (node kinds, nesting, dists, in_axes, shapes - not constants); "
    "non-trivial = at least two sites, one of which depends on an earlier value or sits under a combinator"
)
ASSUMPTIONS = [
    "reference interpreter lib/refmodel.py (float64 numpy, closed-form densities, cross-checked against scipy in setup)",
    "JAX API translation layer (DESIGN §2)",
    "probe distributions' own five-line log densities (DESIGN §3.2)",
]
FLOORS = {
    "quick": {"assess_checks": 300, "simulate_checks": 300, "event_matches": 500, "law_instances": 8, "modes_jit": 300, "modes_eager": 30, "modes_vmapkeys": 8},
    "thorough": {"assess_checks": 3000, "simulate_checks": 3000, "event_matches": 5000, "law_instances": 60, "modes_jit": 3000, "modes_eager": 300, "modes_vmapkeys": 60},
}
TIMEOUT_S = {"quick": 1200, "thorough": 5400}
CLEAR_CACHES_EVERY = {"quick": 0, "thorough": 6}  # see lib/worker.py

N_CASES = {"quick": 96, "thorough": 1000}
FAMILY_CYCLE = ["mixed", "builtin", "probe", "discrete", "bare", "probe", "builtin", "bare-discrete"]


def plan(tier, seed):
    return [
        {"family": FAMILY_CYCLE[i % len(FAMILY_CYCLE)], "gseed": [seed, 1, i]}
        for i in range(N_CASES[tier])
    ]


_W = {}


def worker_setup(ctx):
    import jax

    _W["jax"] = jax


def run_case(case, ctx):
    import jax
    from genjax import seed

    from lib import gfi, probes, spec
    from lib import refmodel as R

    tier = ctx.tier
    g, prog = gfi.make_case_program(case["gseed"], case["family"], tier)
    n_argsets = 2 if tier == "quick" else 3
    rng = np.random.default_rng(case["gseed"] + [99])
    ctx.evaluation()
    h = spec.struct_hash(prog)
    if spec.nontrivial(prog):
        ctx.distinct("nontrivial", h)
    feats = spec.features(prog)
    for k in feats["kinds"]:
        ctx.count("programs_with_" + k)
    base = {"program": spec.show(prog), "family": case["family"], "kinds": sorted(feats["kinds"])}

    gf = ctx.call(spec.build, prog)
    if hasattr(gf, "brief"):
        ctx.violation(gfi.raise_key("build", gf), {**base, **gf.brief()})
        return
    has_probe = any(d.startswith("p_") for d in feats["dists"])
    idx = case["gseed"][-1]
    eager_this = (idx % 4) == 1
    sampled = False
    # compiled once per program, reused across argument sets, choice maps and keys
    sim_jit = jax.jit(seed(gf.simulate))
    assess_jit = jax.jit(gf.assess)
    logdens_jit = jax.jit(gf.log_density)

    for ai in range(n_argsets):
        vals = g.arg_values(prog)
        args = spec.to_jax_args(prog, vals)
        d0 = {**base, "args": vals}

        # ------------------------------------------------------------ assess
        for ci in range(2):
            ref = R.run(prog, vals, chooser=R.prior_chooser(rng))
            if ref.min_margin < 1e-4 or not math.isfinite(ref.total):
                ctx.count("skipped_near_tie")
                continue
            x = R.to_jax(ref.choices)
            modes = [("jit", assess_jit)]
            if eager_this and ai == 0 and ci == 0:
                modes.append(("eager", gf.assess))
            t = R.tol(ref.abs_sum(), len(ref.sites))
            stop = False
            for mode, fn in modes:
                res = ctx.call(fn, x, *args)
                ctx.count("assess_checks")
                ctx.count("modes_" + mode)
                dd = {**d0, "mode": mode, "choices": ref.choices}
                if hasattr(res, "brief"):
                    ctx.violation(gfi.raise_key("assess", res), {**dd, **res.brief()})
                    stop = True
                    break
                logp, rv = res
                if not (np.shape(logp) == () and abs(float(logp) - ref.total) <= t):
                    ctx.violation(
                        "assess|density-differs",
                        {**dd, "assess": gfi.fnum(logp), "reference": ref.total,
                         "reference_by_address": {gfi.pstr(p): v for p, v in ref.by_path().items()}, "tol": t},
                    )
                    stop = True
                    break
                if not R.close(rv, ref.retval, rel=2e-5):
                    ctx.violation("assess|retval-differs", {**dd, "retval": gfi.fnum(rv), "reference": gfi.fnum(ref.retval)})
                    stop = True
                    break
            if stop:
                break
            ld = ctx.call(logdens_jit, x, *args)
            if hasattr(ld, "brief"):
                ctx.violation(gfi.raise_key("log_density", ld), {**d0, **ld.brief()})
                break
            elif abs(float(ld) - ref.total) > t:
                ctx.violation("log_density|differs", {**d0, "log_density": gfi.fnum(ld), "reference": ref.total})
                break

        # ---------------------------------------------------------- simulate
        for ki in range(2):
            key = jax.random.key(int(rng.integers(2**31)))
            probes.HOST.reset("observe", int(rng.integers(2**31)))
            fn, mode = sim_jit, "jit"
            if eager_this and ai == 0 and ki == 0:
                fn, mode = seed(gf.simulate), "eager"
            tr = ctx.call(fn, key, *args)
            ctx.count("simulate_checks")
            ctx.count("modes_" + mode)
            if hasattr(tr, "brief"):
                ctx.violation(gfi.raise_key("simulate", tr), {**d0, "mode": mode, **tr.brief()})
                break
            events = list(probes.HOST.events)
            ok = ctx.call(_check_trace, ctx, gf, assess_jit, prog, vals, args, tr, events, d0, mode, has_probe)
            if hasattr(ok, "brief"):
                ctx.violation(gfi.raise_key("trace-accessors", ok), {**d0, "mode": mode, **ok.brief()})
                break
            if not ok:
                break
            if not sampled and spec.nontrivial(prog):
                sampled = True
                ctx.sample(
                    {"program": spec.show(prog), "args": vals, "mode": mode,
                     "choices": R.to_numpy(tr.get_choices()), "score": gfi.fnum(tr.get_score()),
                     "site_events_seen": len(events)}
                )

        # ------------------------------------------------- top-level keyword arguments
        if ai == 0 and not prog.get("bare") and len(args) >= 1 and (idx % 3) == 2:
            r = ctx.call(_check_toplevel_kwargs, ctx, gf, prog, vals, args, rng, d0)
            if hasattr(r, "brief"):
                ctx.violation(gfi.raise_key("toplevel-kwargs", r), {**d0, **r.brief()})

        # ------------------------------------------------- vmap over keys (no probes)
        if not has_probe and ai == 0 and (idx % 2) == 0:
            keys = jax.random.split(jax.random.key(int(rng.integers(2**31))), 4)
            vfn = jax.jit(jax.vmap(seed(gf.simulate), in_axes=(0,) + (None,) * len(args)))
            r = ctx.call(_check_vmap_keys, ctx, vfn, keys, prog, vals, args, d0)
            ctx.count("modes_vmapkeys")
            if hasattr(r, "brief"):
                ctx.violation(gfi.raise_key("vmap-keys(simulate)", r), {**d0, **r.brief()})

    # ------------------------------------------------------------------ exact law
    if case["family"] in ("discrete", "bare-discrete") and spec.all_discrete(prog):
        r = ctx.call(_check_law, ctx, sim_jit, prog, g, base)
        if hasattr(r, "brief"):
            ctx.violation(gfi.raise_key("simulate-law", r), {**base, **r.brief()})


def _check_toplevel_kwargs(ctx, gf, prog, vals, args, rng, d0):
    """The last parameter passed by keyword at the top level: same density, same
    trace law, and get_args records (positional, {name: value})."""
    import jax
    from genjax import seed

    from lib import gfi, probes
    from lib import refmodel as R

    name = prog["params"][-1]
    pos, kw = args[:-1], {name: args[-1]}
    ref = R.run(prog, vals, chooser=R.prior_chooser(rng))
    ctx.count("toplevel_kwargs_checks")
    if ref.min_margin >= 1e-4 and math.isfinite(ref.total):
        logp, rv = gf.assess(R.to_jax(ref.choices), *pos, **kw)
        if not (abs(float(logp) - ref.total) <= R.tol(ref.abs_sum(), len(ref.sites))) or not R.close(rv, ref.retval, rel=2e-5):
            ctx.violation("assess|toplevel-kwargs|density-or-retval-differs", {**d0, "keyword": name, "assess": gfi.fnum(logp), "reference": ref.total})
            return
    probes.HOST.reset("observe", int(rng.integers(2**31)))
    tr = seed(gf.simulate)(jax.random.key(int(rng.integers(2**31))), *pos, **kw)
    status, ref2 = gfi.coherence(ctx, "simulate|toplevel-kwargs", prog, vals, tr, {**d0, "keyword": name})
    if status != "ok":
        return
    ra = tr.get_args()
    ok = (
        isinstance(ra, tuple) and len(ra) == 2 and len(ra[0]) == len(pos) and set(ra[1]) == {name}
        and all(gfi.bit_equal(a, b) for a, b in zip(ra[0], pos)) and gfi.bit_equal(ra[1][name], kw[name])
    )
    if not ok:
        ctx.violation("simulate|toplevel-kwargs|get_args-differs", {**d0, "keyword": name, "get_args": repr(ra)[:300]})


def _check_vmap_keys(ctx, vfn, keys, prog, vals, args, d0):
    import jax

    from lib import gfi
    from lib import refmodel as R

    trs = vfn(keys, *args)
    for j in range(4):
        trj = jax.tree_util.tree_map(lambda v: v[j], trs)
        ch = R.to_numpy(trj.get_choices())
        ref = R.run(prog, vals, choices=ch)
        if ref.min_margin < 1e-4:
            continue
        t = R.tol(ref.abs_sum(), len(ref.sites))
        if np.shape(trj.get_score()) != () or not math.isfinite(ref.total) or abs(float(trj.get_score()) + ref.total) > t:
            ctx.violation(
                "vmap-keys(simulate)|score-not-minus-density",
                {**d0, "lane": j, "choices": ch, "score": gfi.fnum(trj.get_score()), "reference_density": ref.total},
            )
            return
        if not R.close(trj.get_retval(), ref.retval, rel=2e-5):
            ctx.violation("vmap-keys(simulate)|retval-differs", {**d0, "lane": j})
            return
    lv = R.flat_leaves(R.to_numpy(trs.get_choices()))
    for p, v in lv.items():
        if v.dtype.kind == "f" and v.shape[0] == 4:
            flat = v.reshape(4, -1)
            if any(np.array_equal(flat[a], flat[b]) for a in range(4) for b in range(a + 1, 4)):
                ctx.violation("vmap-keys(simulate)|same-draw-for-different-keys", {**d0, "path": gfi.pstr(p)})
                return


def _check_trace(ctx, gf, assess_fn, prog, vals, args, tr, events, d0, mode, has_probe):
    from lib import gfi, spec
    from lib import refmodel as R

    ch = R.to_numpy(tr.get_choices())
    ref = R.run(prog, vals, choices=ch)
    d = {**d0, "mode": mode, "choices": ch}
    if ref.min_margin < 1e-4:
        ctx.count("skipped_near_tie")
        return True
    t = R.tol(ref.abs_sum(), len(ref.sites))
    score = tr.get_score()
    if not math.isfinite(ref.total):
        ctx.violation("simulate|choices-outside-support", {**d, "reference_by_address": {gfi.pstr(p): v for p, v in ref.by_path().items()}})
        return False
    if np.shape(score) != () or abs(float(score) + ref.total) > t:
        ctx.violation(
            "simulate|score-not-minus-density",
            {**d, "score": gfi.fnum(score), "reference_density": ref.total,
             "reference_by_address": {gfi.pstr(p): v for p, v in ref.by_path().items()}, "tol": t},
        )
        return False
    if not R.close(tr.get_retval(), ref.retval, rel=2e-5):
        ctx.violation("simulate|retval-differs", {**d, "retval": gfi.fnum(tr.get_retval()), "reference": gfi.fnum(ref.retval)})
        return False
    # the real assess on the trace's own choices
    res = assess_fn(tr.get_choices(), *args)
    if abs(float(res[0]) + float(score)) > 1e-5 * (1 + ref.abs_sum()) + 2e-6 * len(ref.sites):
        ctx.violation("simulate|score-not-minus-own-assess", {**d, "score": gfi.fnum(score), "assess": gfi.fnum(res[0])})
        return False
    # recorded arguments
    ra = tr.get_args()
    ok_args = isinstance(ra, tuple) and len(ra) == 2 and len(ra[0]) == len(args) and ra[1] == {}
    if ok_args:
        ok_args = all(gfi.bit_equal(a, b) for a, b in zip(ra[0], args))
    if not ok_args:
        ctx.violation("simulate|get_args-differs", {**d, "get_args": repr(ra)[:300]})
        return False
    # site events
    if has_probe:
        ghost = R.run(prog, vals, choices=R.full_choices(tr, prog))
        n, problems = gfi.match_events(ghost.sites, events)
        ctx.count("event_matches", n)
        if problems:
            ctx.violation("simulate|" + problems[0]["what"], {**d, "problem": problems[0]})
            return False
    return True


def _check_law(ctx, fn, prog, g, base):
    import jax
    from genjax import seed

    from lib import gfi, probes
    from lib import refmodel as R
    from lib import spec

    cap = 600 if ctx.tier == "quick" else 4096
    vals = g.arg_values(prog)
    args = spec.to_jax_args(prog, vals)
    key = jax.random.key(0)
    mass = {}
    rep = {}
    try:
        for tr, prob, events in probes.explore(lambda: fn(key, *args), max_leaves=cap):
            ch = R.to_numpy(tr.get_choices())
            k = gfi.choice_key(ch)
            mass[k] = mass.get(k, 0.0) + prob
            rep.setdefault(k, ch)
    except probes.TooManyLeaves:
        ctx.count("law_skipped_too_large")
        return
    ctx.count("law_instances")
    ctx.count("law_scripts", sum(1 for _ in mass))
    total = sum(mass.values())
    d = {**base, "args": vals, "distinct_outcomes": len(mass)}
    if abs(total - 1.0) > 1e-6:
        ctx.violation("simulate-law|script-mass-not-1", {**d, "total": total})
        return
    for k, m in mass.items():
        ref = R.run(prog, vals, choices=rep[k])
        if ref.min_margin < 1e-4:
            ctx.count("skipped_near_tie")
            return
        want = math.exp(ref.total)
        if abs(m - want) > 1e-6 + 1e-5 * want:
            ctx.violation(
                "simulate-law|pmf-differs",
                {**d, "choices": rep[k], "simulate_mass": m, "reference_mass": want},
            )
            return
    ctx.count("law_outcomes", len(mass))
    ctx.sample({"kind": "exact-law", "program": spec.show(prog), "args": vals, "distinct_outcomes": len(mass), "exhaustive": True})
