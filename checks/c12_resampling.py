"""C12 — resampling copies particles faithfully, preserves the estimate, is unbiased.

The real ``genjax.inference.smc.resample`` / ``systematic_resample`` are executed on
particle collections whose trace leaves are TAGGED (every leaf of particle i — args,
choices, retval, score of every nested sub-trace — carries a value that names i), with
the resampler's *internal* randomness under harness control:

  scripted   ``smc.uniform`` / ``smc.categorical`` are replaced by probe distributions built
             with genjax's public constructor ``distribution(wrap_sampler(keyful),
             wrap_logpdf(..))``; the keyful sampler returns the next scripted value through
             ``io_callback(ordered=True)`` and records the parameters the site really
             received.  Run as ``jit(seed(resample))(key, particles)`` (sweeps; the same
             execution also calls ``systematic_resample(log_weights, N)`` itself, fed the same
             scripted offset, so that the raw index vector is seen before the gather clamps
             it) and as plain eager ``seed(resample)(key, particles)`` (every other case).
  real       the untouched samplers, ``vmap`` over a batch of PRNG keys of
             ``seed(resample)(key, particles, method)`` (exact binomial monitors).

Oracle (lib/c12_ref.py, float64 numpy, no genjax): same N; log weights bitwise +0.0;
log_marginal_likelihood() after == before and == prev + logsumexp(w) - log N recomputed in
float64; diagnostic weights == w - logsumexp(w); every output particle is a bitwise copy of
ONE input particle across all leaves; never a copy of a -inf-weight particle; systematic:
for every scripted offset copies_i in {floor(N w_i), ceil(N w_i)}, indices < N, and the
integral over u of copies_i (piecewise constant between the reference breakpoints) == N w_i;
categorical: copies == drawn indices, law of the indices given the parameters the site saw
== weights (exact enumeration of all N^N index vectors for N <= 4), and exact binomial tests
on real draws.

float32 error model for the floor/ceil bound.  The code under test forms float32 cumulative
weights C~_k and pointers p~_j = (j+u)/N; with eps_pos = 2^-23 * (2 (1 + max|log w|) + N + 8)
(logsumexp rounding ~ ulp(max|log w|), N-term cumulative sum, one rounding of the pointer) both
are within eps_pos of their real values, so the copy count of particle i can differ from the
exact-arithmetic one only if N w_i is within delta = 2 N eps_pos of an integer; the allowed
set is therefore {floor(N w_i - delta) .. ceil(N w_i + delta)}.  delta <= 2e-3 for ordinary
weights (N = 64), a realistic slip changes a count by >= 1 for generic weights.  No tolerance
applies to "index < N" and "never a -inf-weight particle".
"""

from __future__ import annotations

import math

import numpy as np

from lib import c12_ref as R

PROPERTY = "C12"
LEVEL = "exploration"
RULE = (
    "particle collections = (trace shape from 4 @gen models incl. nested call, Vmap, Scan, Cond, int/bool leaves) x "
    "N in 1..64 x 10 weight-vector families (random, large common offset, degenerate, partly/leading/trailing -inf, "
    "near-uniform, uniform, huge dynamic range, two heavy) drawn from VERIF_SEED, all trace leaves tagged by particle "
    "index; each is resampled under scripted offsets (jittered grid, within 1e-7 of 0 and of 1, both sides of "
    "reference breakpoints, every inter-breakpoint midpoint), scripted categorical index vectors (all N^N for N<=4) "
    "and real keys; distinct_nontrivial = distinct (model, N, family, method) with N >= 2 and >= 2 positive weights"
)
ASSUMPTIONS = [
    "offsets are a dense grid plus reference breakpoints and midpoints, not the continuum; float32 offsets >= 1e-30",
    "float32 error model for the floor/ceil bound as stated in the module doc (tolerance only when N*w_i is within "
    "2*N*eps_pos of an integer)",
    "real-sampler monitors: exact binomial tests, family-wise false alarm <= 1e-9 per run; weight vectors there have "
    "a finite first entry because the real uniform sampler can return exactly 0, which the property excludes",
    "JAX API translation layer (DESIGN §2); out-of-range gather indices clamp on this JAX",
]
FLOORS = {
    "quick": {
        "systematic_scripted_runs": 15000,
        "systematic_direct_runs": 15000,
        "offsets_near_1": 1000,
        "offsets_near_breakpoint": 2000,
        "copy_checks": 20000,
        "leaf_rows_checked": 5000000,
        "marginal_checks": 20000,
        "diag_checks": 20000,
        "floor_ceil_checks": 30000,
        "expected_copies_systematic": 150,
        "categorical_scripted_runs": 2500,
        "categorical_enumerations": 10,
        "categorical_site_checks": 250,
        "uniform_site_events": 30000,
        "categorical_site_events": 3000,
        "eager_runs": 500,
        "binomial_tests": 400,
        "real_sampler_resamples": 50000,
    },
    "thorough": {
        "systematic_scripted_runs": 700000,
        "systematic_direct_runs": 700000,
        "offsets_near_1": 12000,
        "offsets_near_breakpoint": 30000,
        "copy_checks": 1000000,
        "leaf_rows_checked": 300000000,
        "marginal_checks": 1000000,
        "diag_checks": 1000000,
        "floor_ceil_checks": 1400000,
        "expected_copies_systematic": 2000,
        "categorical_scripted_runs": 40000,
        "categorical_enumerations": 100,
        "categorical_site_checks": 2500,
        "uniform_site_events": 1400000,
        "categorical_site_events": 40000,
        "eager_runs": 5000,
        "binomial_tests": 3000,
        "real_sampler_resamples": 1500000,
    },
}
TIMEOUT_S = {"quick": 1200, "thorough": 7200}

N_MODELS = 4
# family-wise budget of the statistical monitors: alpha per test = 1e-9 / MAX_TESTS
MAX_TESTS = {"quick": 50000, "thorough": 500000}
STAT_KINDS = ["random", "random_offset", "partly_neginf", "trailing_neginf", "near_uniform", "huge_range", "two_heavy"]
QUICK_NS = [1, 2, 3, 4, 5, 6, 7, 8, 9, 12, 15, 16, 17, 24, 31, 32, 33, 48, 63, 64]


def plan(tier, seed):
    rng = np.random.default_rng([seed, 12])
    cases = []
    if tier == "quick":
        n_cases, per_case, n_grid, sides, n_scripts = 76, 4, 40, 10, 8
        ns = list(QUICK_NS) + [int(x) for x in rng.integers(1, 65, size=n_cases - len(QUICK_NS))]
        models = [i % N_MODELS for i in range(n_cases)]
        n_stat, reps = 24, 2048
    else:
        n_cases, per_case, n_grid, sides, n_scripts = 256, 12, 240, 24, 12
        ns = [n for n in range(1, 65) for _ in range(N_MODELS)]
        models = [i % N_MODELS for i in range(n_cases)]
        n_stat, reps = 96, 8192
    kinds_pool = []
    while len(kinds_pool) < n_cases * per_case:
        kinds_pool += [R.KINDS[int(j)] for j in rng.permutation(len(R.KINDS))]
    for i in range(n_cases):
        cases.append(
            {
                "kind": "sweep",
                "N": int(ns[i]),
                "model": int(models[i]),
                "kinds": kinds_pool[i * per_case : (i + 1) * per_case],
                "n_grid": n_grid,
                "max_break_sides": sides,
                "n_cat_scripts": n_scripts,
                "eager": bool(i % 2 == 0),  # un-jitted runs re-compile every primitive per N: every other case
                "rng": [int(seed), 12, i],
            }
        )
    stat_ns = [2, 3, 4, 5, 8, 13, 16, 32, 64]
    for i in range(n_stat):
        n = stat_ns[i % len(stat_ns)] if i < 2 * len(stat_ns) else int(rng.integers(2, 65))
        cases.append(
            {
                "kind": "stat",
                "N": int(n),
                "kinds": [STAT_KINDS[int(j)] for j in rng.integers(0, len(STAT_KINDS), size=2)],
                "reps": reps,
                "rng": [int(seed), 12, 100000 + i],
            }
        )
    return cases


# ---------------------------------------------------------------------------
# worker side
# ---------------------------------------------------------------------------
_W = {}
_S = {"u": np.float32(0.5), "cat": np.zeros(1, np.int32), "support": np.zeros(1, np.int32), "events": []}
_LIMIT = {}


def _host_uniform(lo, hi):
    lo32, hi32 = np.float32(lo), np.float32(hi)
    _S["events"].append(("uniform", float(lo32), float(hi32)))
    return np.asarray(lo32 + (hi32 - lo32) * np.float32(_S["u"]), np.float32)


def _cat_values(shape, call_no):
    """Scripted indices for the call_no-th categorical site evaluation of a run: the script
    itself for the first call; for later calls every index is moved on cyclically inside
    the support, so that a second, independent draw is visibly a *different* draw."""
    n = int(np.prod(shape)) if len(shape) else 1
    script = np.resize(np.asarray(_S["cat"], np.int64), n)
    sup = np.asarray(_S["support"], np.int64)
    if call_no and sup.size > 1:
        pos = {int(s): k for k, s in enumerate(sup)}
        script = np.array([sup[(pos.get(int(v), 0) + call_no) % sup.size] for v in script], np.int64)
    return script.astype(np.int32).reshape(shape)


def worker_setup(ctx):
    import jax
    import jax.numpy as jnp
    import jax.tree_util as jtu
    from jax.experimental import io_callback

    import genjax.inference.smc as smc
    from genjax import Cond, Scan, categorical, const, flip, gen, normal, seed
    from genjax.core import distribution
    from genjax.pjax import wrap_logpdf, wrap_sampler

    def keyful_uniform(key, lo, hi, sample_shape=()):
        lo = jnp.asarray(lo, jnp.float32)
        hi = jnp.asarray(hi, jnp.float32)
        shp = tuple(sample_shape) + jnp.broadcast_shapes(lo.shape, hi.shape)
        if shp != ():
            raise NotImplementedError("probe uniform: only scalar sites are scripted")
        return io_callback(_host_uniform, jax.ShapeDtypeStruct((), jnp.float32), lo, hi, ordered=True)

    def keyful_categorical(key, logits, sample_shape=()):
        logits = jnp.asarray(logits, jnp.float32)
        shp = tuple(int(s) for s in sample_shape) + tuple(logits.shape[:-1])

        def host(lg):
            calls = sum(1 for e in _S["events"] if e[0] == "categorical")
            _S["events"].append(("categorical", np.array(lg, np.float32), shp))
            return _cat_values(shp, calls)

        return io_callback(host, jax.ShapeDtypeStruct(shp, jnp.int32), logits, ordered=True)

    zero_logpdf = lambda v, *a: jnp.zeros(())  # noqa: E731  (never used by resample)
    p_uniform = distribution(wrap_sampler(keyful_uniform, name="probe_uniform"), wrap_logpdf(zero_logpdf), name="probe_uniform")
    p_categorical = distribution(
        wrap_sampler(keyful_categorical, name="probe_categorical"), wrap_logpdf(zero_logpdf), name="probe_categorical"
    )

    # ---- trace shapes -------------------------------------------------------
    @gen
    def m_flat(a):
        x = normal(a, 1.0) @ "x"
        return x

    @gen
    def sub(a):
        z = normal(a, 1.0) @ "z"
        k = categorical(jnp.zeros(3)) @ "k"
        return z * 2.0, k

    @gen
    def step(c, x):
        y = normal(c + x, 1.0) @ "y"
        return c + y, y

    scan2 = Scan(step, length=const(2))

    @gen
    def m_nested(a, b):
        x = normal(a, 1.0) @ "x"
        s = sub(x) @ "s"
        v = normal.repeat(3)(b, 1.0) @ "v"
        f = flip(0.5) @ "f"
        c, ys = scan2(x, jnp.zeros(2)) @ "sc"
        return x + c, v, s, f

    @gen
    def m_vector(mu, scale):
        v = normal.vmap(in_axes=(0, None))(mu, scale) @ "v"
        w = normal(jnp.sum(v), 1.0) @ "w"
        return jnp.outer(v, v), {"w": w, "n": jnp.int32(3)}

    @gen
    def br_a(x):
        y = normal(x, 1.0) @ "y"
        return y

    @gen
    def br_b(x):
        y = normal(-x, 2.0) @ "y"
        return y * 3.0

    cond = Cond(br_a, br_b)

    @gen
    def m_cond(a):
        x = normal(a, 1.0) @ "x"
        y = cond(x > 0.0, x) @ "c"
        z = sub(y) @ "s"
        return y, z

    models = [
        ("flat", m_flat, (jnp.float32(0.3),)),
        ("nested", m_nested, (jnp.float32(0.3), jnp.float32(1.5))),
        ("vector", m_vector, (jnp.arange(3, dtype=jnp.float32), jnp.float32(0.7))),
        ("cond", m_cond, (jnp.float32(-0.2),)),
    ]
    _W.update(
        jax=jax,
        jnp=jnp,
        jtu=jtu,
        smc=smc,
        seed=seed,
        const=const,
        models=models,
        probes=(p_uniform, p_categorical),
        real=(smc.uniform, smc.categorical),
        tags={},
        structs={},
        fns={},
    )
    ctx.note(
        "floor/ceil bound: tolerance only when N*w_i is within 2*N*2^-23*(2(1+max|logw|)+N+8) of an integer; "
        "index<N and never-a-(-inf)-particle are checked without tolerance"
    )


def _use(which):
    smc = _W["smc"]
    smc.uniform, smc.categorical = _W["probes"] if which == "probes" else _W["real"]


# ---------------------------------------------------------------------------
# tagged particle collections
# ---------------------------------------------------------------------------
def _rows(a, lead):
    """Byte view of an array with `lead` leading batch axes: shape (*batch, bytes per particle)."""
    a = np.ascontiguousarray(a)
    flat = a.reshape(a.shape[:lead] + (-1,))
    if flat.shape[-1] == 0:
        return np.zeros(a.shape[:lead] + (0,), np.uint8)
    return flat.view(np.uint8)


def _tagged(mi, n, ctx):
    """Real vectorised trace of model mi with n particles (from genjax's own init), every
    leaf replaced by a tagged array of the same shape and dtype."""
    if (mi, n) in _W["tags"]:
        return _W["tags"][(mi, n)]
    jax, jnp, jtu, smc = _W["jax"], _W["jnp"], _W["jtu"], _W["smc"]
    name, model, args = _W["models"][mi]
    if mi not in _W["structs"]:
        # the vectorised trace comes from genjax's own init (once per model and worker, with the
        # particle count of the first case that needs it); its pytree structure does not depend
        # on the particle count, only the leading axis of every leaf does
        _use("real")
        pc0 = jax.jit(_W["seed"](lambda: smc.init(model, args, _W["const"](n), None)))(jax.random.key(100 + mi))
        pl0, treedef0 = jtu.tree_flatten_with_path(pc0.traces)
        for path, leaf in pl0:
            if leaf.ndim == 0 or leaf.shape[0] != n:
                raise RuntimeError(f"trace leaf {jtu.keystr(path)} has no particle axis: {leaf.shape}")
        _W["structs"][mi] = (treedef0, [(path, tuple(leaf.shape[1:]), np.dtype(leaf.dtype)) for path, leaf in pl0])
    treedef, specs = _W["structs"][mi]
    pl = [(path, np.zeros((n,) + rest, dt)) for path, rest, dt in specs]
    leaves, labels, in_rows = [], [], []
    for l, (path, leaf) in enumerate(pl):
        a = np.asarray(leaf)
        if a.ndim == 0 or a.shape[0] != n:
            raise RuntimeError(f"trace leaf {jtu.keystr(path)} has no particle axis: {a.shape}")
        m = int(np.prod(a.shape[1:])) if a.ndim > 1 else 1
        i = np.arange(n).reshape((n,) + (1,) * (a.ndim - 1))
        k = (np.arange(m) % 16).reshape(a.shape[1:])[None] if a.ndim > 1 else 0
        code = 1000 * (l + 1) + 16 * i + k
        if a.dtype == np.float32:
            t = (code + 0.25).astype(np.float32)
            if m >= 2 and l % 2 == 0:
                # element 0 of a row keeps the tag; element 1 holds values a copy must not disturb
                specials = np.array([np.nan, -0.0, np.inf, -np.inf, 1e-30], np.float32)
                flat = t.reshape(n, m)
                flat[:, 1] = specials[np.arange(n) % len(specials)]
                t = flat.reshape(a.shape)
        elif a.dtype == np.bool_:
            t = np.broadcast_to((code % 3) == 0, a.shape).copy()
        elif np.issubdtype(a.dtype, np.integer):
            t = np.broadcast_to(code, a.shape).astype(a.dtype)
        else:
            t = np.broadcast_to(code, a.shape).astype(a.dtype)
        leaves.append(jnp.asarray(t))
        labels.append(jtu.keystr(path))
        in_rows.append(_rows(t, 1))
    primary = None
    for l, r in enumerate(in_rows):
        if r.shape[1] and len({x.tobytes() for x in r}) == n:
            primary = l
            break
    if primary is None:
        raise RuntimeError("no injective leaf")
    lookup = {in_rows[primary][i].tobytes(): i for i in range(n)}
    tag = {
        "model": name,
        "n": n,
        "treedef": treedef,
        "leaves": leaves,
        "labels": labels,
        "in_rows": in_rows,
        "primary": primary,
        "lookup": lookup,
        "shapes": [(tuple(x.shape), str(x.dtype)) for x in leaves],
    }
    _W["tags"][(mi, n)] = tag
    return tag


def _collection(tag, lw, prev, stale):
    jnp, jtu, smc = _W["jnp"], _W["jtu"], _W["smc"]
    traces = jtu.tree_unflatten(tag["treedef"], tag["leaves"])
    return smc.ParticleCollection(
        traces=traces,
        log_weights=jnp.asarray(lw, jnp.float32),
        diagnostic_weights=jnp.asarray(stale, jnp.float32),
        n_samples=_W["const"](tag["n"]),
        log_marginal_estimate=jnp.asarray(prev, jnp.float32),
    )


def _fn(kind, mi, n):
    """Compiled entry points, one per (kind, model, N) and worker."""
    k = (kind, mi, n)
    if k in _W["fns"]:
        return _W["fns"][k]
    jax, smc, seed = _W["jax"], _W["smc"], _W["seed"]

    def mk(method):
        def run(p):
            out = smc.resample(p) if method is None else smc.resample(p, method=method)
            return out, out.log_marginal_likelihood(), p.log_marginal_likelihood()

        return run

    if kind == "sys":
        # one execution = resample (through the gather) + the index function itself, both fed the same scripted offset
        def run_sys(p):
            return mk("systematic")(p) + (smc.systematic_resample(p.log_weights, n),)

        f = jax.jit(seed(run_sys))
    elif kind == "cat":
        f = jax.jit(seed(mk("categorical")))
    elif kind == "vsys":
        f = jax.jit(jax.vmap(seed(mk("systematic")), in_axes=(0, None)))
    elif kind == "vcat":
        f = jax.jit(jax.vmap(seed(mk("categorical")), in_axes=(0, None)))
    else:
        raise ValueError(kind)
    _W["fns"][k] = f
    return f


def _emit(ctx, key, detail):
    c = _LIMIT.get(key, 0)
    _LIMIT[key] = c + 1
    if c < 2:
        ctx.violation(key, detail)
    else:
        ctx.count("violations_suppressed_same_key_same_case")


def _f32(x):
    return [float(v) for v in np.asarray(x, np.float32)]


# ---------------------------------------------------------------------------
# the oracle over one returned collection (lead = 0) or a batch of them (lead = 1)
# ---------------------------------------------------------------------------
def _check_output(ctx, tag, ref, prev, res, base_detail, lead=0):
    """Checks everything about the returned collection(s) that does not depend on the
    resampling method.  Returns the source index of every output particle (shape
    (*batch, N)) or None when sources could not be established."""
    jtu = _W["jtu"]
    n = tag["n"]
    out, lml_after, lml_before = res
    ok = True

    # -- particle count
    nval = getattr(out.n_samples, "value", None)
    lw_out = np.asarray(out.log_weights)
    if nval != n or lw_out.shape[lead:] != (n,):
        _emit(ctx, "resample|particle-count-changed", {**base_detail, "n_samples": repr(nval), "log_weights_shape": list(lw_out.shape)})
        return None
    # -- weights reset to exactly +0.0
    ctx.count("zero_weight_reset_checks")
    if lw_out.dtype != np.float32 or np.any(lw_out.view(np.uint32) != 0):
        _emit(ctx, "resample|log-weights-not-zero", {**base_detail, "log_weights": _f32(lw_out.reshape(-1)[: 2 * n])})
        ok = False
    # -- marginal likelihood estimate
    ctx.count("marginal_checks", int(np.size(lml_after)))
    want = float(np.float64(np.float32(prev))) + ref.lse - ref.logn
    la = np.asarray(lml_after, np.float64)
    lb = np.asarray(lml_before, np.float64)
    le = np.asarray(out.log_marginal_estimate, np.float64)
    bad = (
        np.any(~(np.abs(la - lb) <= ref.tol_marginal_before_after(want)))
        or np.any(~(np.abs(la - want) <= ref.tol_marginal_vs_ref(prev)))
        or np.any(~(np.abs(le - want) <= ref.tol_marginal_vs_ref(prev)))
    )
    if bad:
        _emit(
            ctx,
            "resample|marginal-estimate-changed",
            {
                **base_detail,
                "log_marginal_likelihood_before": float(lb.reshape(-1)[0]),
                "log_marginal_likelihood_after": float(la.reshape(-1)[0]),
                "log_marginal_estimate_after": float(le.reshape(-1)[0]),
                "reference_prev+logsumexp(w)-logN": want,
                "previous_estimate": float(np.float32(prev)),
                "tolerance": ref.tol_marginal_vs_ref(prev),
            },
        )
        ok = False
    # -- diagnostic weights = pre-resampling normalised log weights
    ctx.count("diag_checks", int(np.size(lml_after)))
    dg = np.asarray(out.diagnostic_weights, np.float64)
    if dg.shape[lead:] != (n,):
        _emit(ctx, "resample|diagnostic-weights-differ", {**base_detail, "shape": list(dg.shape)})
        ok = False
    else:
        fin = ref.finite
        d_bad = np.any(dg[..., ~fin] != -np.inf) or np.any(~(np.abs(dg[..., fin] - ref.log_w[fin]) <= ref.tol_diag()[fin]))
        if d_bad:
            _emit(
                ctx,
                "resample|diagnostic-weights-differ",
                {**base_detail, "diagnostic_weights": _f32(dg.reshape(-1, n)[0]), "reference_normalised_log_weights": [float(v) for v in ref.log_w]},
            )
            ok = False
    # -- copies: every leaf of output particle j is a bitwise copy of ONE source
    out_leaves, out_def = jtu.tree_flatten(out.traces)
    if out_def != tag["treedef"] or len(out_leaves) != len(tag["leaves"]):
        _emit(ctx, "resample|trace-structure-changed", {**base_detail, "treedef": str(out_def)[:300]})
        return None
    out_rows = []
    for l, leaf in enumerate(out_leaves):
        a = np.asarray(leaf)
        shp, dt = tag["shapes"][l]
        if a.shape[lead:] != shp or str(a.dtype) != dt:
            _emit(
                ctx,
                "resample|leaf-shape-changed",
                {**base_detail, "leaf": tag["labels"][l], "shape": list(a.shape), "dtype": str(a.dtype), "input_shape": list(shp), "input_dtype": dt},
            )
            return None
        out_rows.append(_rows(a, lead + 1))
    ctx.count("copy_checks", int(np.size(lml_after)))
    prim = out_rows[tag["primary"]]
    batch = prim.shape[:-1]
    flat = prim.reshape(-1, prim.shape[-1])
    src = np.array([tag["lookup"].get(r.tobytes(), -1) for r in flat], np.int64).reshape(batch)
    mismatch = src < 0
    for l, r in enumerate(out_rows):
        ctx.count("leaf_rows_checked", int(np.prod(batch)))
        if r.shape[-1] == 0:
            continue
        want_rows = tag["in_rows"][l][np.maximum(src, 0)]
        mismatch = mismatch | np.any(r != want_rows, axis=-1)
    if np.any(mismatch):
        # classify the first bad output particle: do all its leaves exist somewhere in the input?
        pos = tuple(int(x) for x in np.argwhere(mismatch)[0])
        per_leaf = {}
        alters = False
        for l, r in enumerate(out_rows):
            if r.shape[-1] == 0:
                continue
            row = r[pos]
            cands = [i for i in range(n) if np.array_equal(tag["in_rows"][l][i], row)]
            if not cands:
                alters = True
            per_leaf[tag["labels"][l]] = cands if len(cands) <= 4 else cands[:4] + ["..."]
        key = "resample|copy-alters-values" if alters else "resample|copy-mixes-sources"
        _emit(ctx, key, {**base_detail, "output_particle": list(pos), "matching_source_indices_per_leaf": per_leaf})
        return None
    return src


def _counts(src, n):
    if src.ndim == 1:
        return np.bincount(src, minlength=n)
    r = src.shape[0]
    return np.bincount((src + n * np.arange(r)[:, None]).reshape(-1), minlength=n * r).reshape(r, n)


def _weights_detail(ref):
    return {
        "log_weights": _f32(ref.lw32),
        "N*w_reference": [float(v) for v in ref.nw],
        "allowed_copies_lo": [int(v) for v in ref.lo],
        "allowed_copies_hi": [int(v) for v in ref.hi],
    }


def _check_counts(ctx, ref, counts, base_detail, op, feature):
    """Zero-weight and floor/ceil monitors on one count vector."""
    zero = ~ref.finite
    if np.any(counts[zero] > 0):
        _emit(
            ctx,
            f"{op}|{feature}|copies-zero-weight-particle",
            {**base_detail, **_weights_detail(ref), "copies": counts.tolist(), "zero_weight_particles_copied": np.nonzero(zero & (counts > 0))[0].tolist()},
        )
        return False
    if op == "systematic":
        ctx.count("floor_ceil_checks")
        if np.any(counts < ref.lo) or np.any(counts > ref.hi):
            badi = np.nonzero((counts < ref.lo) | (counts > ref.hi))[0]
            _emit(
                ctx,
                f"{op}|{feature}|copies-outside-floor-ceil",
                {**base_detail, **_weights_detail(ref), "copies": counts.tolist(), "particles_outside": badi.tolist()},
            )
            return False
    return True


# ---------------------------------------------------------------------------
# sweep case: scripted randomness
# ---------------------------------------------------------------------------
def run_case(case, ctx):
    _LIMIT.clear()
    if case["kind"] == "sweep":
        return _run_sweep(case, ctx)
    return _run_stat(case, ctx)


def _run_sweep(case, ctx):
    jax, jnp, smc, seed = _W["jax"], _W["jnp"], _W["smc"], _W["seed"]
    n, mi = case["N"], case["model"]
    rng = np.random.default_rng(case["rng"])
    tag = _tagged(mi, n, ctx)
    key = jax.random.key(12)
    for vi, kind in enumerate(case["kinds"]):
        lw = R.gen_log_weights(rng, n, kind)
        prev = np.float32(0.0 if rng.random() < 0.15 else rng.normal(0.0, 40.0))
        stale = rng.normal(0.0, 3.0, size=n).astype(np.float32)
        ref = R.Ref(lw)
        pc = _collection(tag, lw, prev, stale)
        nontrivial = n >= 2 and int(np.sum(ref.w > 0)) >= 2
        base = {"N": n, "model": tag["model"], "family": kind, "vector_index": vi, "log_weights": _f32(lw), "previous_log_marginal_estimate": float(prev)}
        ctx.evaluation()
        _use("probes")

        # ================= systematic, scripted offsets =================
        if nontrivial:
            ctx.distinct("nontrivial", [tag["model"], n, kind, "systematic"])
        us, mids = ref.offsets(rng, case["n_grid"], case["max_break_sides"])
        fs = _fn("sys", mi, n)
        counts_at = {}
        for ui, u32 in enumerate(us):
            u = float(u32)
            cls = ref.offset_class(u)
            ctx.count("offsets_" + cls.split("-", 1)[1].replace("-", "_"))
            det = {**base, "method": "systematic", "offset_u": u, "offset_u_hex": float(u32).hex(), "offset_is_multiple_of_2^-23": bool((u * 2**23) == int(u * 2**23)), "mode": "jit(seed(resample))"}
            # -- through resample
            _S["u"], _S["events"] = u32, []
            res = ctx.call(fs, key, pc)
            ctx.count("systematic_scripted_runs")
            if hasattr(res, "brief"):
                _emit(ctx, "resample|systematic|raises:" + res.type, {**det, **res.brief()})
                continue
            src = _check_output(ctx, tag, ref, prev, res[:3], det)
            ev = [e for e in _S["events"] if e[0] == "uniform"]
            ctx.count("uniform_site_events", len(ev))
            if src is not None:
                c = _counts(src, n)
                counts_at[ui] = c
                _check_counts(ctx, ref, c, {**det, "sources": src.tolist(), "uniform_site_parameters": [e[1:] for e in ev]}, "systematic", cls)
            # -- the index function itself (same execution, same scripted offset)
            ctx.count("systematic_direct_runs")
            idx = res[3]
            idx = np.asarray(idx)
            det2 = {**det, "mode": "jit(seed(systematic_resample))", "indices": idx.tolist()}
            if idx.shape != (n,) or not np.issubdtype(idx.dtype, np.integer):
                _emit(ctx, "systematic|index-vector-shape", {**det2, "shape": list(idx.shape), "dtype": str(idx.dtype)})
                continue
            if np.any(idx < 0) or np.any(idx >= n):
                _emit(ctx, f"systematic|{cls}|index-out-of-range", {**det2, **_weights_detail(ref), "reference_indices": ref.ref_indices(u).tolist()})
                continue
            _check_counts(ctx, ref, np.bincount(idx, minlength=n), det2, "systematic", cls)

        # expected copies: integrate the piecewise-constant copy counts over u
        if mids and all(i in counts_at for i, _, _ in mids):
            covered = sum(b - a for _, a, b in mids)
            skipped = 1.0 - covered
            if skipped <= 0.25:
                e = np.zeros(n)
                for i, a, b in mids:
                    e += (b - a) * counts_at[i]
                # intervals too narrow to probe safely contribute between lo_i and hi_i copies each
                tol = 2.0 * ref.delta_u + 1e-9
                e_lo = e + skipped * ref.lo - tol
                e_hi = e + skipped * ref.hi + tol
                ctx.count("expected_copies_systematic")
                if not np.all((e_lo <= ref.nw) & (ref.nw <= e_hi)):
                    _emit(
                        ctx,
                        "systematic|expected-copies-differ",
                        {
                            **base,
                            "method": "systematic",
                            "expected_copies_integrated_over_u_lower": e_lo.tolist(),
                            "expected_copies_integrated_over_u_upper": e_hi.tolist(),
                            "N*w_reference": ref.nw.tolist(),
                            "u_measure_not_probed": skipped,
                            "intervals": len(mids),
                        },
                    )
            else:
                ctx.count("expected_copies_systematic_skipped")

        # ================= categorical, scripted index vectors =================
        if nontrivial:
            ctx.distinct("nontrivial", [tag["model"], n, kind, "categorical"])
        fc = _fn("cat", mi, n)
        support = np.nonzero(ref.w > 0)[0]
        _S["support"] = support
        scripts = []
        if n <= 4:
            scripts = [np.array(s) for s in np.ndindex(*([n] * n))]
            exhaustive = True
        else:
            exhaustive = False
            scripts.append(np.full(n, int(np.argmax(ref.w))))
            scripts.append(support[np.arange(n) % support.size])
            scripts.append(support[::-1][np.arange(n) % support.size])
            for _ in range(case["n_cat_scripts"]):
                scripts.append(rng.choice(n, size=n, p=ref.w))
        e_enum = np.zeros(n)
        p_total = 0.0
        reported = None
        enum_ok = True
        for script in scripts:
            in_support = bool(np.all(ref.w[script] > 0))
            if not in_support and not exhaustive:
                continue
            _S["cat"], _S["events"] = script, []
            det = {**base, "method": "categorical", "scripted_indices": [int(v) for v in script], "mode": "jit(seed(resample))"}
            res = ctx.call(fc, key, pc)
            ctx.count("categorical_scripted_runs")
            if hasattr(res, "brief"):
                _emit(ctx, "resample|categorical|raises:" + res.type, {**det, **res.brief()})
                enum_ok = False
                continue
            ev = [e for e in _S["events"] if e[0] == "categorical"]
            ctx.count("categorical_site_events", len(ev))
            if not ev:
                _emit(ctx, "categorical|site-not-reached", det)
                enum_ok = False
                continue
            src = _check_output(ctx, tag, ref, prev, res, det)
            if src is None:
                enum_ok = False
                continue
            c = _counts(src, n)
            drawn = _cat_values(ev[0][2], 0).reshape(-1)
            want_c = np.bincount(drawn, minlength=n)[:n] if np.all((drawn >= 0) & (drawn < n)) else None
            if want_c is None or not np.array_equal(c, want_c):
                _emit(ctx, "categorical|scripted|copies-differ-from-drawn-indices", {**det, "copies": c.tolist(), "sources": src.tolist(), "site_calls": len(ev)})
                enum_ok = False
                continue
            reported = (np.asarray(ev[0][1], np.float64), ev[0][2])
            if in_support:
                _check_counts(ctx, ref, c, det, "categorical", "scripted")
            if exhaustive:
                if reported[0].shape != (n,) or int(np.prod(reported[1])) != n:
                    enum_ok = False
                else:
                    p = float(np.prod(R.softmax64(reported[0])[script]))
                    p_total += p
                    e_enum += p * c
        tol_cat = n * 1e-6 * (2.0 + ref.maxabs) + 1e-9
        if exhaustive and enum_ok:
            ctx.count("categorical_enumerations")
            ctx.count("categorical_scripts_enumerated", len(scripts))
            if not (abs(p_total - 1.0) <= 1e-9) or not np.all(np.abs(e_enum - ref.nw) <= tol_cat):
                _emit(
                    ctx,
                    "categorical|site-parameters|expected-copies-differ",
                    {**base, "method": "categorical", "exact_expected_copies_by_enumeration": e_enum.tolist(), "probability_mass_enumerated": p_total, "N*w_reference": ref.nw.tolist(), "logits_seen_by_site": _f32(reported[0]) if reported else None},
                )
        if reported is not None:
            # law of the copy counts given the parameters the site actually received
            ctx.count("categorical_site_checks")
            lg, shp = reported
            n_req = int(np.prod(shp)) if len(shp) else 1
            bad = lg.shape != (n,) or not np.any(np.isfinite(lg))
            if not bad:
                e = n_req * R.softmax64(lg)
                bad = not bool(np.all(np.abs(e - ref.nw) <= tol_cat))
            if bad:
                _emit(
                    ctx,
                    "categorical|site-parameters|expected-copies-differ",
                    {**base, "method": "categorical", "logits_seen_by_site": _f32(lg), "sample_shape_requested": list(shp), "N*w_reference": ref.nw.tolist()},
                )

        # ================= eager (un-jitted) seed(resample)(key, particles) =================
        eager_us = [np.float32(1 - 2.0**-23), us[int(rng.integers(len(us)))], np.float32(2.0**-23)]
        if not case.get("eager", True):
            eager_us = []
        for u32 in eager_us:
            u = float(u32)
            cls = ref.offset_class(u)
            det = {**base, "method": "systematic", "offset_u": u, "offset_u_hex": u.hex(), "mode": "seed(resample) eager"}
            _S["u"], _S["events"] = u32, []
            res = ctx.call(lambda: seed(_eager_run("systematic"))(key, pc))
            ctx.count("eager_runs")
            if hasattr(res, "brief"):
                _emit(ctx, "resample|systematic|raises:" + res.type, {**det, **res.brief()})
                continue
            src = _check_output(ctx, tag, ref, prev, res, det)
            if src is not None:
                _check_counts(ctx, ref, _counts(src, n), {**det, "sources": src.tolist()}, "systematic", cls)
        for method in ("categorical", None) if case.get("eager", True) else ():
            script = rng.choice(n, size=n, p=ref.w)
            _S["cat"], _S["events"] = script, []
            det = {**base, "method": "categorical" if method else "default", "scripted_indices": [int(v) for v in script], "mode": "seed(resample) eager"}
            res = ctx.call(lambda: seed(_eager_run(method))(key, pc))
            ctx.count("eager_runs")
            if hasattr(res, "brief"):
                _emit(ctx, "resample|categorical|raises:" + res.type, {**det, **res.brief()})
                continue
            src = _check_output(ctx, tag, ref, prev, res, det)
            ev = [e for e in _S["events"] if e[0] == "categorical"]
            if src is not None and ev:
                drawn = _cat_values(ev[0][2], 0).reshape(-1)
                if not np.array_equal(_counts(src, n), np.bincount(drawn, minlength=n)):
                    _emit(ctx, "categorical|scripted|copies-differ-from-drawn-indices", {**det, "sources": src.tolist()})
            elif src is not None:
                _emit(ctx, "categorical|site-not-reached", det)

        if vi == 0 and case.get("index", 0) % 19 == 0:
            ctx.sample(
                {
                    "kind": "sweep",
                    "N": n,
                    "model": tag["model"],
                    "trace_leaves": len(tag["leaves"]),
                    "family": kind,
                    "log_weights": _f32(lw)[:8],
                    "offsets_scripted": len(us),
                    "breakpoints": int(ref.breaks.size),
                    "categorical_scripts": len(scripts),
                    "categorical_exhaustive": exhaustive,
                }
            )
    _use("real")


_EAGER = {}


def _eager_run(method):
    if method not in _EAGER:
        smc = _W["smc"]

        def run(p):
            out = smc.resample(p) if method is None else smc.resample(p, method=method)
            return out, out.log_marginal_likelihood(), p.log_marginal_likelihood()

        _EAGER[method] = run
    return _EAGER[method]


# ---------------------------------------------------------------------------
# stat case: the real samplers, vmap over keys
# ---------------------------------------------------------------------------
def _run_stat(case, ctx):
    jax = _W["jax"]
    n, reps = case["N"], case["reps"]
    rng = np.random.default_rng(case["rng"])
    alpha = 1e-9 / MAX_TESTS[ctx.tier]
    ctx.note(
        f"real-sampler monitors: exact two-sided binomial tests, alpha/test = 1e-9/{MAX_TESTS[ctx.tier]}; categorical: "
        f"copies of particle i over {reps} resamples ~ Bin({reps}*N, w_i), detects a relative bias of E[copies_i] above "
        f"~8*sqrt((1-w_i)/({reps}*N*w_i)) (w_i=0.25, N=16: {8 * math.sqrt(0.75 / (reps * 16 * 0.25)):.3f}); systematic: "
        f"#resamples with ceil(N w_i) copies ~ Bin({reps}, frac(N w_i)), detects a shift of that probability above ~{8 * 0.5 / math.sqrt(reps):.3f}"
    )
    mi = 0
    tag = _tagged(mi, n, ctx)
    for vi, kind in enumerate(case["kinds"]):
        lw = R.gen_log_weights(rng, n, kind)
        if not np.isfinite(lw[0]):
            j = int(np.nonzero(np.isfinite(lw))[0][0])
            lw[0], lw[j] = lw[j], lw[0]
        prev = np.float32(rng.normal(0.0, 40.0))
        stale = rng.normal(0.0, 3.0, size=n).astype(np.float32)
        ref = R.Ref(lw)
        pc = _collection(tag, lw, prev, stale)
        ctx.evaluation()
        _use("real")
        keys = jax.random.split(jax.random.key(int(rng.integers(2**31))), reps)
        for method, fk in (("categorical", "vcat"), ("systematic", "vsys")):
            if int(np.sum(ref.w > 0)) >= 2:
                ctx.distinct("nontrivial", ["flat", n, kind, method + "-real"])
            det = {"N": n, "model": "flat", "family": kind, "log_weights": _f32(lw), "previous_log_marginal_estimate": float(prev), "method": method, "mode": f"vmap over {reps} keys of seed(resample)(key, particles, method)", "case_rng": case["rng"], "vector_index": vi}
            res = ctx.call(_fn(fk, mi, n), keys, pc)
            if hasattr(res, "brief"):
                _emit(ctx, f"resample|{method}|raises:" + res.type, {**det, **res.brief()})
                continue
            ctx.count("real_sampler_resamples", reps)
            src = _check_output(ctx, tag, ref, prev, res, det, lead=1)
            if src is None:
                continue
            counts = _counts(src, n)  # (reps, n)
            zero = ~ref.finite
            if np.any(counts[:, zero] > 0):
                r = int(np.nonzero(np.any(counts[:, zero] > 0, axis=1))[0][0])
                # structural signature of a pointer beyond the last cumulative weight: the LAST slot takes the LAST particle
                feature = "offset-near-1" if (method == "systematic" and zero[n - 1] and src[r, n - 1] == n - 1 and np.all(ref.finite[src[r, : n - 1]])) else "real-sampler"
                _emit(ctx, f"{method}|{feature}|copies-zero-weight-particle", {**det, **_weights_detail(ref), "key_index": r, "sources": src[r].tolist()})
                continue
            if method == "systematic":
                ctx.count("floor_ceil_checks", reps)
                badr = np.nonzero(np.any((counts < ref.lo) | (counts > ref.hi), axis=1))[0]
                if badr.size:
                    r = int(badr[0])
                    _emit(ctx, "systematic|real-sampler|copies-outside-floor-ceil", {**det, **_weights_detail(ref), "key_index": r, "copies": counts[r].tolist()})
                    continue
                for i in range(n):
                    f = ref.nw[i] - math.floor(ref.nw[i])
                    if not (4 * ref.delta_u < f < 1 - 4 * ref.delta_u):
                        continue
                    k = int(np.sum(counts[:, i] == ref.ceil[i]))
                    p = R.binom_two_sided_p(k, reps, f - 2 * ref.delta_u, f + 2 * ref.delta_u)
                    ctx.count("binomial_tests")
                    if p < alpha:
                        _emit(ctx, "systematic|real-sampler|expected-copies-differ", {**det, "particle": i, "N*w_i": float(ref.nw[i]), "resamples_with_ceil_copies": k, "of": reps, "expected_probability": f, "p_value": p, "alpha": alpha, "mean_copies_observed": counts.mean(axis=0).tolist(), "N*w_reference": ref.nw.tolist()})
                        break
            else:
                tot = counts.sum(axis=0)
                for i in range(n):
                    if not ref.finite[i]:
                        continue
                    w = float(ref.w[i])
                    p = R.binom_two_sided_p(int(tot[i]), reps * n, w * (1 - 1e-4) - 1e-9, w * (1 + 1e-4) + 1e-9)
                    ctx.count("binomial_tests")
                    if p < alpha:
                        _emit(ctx, "categorical|real-sampler|expected-copies-differ", {**det, "particle": i, "w_i": w, "copies_total": int(tot[i]), "draws": reps * n, "p_value": p, "alpha": alpha, "mean_copies_observed": counts.mean(axis=0).tolist(), "N*w_reference": ref.nw.tolist()})
                        break
        if vi == 0 and case.get("index", 0) % 7 == 0:
            ctx.sample({"kind": "stat", "N": n, "family": kind, "log_weights": _f32(lw)[:8], "keys": reps})
