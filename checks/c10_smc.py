"""C10 — SMC particles are properly weighted; the evidence estimate is unbiased.

Targets: HMM-like step models  x_t ~ Cat(A[x_{t-1}]),  y_t ~ Cat(B[x_t]) or N(mu[x_t], s)
(return value x_t feeds the next step), default and custom proposals
q(x_t | x_{t-1}, y_t).  All sampling sites are probe sites; resampling's
categorical / uniform and the MH accept uniform are probes as well.

  weights   after init / extend: log_weights[i] - previous == reference increment
            log p(x_i | prev_i) + log p(y | x_i) - log q(x_i | ...)  (float64), with prev_i the
            particle's own previous return value; every proposal/model site saw its own
            particle's parameters; rejuvenate leaves weights bit-equal; resample resets them
  estimate  log_marginal_likelihood() == accumulated + logmeanexp(weights), recomputed
  exact     discrete models, N<=3, T<=3: E[exp(lml)] over ALL outcome scripts (particles'
            draws and resampling ancestors) == p(y_1..t) by the forward algorithm, after every
            step of hand-composed pipelines and of rejuvenation_smc; same for
            E[exp(lml) * estimate(1[x=k])] == p(x_t = k, y_1..t)
  sampled   pipelines with MH rejuvenation / larger N: mean of exp(lml) over many seeded
            runs (real samplers) within 6.5 standard errors of the exact evidence
"""

from __future__ import annotations

import math

import numpy as np

PROPERTY = "C10"
LEVEL = "exploration"
RULE = (
    "HMM-like models with K in 2..3 states, M in 2..3 symbols or Gaussian emissions, random transition/emission/"
    "proposal tables from SeedSequence([VERIF_SEED, 10, index]); pipelines = random compositions of init, extend, "
    "resample(categorical|systematic), rejuvenate(mh) and rejuvenation_smc, N in {1,2,3,5,16}; "
    "distinct_nontrivial = distinct (K, M, N, emission kind, proposal kind, pipeline) tuples with at least two moves"
)
ASSUMPTIONS = [
    "float64 numpy reference (forward algorithm, closed-form categorical / normal densities)",
    "JAX API translation layer (DESIGN §2)",
    "randomness of resampling and MH observed by reassigning smc.categorical/uniform and mcmc.uniform/normal to probes",
]
FLOORS = {
    "quick": {"weight_identities": 250, "lml_checks": 80, "exact_instances": 8, "sampled_instances": 3, "site_param_matches": 250, "rejuvenate_weight_checks": 20},
    "thorough": {"weight_identities": 3000, "lml_checks": 800, "exact_instances": 80, "sampled_instances": 20, "site_param_matches": 3000, "rejuvenate_weight_checks": 200},
}
TIMEOUT_S = {"quick": 1800, "thorough": 7200}
TAG_X, TAG_Y, TAG_Q, TAG_Z, TAG_RC, TAG_RU, TAG_MU, TAG_MN = 101, 102, 103, 104, 9101, 9102, 9001, 9002


def plan(tier, seed):
    cases = []
    n = 28 if tier == "quick" else 240
    for i in range(n):
        cases.append({"kind": "pipeline", "gseed": [seed, 10, i]})
    for i in range(12 if tier == "quick" else 90):
        cases.append({"kind": "exact", "gseed": [seed, 1010, i]})
    for i in range(4 if tier == "quick" else 24):
        cases.append({"kind": "sampled", "gseed": [seed, 101010, i]})
    return cases


_ORIG = {}


def worker_setup(ctx):
    import genjax.inference.mcmc as mc
    import genjax.inference.smc as smc

    _ORIG.update(smc_categorical=smc.categorical, smc_uniform=smc.uniform, mc_uniform=mc.uniform, mc_normal=mc.normal)


def _probes_on(on):
    import genjax.inference.mcmc as mc
    import genjax.inference.smc as smc

    from lib import probes

    if on:
        smc.categorical = probes.probe("cat", TAG_RC)
        smc.uniform = probes.probe("uniform", TAG_RU)
        mc.uniform = probes.probe("uniform", TAG_MU)
        mc.normal = probes.probe("normal", TAG_MN)
    else:
        smc.categorical = _ORIG["smc_categorical"]
        smc.uniform = _ORIG["smc_uniform"]
        mc.uniform = _ORIG["mc_uniform"]
        mc.normal = _ORIG["mc_normal"]


# ---------------------------------------------------------------------------
# model family
# ---------------------------------------------------------------------------
def _family(rng, emission=None, small=False, aux=None):
    K = int(rng.integers(2, 3 if small else 4))
    M = int(rng.integers(2, 3 if small else 4))
    emission = emission or ("cat" if rng.random() < 0.6 else "normal")
    A = np.round(rng.normal(size=(K, K)) * 1.2, 3)
    B = np.round(rng.normal(size=(K, M)) * 1.2, 3)
    mu = np.round(rng.normal(size=K) * 1.5, 3)
    sig = float(np.round(rng.uniform(0.5, 1.5), 3))
    Q = np.round(rng.normal(size=(K, M, K)) * 1.0, 3)
    # optional second latent per step, z_t ~ Cat(C[x_t]): a custom proposal then covers only PART of the step's
    # latents (x) and z is left to the model's own proposal inside generate - its prior term must cancel in the weight
    C = np.round(rng.normal(size=(K, 2)) * 1.2, 3)
    if aux is None:
        aux = bool(rng.random() < 0.4)
    # nested: the step's choices live under one address of an outer @gen function ({"s": {"x", "y"}}), so that a
    # custom proposal's choices and the observations share a hierarchical prefix and must be merged recursively
    nested = bool(rng.random() < 0.35)
    return {"K": K, "M": M, "emission": emission, "A": A, "B": B, "mu": mu, "sig": sig, "Q": Q, "C": C, "aux": bool(aux),
            "nested": nested}


def _ch(fam, choices):
    return choices["s"] if fam.get("nested") else choices


def _selx(fam):
    from genjax import sel

    return sel(("s", "x")) if fam.get("nested") else sel("x")


def _lsm(v):
    v = np.asarray(v, dtype=np.float64)
    m = v.max(axis=-1, keepdims=True)
    return v - m - np.log(np.exp(v - m).sum(axis=-1, keepdims=True))


class RefHMM:
    def __init__(self, fam):
        self.f = fam
        self.lA = _lsm(fam["A"])
        self.lB = _lsm(fam["B"])
        self.lQ = _lsm(fam["Q"])

    def ybin(self, y):
        """index used by the proposal table: the symbol, or the sign bucket of a real observation"""
        if self.f["emission"] == "cat":
            return int(y)
        return int(float(y) > 0.0) % self.f["M"]

    def log_emit(self, x, y):
        if self.f["emission"] == "cat":
            return float(self.lB[int(x), int(y)])
        z = (float(y) - self.f["mu"][int(x)]) / self.f["sig"]
        return -0.5 * z * z - math.log(self.f["sig"]) - 0.5 * math.log(2 * math.pi)

    def increment(self, prev, x, y, proposal):
        lp = self.lA[int(prev), int(x)] + self.log_emit(x, y)
        if proposal:
            return lp - self.lQ[int(prev), self.ybin(y), int(x)]
        return self.log_emit(x, y)

    def forward(self, ys):
        """alpha_t[k] = p(x_t = k, y_1..t), t = 1..T, initial state 0"""
        out = []
        a = None
        for t, y in enumerate(ys):
            e = np.array([math.exp(self.log_emit(k, y)) for k in range(self.f["K"])])
            if t == 0:
                a = np.exp(self.lA[0]) * e
            else:
                a = (a @ np.exp(self.lA)) * e
            out.append(a.copy())
        return out


def _build(fam):
    import jax.numpy as jnp
    from genjax import gen, normal

    from lib import probes

    A = jnp.asarray(fam["A"], jnp.float32)
    B = jnp.asarray(fam["B"], jnp.float32)
    mu = jnp.asarray(fam["mu"], jnp.float32)
    Q = jnp.asarray(fam["Q"], jnp.float32)
    sig = fam["sig"]
    M = fam["M"]
    px, py, pq = probes.probe("cat", TAG_X), probes.probe("cat", TAG_Y), probes.probe("cat", TAG_Q)
    pz = probes.probe("cat", TAG_Z)
    C = jnp.asarray(fam["C"], jnp.float32)
    aux = fam.get("aux", False)
    emission = fam["emission"]

    @gen
    def flat_model(prev):
        x = px(A[prev]) @ "x"
        if aux:
            pz(C[x]) @ "z"
        if emission == "cat":
            py(B[x]) @ "y"
        else:
            normal(mu[x], sig) @ "y"
        return x

    nested = fam.get("nested", False)
    if nested:

        @gen
        def model(prev):
            return flat_model(prev) @ "s"

    else:
        model = flat_model

    def ybin(y):
        if emission == "cat":
            return y
        return (y > 0.0).astype(jnp.int32) % M

    if nested:

        @gen
        def q_inner(yv, prev):
            return pq(Q[prev, ybin(yv)]) @ "x"

        @gen
        def init_proposal(cons, prev):
            return q_inner(cons["s"]["y"], prev) @ "s"

        @gen
        def ext_proposal(cons, old_choices, prev):
            return q_inner(cons["s"]["y"], prev) @ "s"

    else:

        @gen
        def init_proposal(cons, prev):
            return pq(Q[prev, ybin(cons["y"])]) @ "x"

        @gen
        def ext_proposal(cons, old_choices, prev):
            return pq(Q[prev, ybin(cons["y"])]) @ "x"

    return model, init_proposal, ext_proposal


def _obs(fam, rng, T):
    if fam["emission"] == "cat":
        return [int(rng.integers(fam["M"])) for _ in range(T)]
    return [float(np.float32(rng.normal() * 1.5)) for _ in range(T)]


def _jobs(fam, y):
    import jax.numpy as jnp

    o = {"y": jnp.asarray(y, jnp.int32 if fam["emission"] == "cat" else jnp.float32)}
    return {"s": o} if fam.get("nested") else o


# ---------------------------------------------------------------------------
def run_case(case, ctx):
    return {"pipeline": _run_pipeline, "exact": _run_exact, "sampled": _run_sampled}[case["kind"]](case, ctx)


def _check_estimate(ctx, p, fam, d, op):
    """estimate(h) is the self-normalised average of h over the particles under the collection's OWN log weights"""
    import jax.numpy as jnp

    lw = np.asarray(p.log_weights, dtype=np.float64)
    if not np.all(np.isfinite(lw)):
        return True
    xs = np.asarray(_ch(fam, p.traces.get_choices())["x"]).astype(np.int64)
    w = np.exp(lw - lw.max())
    w = w / w.sum()
    for kk in range(fam["K"]):
        got = float(p.estimate(lambda c, _k=kk: (_ch(fam, c)["x"] == _k).astype(jnp.float32)))
        want = float(np.sum(w * (xs == kk)))
        ctx.count("estimate_identities")
        if abs(got - want) > 1e-5:
            ctx.violation(f"{op}|estimate-not-weighted-average-under-own-weights",
                          {**d, "h": f"1[x == {kk}]", "estimate": got, "reference": want, "log_weights": lw.tolist(), "x": xs.tolist()})
            return False
    return True


def _lml_ref(acc, lw):
    lw = np.asarray(lw, dtype=np.float64)
    m = lw.max()
    if not np.isfinite(m):
        return -math.inf
    return float(acc) + m + math.log(np.exp(lw - m).sum()) - math.log(len(lw))


def _run_pipeline(case, ctx):
    import jax
    import jax.numpy as jnp
    from genjax import const, sel, seed
    from genjax.inference import extend, init, mh, rejuvenate, resample

    from lib import gfi, probes
    from lib import refmodel as R

    _probes_on(True)
    rng = np.random.default_rng(case["gseed"])
    ctx.evaluation()
    fam = _family(rng)
    ref = RefHMM(fam)
    model, q0, q = _build(fam)
    N = int(rng.choice([1, 2, 3, 5, 16]))
    T = int(rng.integers(2, 5))
    use_prop = bool(rng.random() < 0.5)
    ys = _obs(fam, rng, T)
    base = {"K": fam["K"], "M": fam["M"], "emission": fam["emission"], "N": N, "custom_proposal": use_prop, "aux_latent": fam["aux"], "nested_addresses": fam["nested"], "C": fam["C"].tolist(), "observations": ys,
            "A": fam["A"].tolist(), "B": fam["B"].tolist(), "mu": fam["mu"].tolist(), "sigma": fam["sig"], "Q": fam["Q"].tolist()}
    pipeline = []
    probes.HOST.reset("observe", int(rng.integers(2**31)))
    key = jax.random.key(int(rng.integers(2**31)))

    def jit_run(f, *a):
        nonlocal key
        key, sub = jax.random.split(key)
        probes.HOST.events.clear()
        return ctx.call(jax.jit(seed(f)), sub, *a)

    # ---- init
    prev0 = jnp.int32(0)
    p = jit_run(lambda pv, o: init(model, (pv,), const(N), o, q0 if use_prop else None), prev0, _jobs(fam, ys[0]))
    pipeline.append("init")
    if hasattr(p, "brief"):
        ctx.violation(gfi.raise_key("init", p), {**base, "pipeline": pipeline, **p.brief()})
        return
    acc_ref = 0.0  # accumulated marginal (float64, recomputed)
    prev_ret = np.zeros(N, dtype=np.int64)
    lw_prev = np.zeros(N)
    ok = _check_move(ctx, ref, fam, p, prev_ret, lw_prev, ys[0], use_prop, acc_ref, list(probes.HOST.events), base, pipeline, "init")
    if not ok:
        return
    for t in range(1, T):
        # optional resample / rejuvenate between extensions
        for opt in ("resample", "rejuvenate"):
            if rng.random() < 0.5:
                before = p
                if opt == "resample":
                    method = "categorical" if rng.random() < 0.6 else "systematic"
                    p = jit_run(lambda pc, _m=method: resample(pc, _m), before)
                    pipeline.append(f"resample:{method}")
                    if hasattr(p, "brief"):
                        ctx.violation(gfi.raise_key("resample", p), {**base, "pipeline": pipeline, **p.brief()})
                        return
                    lwb = np.asarray(before.log_weights, dtype=np.float64)
                    acc_ref = _lml_ref(float(before.log_marginal_estimate), lwb)
                    d = {**base, "pipeline": list(pipeline)}
                    if not np.all(np.asarray(p.log_weights) == 0.0):
                        ctx.violation("resample|weights-not-reset", d)
                        return
                    lml_b, lml_a = float(before.log_marginal_likelihood()), float(p.log_marginal_likelihood())
                    ctx.count("lml_checks")
                    if math.isfinite(lml_b) and abs(lml_a - lml_b) > 2e-5 * (1 + abs(lml_b)):
                        ctx.violation("resample|marginal-estimate-changed", {**d, "before": lml_b, "after": lml_a})
                        return
                    if not _check_estimate(ctx, p, fam, d, "resample"):
                        return
                else:
                    p = jit_run(lambda pc: rejuvenate(pc, lambda tr: mh(tr, _selx(fam))), before)
                    pipeline.append("rejuvenate:mh")
                    if hasattr(p, "brief"):
                        ctx.violation(gfi.raise_key("rejuvenate", p), {**base, "pipeline": pipeline, **p.brief()})
                        return
                    ctx.count("rejuvenate_weight_checks")
                    d = {**base, "pipeline": list(pipeline)}
                    if not gfi.bit_equal(np.asarray(p.log_weights), np.asarray(before.log_weights)) or not gfi.bit_equal(
                        np.asarray(p.log_marginal_estimate), np.asarray(before.log_marginal_estimate)
                    ):
                        ctx.violation("rejuvenate|weights-changed", {**d, "before": np.asarray(before.log_weights).tolist(), "after": np.asarray(p.log_weights).tolist()})
                        return
                    # observations untouched, traces coherent with their own arguments
                    if not np.array_equal(np.asarray(_ch(fam, p.traces.get_choices())["y"]), np.asarray(_ch(fam, before.traces.get_choices())["y"])):
                        ctx.violation("rejuvenate|observation-changed", d)
                        return
                    if not _check_estimate(ctx, p, fam, d, "rejuvenate"):
                        return
        before = p
        prev_ret = np.asarray(before.traces.get_retval()).astype(np.int64)
        lw_prev = np.asarray(before.log_weights, dtype=np.float64)
        acc_ref = float(before.log_marginal_estimate)
        p = jit_run(lambda pc, o: extend(pc, model, pc.traces.get_retval(), o, q if use_prop else None), before, _jobs(fam, ys[t]))
        pipeline.append("extend")
        if hasattr(p, "brief"):
            ctx.violation(gfi.raise_key("extend", p), {**base, "pipeline": pipeline, **p.brief()})
            return
        ok = _check_move(ctx, ref, fam, p, prev_ret, lw_prev, ys[t], use_prop, acc_ref, list(probes.HOST.events), base, pipeline, "extend")
        if not ok:
            return
    if len(pipeline) >= 2:
        ctx.distinct("nontrivial", [fam["K"], fam["M"], N, fam["emission"], use_prop, pipeline])
        ctx.sample({"model": {k: base[k] for k in ("K", "M", "emission", "N", "custom_proposal", "observations")}, "pipeline": pipeline,
                    "final_log_weights": np.asarray(p.log_weights).tolist(), "log_marginal_likelihood": float(p.log_marginal_likelihood())})


def _check_move(ctx, ref, fam, p, prev_ret, lw_prev, y, use_prop, acc_ref, events, base, pipeline, op):
    from lib import gfi
    from lib import refmodel as R

    d = {**base, "pipeline": list(pipeline)}
    ch = _ch(fam, p.traces.get_choices())
    xs = np.asarray(ch["x"]).astype(np.int64)
    ys_ = np.asarray(ch["y"])
    lw = np.asarray(p.log_weights, dtype=np.float64)
    N = len(lw)
    if xs.shape != (N,) or int(p.n_samples.value) != N:
        ctx.violation(f"{op}|particle-count-changed", {**d, "shape": list(xs.shape)})
        return False
    # observation held by every particle
    if not np.all(ys_ == np.asarray(y, dtype=ys_.dtype)):
        ctx.violation(f"{op}|observation-not-held", {**d, "y": ys_.tolist()})
        return False
    rets = np.asarray(p.traces.get_retval()).astype(np.int64)
    if not np.array_equal(rets, xs):
        ctx.violation(f"{op}|retval-not-state", {**d, "retval": rets.tolist(), "x": xs.tolist()})
        return False
    for i in range(N):
        want = lw_prev[i] + ref.increment(prev_ret[i], xs[i], y, use_prop)
        ctx.count("weight_identities")
        if not (abs(lw[i] - want) <= 2e-5 * (1 + abs(want)) + 1e-5):
            ctx.violation(
                f"{op}|particle-weight-differs" + ("|custom-proposal" if use_prop else "|default-proposal") + ("|partial" if use_prop and fam.get("aux") else ""),
                {**d, "particle": i, "prev_state": int(prev_ret[i]), "x": int(xs[i]), "y": y, "log_weight": lw[i], "reference": want},
            )
            return False
    # the site that drew x_i saw the parameters of particle i's own previous state
    tag = TAG_Q if use_prop else TAG_X
    evs = [e for e in events if e.tag == tag]
    if len(evs) != N:
        ctx.violation(f"{op}|draws-per-particle", {**d, "draws": len(evs), "particles": N})
        return False
    used = [False] * N
    for i in range(N):
        want = fam["Q"][prev_ret[i], ref.ybin(y)] if use_prop else fam["A"][prev_ret[i]]
        hit = None
        for j, e in enumerate(evs):
            if not used[j] and int(e.value) == int(xs[i]) and np.allclose(np.asarray(e.params[0]), want, atol=1e-5):
                hit = j
                break
        if hit is None:
            ctx.violation(f"{op}|site-saw-another-particles-parameters", {**d, "particle": i, "prev_state": int(prev_ret[i]), "x": int(xs[i]),
                                                                          "sites_saw": [np.asarray(e.params[0]).tolist() for e in evs]})
            return False
        used[hit] = True
        ctx.count("site_param_matches")
    if fam.get("aux"):
        # the auxiliary latent is always drawn by the model itself, given the particle's own x
        zs = np.asarray(ch["z"]).astype(np.int64)
        evz = [e for e in events if e.tag == TAG_Z]
        if len(evz) != N:
            ctx.violation(f"{op}|aux-latent|draws-per-particle", {**d, "draws": len(evz), "particles": N})
            return False
        usedz = [False] * N
        for i in range(N):
            want = fam["C"][xs[i]]
            hit = None
            for j, e in enumerate(evz):
                if not usedz[j] and int(e.value) == int(zs[i]) and np.allclose(np.asarray(e.params[0]), want, atol=1e-5):
                    hit = j
                    break
            if hit is None:
                ctx.violation(f"{op}|aux-latent|site-saw-another-particles-parameters", {**d, "particle": i, "x": int(xs[i]), "z": int(zs[i])})
                return False
            usedz[hit] = True
            ctx.count("aux_site_param_matches")
    # marginal estimate
    ctx.count("lml_checks")
    want = _lml_ref(acc_ref, lw)
    got = float(p.log_marginal_likelihood())
    if math.isfinite(want) and abs(got - want) > 2e-5 * (1 + abs(want)):
        ctx.violation(f"{op}|log_marginal_likelihood-not-accumulated-plus-logmeanexp", {**d, "got": got, "reference": want})
        return False
    if abs(float(p.log_marginal_estimate) - acc_ref) > 2e-5 * (1 + abs(acc_ref)):
        ctx.violation(f"{op}|accumulated-estimate-changed", {**d, "got": float(p.log_marginal_estimate), "reference": acc_ref})
        return False
    return _check_estimate(ctx, p, fam, d, op)


# ---------------------------------------------------------------------------
def _run_exact(case, ctx):
    import jax
    import jax.numpy as jnp
    from genjax import const, seed
    from genjax.inference import extend, init, rejuvenation_smc, resample

    from lib import gfi, probes

    _probes_on(True)
    rng = np.random.default_rng(case["gseed"])
    ctx.evaluation()
    fam = _family(rng, emission="cat" if rng.random() < 0.7 else "normal", small=True)
    ref = RefHMM(fam)
    N = int(rng.choice([1, 2, 2, 3]))
    T = int(rng.integers(1, 4)) if N < 3 else int(rng.integers(1, 3))
    fam["aux"] = bool(fam["aux"] and N * T <= 3)  # every auxiliary site doubles the outcome tree
    model, q0, q = _build(fam)
    use_prop = bool(rng.random() < 0.5)
    ys = _obs(fam, rng, T)
    mode = "composed" if rng.random() < 0.6 else "rejuvenation_smc"
    resample_at = [bool(rng.random() < 0.5) for _ in range(T)]
    base = {"K": fam["K"], "M": fam["M"], "emission": fam["emission"], "N": N, "T": T, "custom_proposal": use_prop, "aux_latent": fam["aux"], "nested_addresses": fam["nested"], "observations": ys,
            "mode": mode, "resample_after_step": resample_at,
            "A": fam["A"].tolist(), "B": fam["B"].tolist(), "mu": fam["mu"].tolist(), "sigma": fam["sig"], "Q": fam["Q"].tolist()}
    alphas = ref.forward(ys)
    kk = int(rng.integers(fam["K"]))

    def stats(p):
        lml = p.log_marginal_likelihood()
        est = p.estimate(lambda c: (_ch(fam, c)["x"] == kk).astype(jnp.float32))
        return lml, est

    # which time step's exact quantities each recorded (lml, estimate) pair is compared with
    targets = list(range(T))
    if mode == "composed":
        targets = [0]
        for t in range(1, T):
            if resample_at[t - 1]:
                targets.append(t - 1)  # right after resampling: still an estimate of step t-1's quantities
            targets.append(t)

        def pipeline(pv, obs_list):
            outs = []
            p = init(model, (pv,), const(N), obs_list[0], q0 if use_prop else None)
            outs.append(stats(p))
            for t in range(1, T):
                if resample_at[t - 1]:
                    p = resample(p, "categorical")
                    outs.append(stats(p))
                p = extend(p, model, p.traces.get_retval(), obs_list[t], q if use_prop else None)
                outs.append(stats(p))
            return outs

    else:
        use_prop = False  # rejuvenation_smc initialises with the model's own proposal
        base["custom_proposal"] = "transition only"

        def pipeline(pv, obs_list):
            obs = jax.tree_util.tree_map(lambda *v: jnp.stack(v), *obs_list)
            ps = rejuvenation_smc(model, q if rng_prop else None, None, obs, (pv,), const(N), const(True), const(1))
            outs = []
            for t in range(T):
                pt = jax.tree_util.tree_map(lambda v: v[t], ps)
                outs.append(stats(pt))
            return outs

    rng_prop = bool(rng.random() < 0.5)
    if mode != "composed":
        base["transition_proposal"] = rng_prop
    fn = jax.jit(seed(pipeline))
    obs_list = [_jobs(fam, y) for y in ys]
    key = jax.random.key(0)
    cap = 3000 if ctx.tier == "quick" else 40000
    E = np.zeros(len(targets))
    Eh = np.zeros(len(targets))
    total = 0.0
    nleaves = 0
    try:
        for outs, prob, events in probes.explore(lambda: fn(key, jnp.int32(0), obs_list), max_leaves=cap):
            total += prob
            nleaves += 1
            for t, (lml, est) in enumerate(outs):
                w = math.exp(float(lml)) if math.isfinite(float(lml)) else 0.0
                E[t] += prob * w
                Eh[t] += prob * w * float(est)
    except probes.TooManyLeaves:
        ctx.count("exact_skipped_too_large")
        return
    except Exception as e:  # noqa: BLE001
        import os
        import traceback

        bd = os.environ.get("VERIF_BUILD_DIR", "\0")
        if any(fr.filename.startswith(bd) for fr in traceback.extract_tb(e.__traceback__)):
            ctx.violation(f"{mode}|raises:{type(e).__name__}", {**base, "msg": str(e)[:300]})
            return
        raise
    ctx.count("exact_instances")
    ctx.count("exact_scripts", nleaves)
    d = {**base, "scripts": nleaves, "script_mass": total}
    if abs(total - 1.0) > 1e-6:
        ctx.violation("exact|script-mass-not-1", d)
        return
    for j, t in enumerate(targets):
        want = float(alphas[t].sum())
        wanth = float(alphas[t][kk])
        after_resample = mode == "composed" and j > 0 and targets[j - 1] == t
        if abs(E[j] - want) > 1e-6 + 3e-5 * want:
            ctx.violation(f"{mode}|E[exp(lml)]-not-evidence", {**d, "step": t, "right_after_resample": after_resample, "E_exp_lml": E[j], "reference_evidence": want})
            return
        if abs(Eh[j] - wanth) > 1e-6 + 3e-5 * max(want, wanth):
            ctx.violation(f"{mode}|weighted-estimate-biased" + ("|after-resample" if after_resample else ""),
                          {**d, "step": t, "h": f"1[x=={kk}]", "E": Eh[j], "reference": wanth})
            return
    ctx.distinct("nontrivial", [fam["K"], fam["M"], N, T, fam["emission"], base["custom_proposal"], mode, resample_at])
    ctx.sample({"kind": "exact-unbiasedness", **{k: base[k] for k in ("K", "M", "N", "T", "emission", "mode", "observations")},
                "scripts": nleaves, "E_exp_lml": E.tolist(), "evidence": [float(a.sum()) for a in alphas], "exhaustive": True})


# ---------------------------------------------------------------------------
def _run_sampled(case, ctx):
    import jax
    import jax.numpy as jnp
    from genjax import categorical, const, gen, normal, sel, seed
    from genjax.inference import mh, rejuvenation_smc

    _probes_on(False)
    rng = np.random.default_rng(case["gseed"])
    ctx.evaluation()
    fam = _family(rng, emission="cat")
    ref = RefHMM(fam)
    A = jnp.asarray(fam["A"], jnp.float32)
    B = jnp.asarray(fam["B"], jnp.float32)

    @gen
    def model(prev):
        x = categorical(A[prev]) @ "x"
        categorical(B[x]) @ "y"
        return x

    N = int(rng.choice([4, 8, 16]))
    T = int(rng.integers(3, 6))
    ys = _obs(fam, rng, T)
    obs = {"y": jnp.asarray(ys, jnp.int32)}
    nruns = 20000 if ctx.tier == "quick" else 100000
    kern = const(lambda tr: mh(tr, sel("x")))

    def one(key):
        p = seed(rejuvenation_smc)(key, model, None, kern, obs, (jnp.int32(0),), const(N), const(False), const(1))
        return p.log_marginal_likelihood()

    keys = jax.random.split(jax.random.key(int(rng.integers(2**31))), nruns)
    lml = ctx.call(lambda: np.asarray(jax.jit(jax.vmap(one))(keys), dtype=np.float64))
    base = {"K": fam["K"], "M": fam["M"], "N": N, "T": T, "observations": ys, "runs": nruns, "A": fam["A"].tolist(), "B": fam["B"].tolist()}
    if hasattr(lml, "brief"):
        from lib import gfi

        ctx.violation(gfi.raise_key("rejuvenation_smc", lml), {**base, **lml.brief()})
        return
    w = np.exp(lml)
    want = float(ref.forward(ys)[-1].sum())
    mean = float(w.mean())
    se = float(w.std(ddof=1) / math.sqrt(nruns))
    z = (mean - want) / se if se > 0 else 0.0
    ctx.count("sampled_instances")
    ctx.note(f"sampled unbiasedness: threshold |z|<=6.5 (p~8e-11 per test); typical detectable relative bias {6.5 * se / want:.3f}")
    if abs(z) > 6.5:
        ctx.violation("rejuvenation_smc|mean-of-exp(lml)-differs-from-evidence", {**base, "mean": mean, "standard_error": se, "reference": want, "z": z})
        return
    ctx.distinct("nontrivial", [fam["K"], fam["M"], N, T, "sampled"])
    ctx.sample({"kind": "sampled-unbiasedness", **{k: base[k] for k in ("K", "M", "N", "T", "runs")}, "mean": mean, "se": se, "evidence": want, "z": z})
