"""C20 — the exact state-space baselines are exact.

The real ``genjax.extras.state_space`` code runs on generated model families;
``lib.c20_ref`` (float64 numpy, no recursion shared with the code under test)
decides.

Monitors
  forward_filter            filtering distributions (support pattern exact, values in log space) and log
                            marginal vs the sum over all K^T state sequences; impossible observation
                            sequences must give log marginal == -inf
  compute_sequence_log_prob every one of the K^T state sequences vs the product of table entries
  ffbs / backward_sample    the module-level ``categorical`` is replaced by a scripted stand-in (host call-back
                            that reports the logits each site saw and returns the next script entry); all K^T
                            outcome scripts are run through the *real* code, giving the exact law of the
                            returned sequence, compared cell by cell with the exact posterior; the trace's
                            log_prob / observations fields are checked on every run
  ffbs-real-sampler         seed(forward_filtering_backward_sampling) with the real categorical, N draws,
                            chi-square against the exact posterior (calibrated, see note) + no impossible draw
  discrete_hmm-assess       the step model iterated T times through ``assess`` (return value fed back as the
                            next arguments) on all K^T sequences == log joint
  kalman_filter/_smoother   moments and log marginal vs dense joint-Gaussian conditioning
  linear_gaussian-assess    iterated ``assess`` on trajectories == log density of the dense joint Gaussian
"""

from __future__ import annotations

import numpy as np

from lib import c20_ref as R

PROPERTY = "C20"
LEVEL = "exploration"
RULE = (
    "every HMM shape (K, M) in 1..4 x 1..4 and every linear-Gaussian shape (d_state, d_obs) in 1..3 x 1..3 "
    "(6 of 9 with d_obs != d_state) is paired with every T in 1..6 (quick: the checkerboard half of these shapes "
    "selected by VERIF_SEED parity, thorough: all); per shape several parameter draws from "
    "VERIF_SEED over the flavours dense / sparse (exact zeros) / one-hot dynamics / left-to-right / skewed / "
    "sparse with arbitrary (possibly impossible) observations, resp. generic / structured (zeros in A, C) / "
    "correlated / far observations.  distinct_nontrivial = distinct instances (shape, flavour, parameter draw) "
    "with K >= 2 and >= 2 state sequences of positive posterior mass (HMM) or T >= 2 (linear-Gaussian)"
)
ASSUMPTIONS = [
    "filtering rows after the first t with p(y_0..t) = 0 are undefined and not compared; log marginal must be -inf there",
    "backward_sample makes exactly T categorical draws through the module-level name `categorical` (any order); "
    "the law of the returned sequence is computed from the logits each draw reported",
    "covariances with condition number <= ~300 after T steps (float32 inversion noise beyond that is not judged)",
    "JAX API translation layer (DESIGN §2)",
]
FLOORS = {
    "quick": {
        "hmm_instances": 250, "ff_rows_checked": 700, "seq_logprob_cells": 50000, "ffbs_scripts": 18000,
        "bs_scripts": 15000, "hmm_assess_cells": 50000, "hmm_T1": 40, "hmm_sparse": 80, "hmm_impossible_obs": 5,
        "real_draw_tests": 6, "lg_instances": 180, "kf_checks": 180, "ks_checks": 180, "lg_assess_points": 700,
        "lg_T1": 25, "lg_nonsquare": 110,
    },
    "thorough": {
        "hmm_instances": 1800, "ff_rows_checked": 5000, "seq_logprob_cells": 400000, "ffbs_scripts": 250000,
        "bs_scripts": 130000, "hmm_assess_cells": 400000, "hmm_T1": 300, "hmm_sparse": 600, "hmm_impossible_obs": 40,
        "real_draw_tests": 24, "lg_instances": 1700, "kf_checks": 1700, "ks_checks": 1700, "lg_assess_points": 6500,
        "lg_T1": 280, "lg_nonsquare": 1100,
    },
}
TIMEOUT_S = {"quick": 1800, "thorough": 5400}

# statistical monitor: at most N_STAT tests per run, each at level ALPHA_EACH  ->  family-wise <= 1e-9
N_STAT = {"quick": 12, "thorough": 48}
N_DRAWS = {"quick": 50000, "thorough": 200000}
ALPHA_EACH = 1e-12
MIN_EXPECTED = 50.0

EAGER_HMM = {(1, 1), (2, 3), (3, 2), (4, 4), (1, 4), (4, 1)}
EAGER_LG = {(1, 1), (1, 3), (3, 1), (2, 3), (3, 2)}
STEP_BATCH = 256  # lanes of the vmapped one-step assess (sequences are padded / chunked to this)
HMM_REPS = {"quick": (6, 3), "thorough": (21, 7)}  # (parameter draws per shape, draws per case)
LG_REPS = {"quick": (8, 4), "thorough": (36, 9)}


def _in_tier(tier, seed, *dims):
    """thorough: every shape.  quick: the half of the shapes with even (sum of dims + seed) - a checkerboard in
    which every pair of dimension values still meets, and two consecutive seeds cover all shapes (compile time
    is per shape and dominates the cost)."""
    return tier == "thorough" or (sum(dims) + int(seed)) % 2 == 0


def plan(tier, seed):
    cases = []
    # ---- HMM
    reps, chunk = HMM_REPS[tier]
    shapes = [(K, M, T) for K in range(1, 5) for M in range(1, 5) for T in range(1, 7)]
    rng = np.random.default_rng([seed, 20, 0])
    eligible = [i for i, (K, M, T) in enumerate(shapes) if K >= 2 and T >= 2 and _in_tier(tier, seed, K, M, T)]
    # statistical instances alternate dense / sparse, so at least half of them can never be degenerate (one cell)
    stat_shapes = {int(i): j for j, i in enumerate(sorted(rng.choice(eligible, size=N_STAT[tier], replace=False)))}
    for si, (K, M, T) in enumerate(shapes):
        if not _in_tier(tier, seed, K, M, T):
            continue
        rl = []
        for r in range(reps):
            d = {
                "K": K, "M": M, "T": T,
                "flavor": R.HMM_FLAVORS[(K + M + T + r + int(seed)) % len(R.HMM_FLAVORS)],
                "rng": [int(seed), 20, 1, si, r],
                # un-jitted path on a few shapes: both sides of every `if T > 1`
                "eager": r == 0 and T <= 2 and (K, M) in EAGER_HMM,
                # 4096-script instances: every draw in thorough, the first two draws per shape in quick
                "scripted": tier == "thorough" or K**T <= 1024 or r < 2,
            }
            if r == 0 and si in stat_shapes:
                d["flavor"] = "dense" if (stat_shapes[si] % 2 == 0) else "sparse"
                d["draws"] = N_DRAWS[tier]
            rl.append(d)
        for c in range(0, reps, chunk):
            cases.append({"kind": "hmm", "cost": K ** T, "reps": rl[c : c + chunk]})
    # ---- linear-Gaussian
    reps, chunk = LG_REPS[tier]
    shapes = [(ds, do, T) for ds in range(1, 4) for do in range(1, 4) for T in range(1, 7)]
    for si, (ds, do, T) in enumerate(shapes):
        if not _in_tier(tier, seed, ds, do, T):
            continue
        rl = [
            {
                "ds": ds, "do": do, "T": T,
                "flavor": R.LG_FLAVORS[(ds + do + T + r + int(seed)) % len(R.LG_FLAVORS)],
                "rng": [int(seed), 20, 2, si, r],
                "eager": r == 0 and T <= 2 and (ds, do) in EAGER_LG,
                "n_points": 4,
            }
            for r in range(reps)
        ]
        for c in range(0, reps, chunk):
            cases.append({"kind": "lg", "cost": 40 * T, "reps": rl[c : c + chunk]})
    # heavy cases first, so that round-robin sharding balances the workers
    cases.sort(key=lambda c: -c["cost"])
    return cases


# ---------------------------------------------------------------------------
# worker side
# ---------------------------------------------------------------------------
_W: dict = {}
_JIT: dict = {}


class ScriptedCategorical:
    """Stand-in for ``state_space.categorical`` (only ``.sample`` is used by FFBS).

    Each draw goes to the host, which records the logits that site saw and
    returns the next entry of the outcome script."""

    def __init__(self):
        self.script = []
        self.pos = 0
        self.log = []
        self.overrun = 0

    def reset(self, script):
        self.script = [int(v) for v in script]
        self.pos = 0
        self.log = []
        self.overrun = 0

    def _host(self, logits):
        self.log.append(np.array(logits, dtype=np.float64))
        if self.pos < len(self.script):
            v = self.script[self.pos]
        else:
            v = 0
            self.overrun += 1
        self.pos += 1
        return np.int32(v)

    def sample(self, *args, **kwargs):
        jax, jnp = _W["jax"], _W["jnp"]
        from jax.experimental import io_callback

        # same calling convention as tfd.Categorical(logits=None, probs=None)
        if "logits" in kwargs and kwargs["logits"] is not None:
            logits = kwargs["logits"]
        elif "probs" in kwargs and kwargs["probs"] is not None:
            logits = jnp.log(kwargs["probs"])
        elif args:
            logits = args[0]
        else:
            raise TypeError("categorical.sample called without logits/probs")
        logits = jnp.asarray(logits, jnp.float32)
        return io_callback(self._host, jax.ShapeDtypeStruct((), jnp.int32), logits, ordered=True)

    def __call__(self, *a, **k):  # pragma: no cover - FFBS never traces an address
        raise TypeError("scripted categorical used as a traced site")


class _Scripted:
    """Context: module-level ``categorical`` of state_space is the stand-in."""

    def __enter__(self):
        ss = _W["ss"]
        self.real = ss.categorical
        ss.categorical = _W["scripted"]
        return _W["scripted"]

    def __exit__(self, *exc):
        _W["ss"].categorical = self.real
        return False


def worker_setup(ctx):
    import jax
    import jax.numpy as jnp
    import scipy.stats
    from genjax.extras import state_space as ss
    from genjax import seed

    _W.update(jax=jax, jnp=jnp, ss=ss, seed=seed, chi2=scipy.stats.chi2)
    _W["scripted"] = ScriptedCategorical()
    _W["real_categorical"] = ss.categorical

    def hmm_iter(xs, ys, pi, A, B):
        """The step model iterated the way sample_hmm_dataset / rejuvenation_smc iterate it:
        the return value of step t is the argument tuple of step t+1 (one sequence, un-vmapped)."""
        args = (jnp.array(0), jnp.array(0), pi, A, B)
        dens = []
        for t in range(xs.shape[0]):
            d, ret = ss.discrete_hmm.assess({"state": xs[t], "obs": ys[t]}, *args)
            dens.append(d)
            args = ret
        return jnp.stack(dens), args[1]

    def lg_iter(xs, ys, mu0, P0, A, Q, C, Rm):
        args = (jnp.zeros_like(mu0), jnp.array(0), mu0, P0, A, Q, C, Rm)
        dens = []
        for t in range(xs.shape[0]):
            d, ret = ss.linear_gaussian.assess({"state": xs[t], "obs": ys[t]}, *args)
            dens.append(d)
            args = ret
        return jnp.stack(dens), args[1]

    # one step of the same iteration, vmapped over many trajectories: lane-wise state / previous state,
    # everything else shared; the returned argument tuple is fed back unchanged by the caller
    def hmm_step(x, y, prev, t, pi, A, B):
        return ss.discrete_hmm.assess({"state": x, "obs": y}, prev, t, pi, A, B)

    def lg_step(x, y, prev, t, mu0, P0, A, Q, C, Rm):
        return ss.linear_gaussian.assess({"state": x, "obs": y}, prev, t, mu0, P0, A, Q, C, Rm)

    _W["hmm_step"] = lambda: jax.jit(
        jax.vmap(hmm_step, in_axes=(0, None, 0, None, None, None, None), out_axes=(0, (0, None, None, None, None)))
    )
    _W["lg_step"] = lambda: jax.jit(
        jax.vmap(lg_step, in_axes=(0, 0, 0) + (None,) * 7, out_axes=(0, (0,) + (None,) * 7))
    )

    _W["hmm_iter"] = hmm_iter
    _W["lg_iter"] = lg_iter
    ctx.note(
        "ffbs-real-sampler: chi-square over whole sequences, cells pooled to expected >= %g, each test at p < %g, "
        "at most %d tests per run (family-wise <= 1e-9); with N = %d draws a deviation of about 0.025 (quick) / "
        "0.012 (thorough) in a cell of mass 0.2 is detected" % (MIN_EXPECTED, ALPHA_EACH, max(N_STAT.values()), N_DRAWS[ctx.tier])
    )
    ctx.note(
        "tolerances: HMM log quantities 4e-6*(1+sum|log factor|) resp. 2e-5*(1+|log p|); scripted law 2e-4*p+1e-7; "
        "Kalman moments 2e-5*scale, Gaussian log densities 1e-5*(1+sum of term magnitudes)"
    )


def _jit(name, key, make):
    k = (name,) + tuple(key)
    if k not in _JIT:
        _JIT[k] = make()
    return _JIT[k]


def _is_raised(x):
    return hasattr(x, "brief") and hasattr(x, "type")


def _hmm_feat(d, n_zero):
    if d["T"] == 1:
        return "T=1"
    if d["K"] == 1:
        return "K=1"
    return "sparse" if n_zero else "dense"


def _lg_feat(d):
    if d["T"] == 1:
        return "T=1"
    return "d_obs!=d_state" if d["ds"] != d["do"] else "d_obs==d_state"


def run_case(case, ctx):
    for rep in case["reps"]:
        sub = {"kind": case["kind"], "cost": case["cost"], "reps": [rep], "index": case.get("index")}
        if case["kind"] == "hmm":
            _run_hmm(rep, sub, ctx)
        else:
            _run_lg(rep, sub, ctx)


# ---------------------------------------------------------------------------
# HMM
# ---------------------------------------------------------------------------


def _close_log(got, want, tol):
    """got ~ want for log quantities; -inf must match exactly, nan never passes."""
    if want == -np.inf:
        return got == -np.inf
    return bool(abs(got - want) <= tol)


def _run_hmm(d, sub, ctx):
    jax, jnp, ss = _W["jax"], _W["jnp"], _W["ss"]
    K, M, T = d["K"], d["M"], d["T"]
    g = R.gen_hmm(d)
    pi, A, B, ys = g["pi"], g["A"], g["B"], g["ys"]
    ref = R.hmm_brute(pi, A, B, ys)
    feat = _hmm_feat(d, g["n_zero"])
    possible = ref["marginal"] > 0
    ctx.evaluation()
    ctx.count("hmm_instances")
    if T == 1:
        ctx.count("hmm_T1")
    if g["n_zero"]:
        ctx.count("hmm_sparse")
    if not possible:
        ctx.count("hmm_impossible_obs")
    if K >= 2 and possible and int((ref["post"] > 0).sum()) >= 2:
        ctx.distinct("nontrivial", d)
    jy = jnp.asarray(ys, jnp.int32)
    jpi, jA, jB = (jnp.asarray(v, jnp.float32) for v in (pi, A, B))
    base = {
        "instance": d,
        "initial_probs": pi.tolist(),
        "transition_matrix": A.tolist(),
        "emission_matrix": B.tolist(),
        "observations": ys.tolist(),
    }
    seqs = ref["seqs"]
    nseq = len(seqs)
    # magnitude of the log factors along the heaviest path (tolerance scale for log marginal)
    with np.errstate(divide="ignore"):
        lpi, lA, lB = np.log(pi), np.log(A), np.log(B)

    def path_scale(xs):
        s = abs(lpi[xs[0]]) + abs(lB[xs[0], ys[0]])
        for t in range(1, T):
            s += abs(lA[xs[t - 1], xs[t]]) + abs(lB[xs[t], ys[t]])
        return s

    scales = np.array([path_scale(xs) if ref["joint"][i] > 0 else 0.0 for i, xs in enumerate(seqs)])
    lm_scale = float(scales.max()) if possible else 0.0

    # ---------------- forward_filter (jit, and eager for the first draw of a shape)
    modes = [("jit", _jit("ff", (K, M, T), lambda: jax.jit(ss.forward_filter)))]
    if d.get("eager"):
        modes.append(("eager", ss.forward_filter))
    alpha_code = None
    for mode, fn in modes:
        res = ctx.call(fn, jy, jpi, jA, jB)
        ctx.count("ff_checks")
        if _is_raised(res):
            ctx.violation(f"forward_filter|{feat}|raises:{res.type}", {**base, "mode": mode, **res.brief()}, case=sub)
            continue
        alpha, lm = res
        alpha = np.asarray(alpha, np.float64)
        lm = float(lm)
        if alpha.shape != (T, K):
            ctx.violation(f"forward_filter|{feat}|alpha-shape", {**base, "mode": mode, "shape": list(alpha.shape)}, case=sub)
            continue
        if mode == "jit":
            alpha_code = alpha
        if not possible:
            if lm != -np.inf:
                ctx.violation(
                    f"forward_filter|{feat}|log-marginal-of-impossible-observations",
                    {**base, "mode": mode, "observed": lm, "expected": "-inf (p(y) = 0 by enumeration)"},
                    case=sub,
                )
        elif not _close_log(lm, ref["log_marginal"], 4e-6 * (1 + lm_scale)):
            ctx.violation(
                f"forward_filter|{feat}|log-marginal",
                {**base, "mode": mode, "observed": lm, "expected": ref["log_marginal"]},
                case=sub,
            )
        fi = ref["first_impossible"]
        ctx.count("alpha_rows_undefined", T - fi)
        for t in range(fi):
            ctx.count("ff_rows_checked")
            want = R._safe_log(ref["filt"][t])
            got = alpha[t]
            if not np.array_equal(want == -np.inf, got == -np.inf) or np.any(np.isnan(got)):
                ctx.violation(
                    f"forward_filter|{feat}|filter-support",
                    {**base, "mode": mode, "t": t, "observed_log_alpha": got.tolist(), "expected_probs": ref["filt"][t].tolist()},
                    case=sub,
                )
                break
            fin = np.isfinite(want)
            if np.any(np.abs(got[fin] - want[fin]) > 2e-5 * (1 + np.abs(want[fin]))):
                ctx.violation(
                    f"forward_filter|{feat}|filter-distribution",
                    {**base, "mode": mode, "t": t, "observed_probs": np.exp(got).tolist(), "expected_probs": ref["filt"][t].tolist()},
                    case=sub,
                )
                break

    # ---------------- compute_sequence_log_prob on all K^T sequences
    jseqs = jnp.asarray(seqs, jnp.int32)
    fn = _jit("slp", (K, M, T), lambda: jax.jit(jax.vmap(ss.compute_sequence_log_prob, in_axes=(0, None, None, None, None))))
    res = ctx.call(fn, jseqs, jy, jpi, jA, jB)
    if _is_raised(res):
        ctx.violation(f"compute_sequence_log_prob|{feat}|raises:{res.type}", {**base, **res.brief()}, case=sub)
    else:
        got = np.asarray(res, np.float64)
        ctx.count("seq_logprob_cells", nseq)
        _compare_log_cells(ctx, "compute_sequence_log_prob", feat, "sequence-log-prob", got, ref, scales, base, sub)
    if d.get("eager"):
        i = int(np.argmax(ref["joint"]))
        res = ctx.call(ss.compute_sequence_log_prob, jseqs[i], jy, jpi, jA, jB)
        if _is_raised(res):
            ctx.violation(f"compute_sequence_log_prob|{feat}|raises:{res.type}", {**base, "mode": "eager", **res.brief()}, case=sub)
        elif not _close_log(float(res), ref["log_joint"][i], 4e-6 * (1 + scales[i])):
            ctx.violation(
                f"compute_sequence_log_prob|{feat}|sequence-log-prob",
                {**base, "mode": "eager", "states": seqs[i].tolist(), "observed": float(res), "expected": ref["log_joint"][i]},
                case=sub,
            )

    # ---------------- discrete_hmm step model iterated through assess
    step = _jit("hmm_step", (K, M), _W["hmm_step"])
    got = np.zeros(nseq)
    raised = None
    tn_bad = None
    for c0 in range(0, nseq, STEP_BATCH):
        chunk = seqs[c0 : c0 + STEP_BATCH]
        n = len(chunk)
        pad = np.zeros((STEP_BATCH, T), np.int64)
        pad[:n] = chunk
        jx = jnp.asarray(pad, jnp.int32)
        # initial arguments as in sample_hmm_dataset / the SMC tests: dummy previous state, time 0
        args = (jnp.zeros(STEP_BATCH, jnp.int32), jnp.array(0), jpi, jA, jB)
        tot = np.zeros(STEP_BATCH)
        for t in range(T):
            res = ctx.call(step, jx[:, t], jy[t], *args)
            if _is_raised(res):
                raised = res
                break
            dens, args = res  # the return value of step t is the argument tuple of step t+1
            tot += np.asarray(dens, np.float64)
        if raised is not None:
            break
        got[c0 : c0 + n] = tot[:n]
        if int(args[1]) != T:
            tn_bad = int(args[1])
    if raised is not None:
        ctx.violation(f"discrete_hmm-assess|{feat}|raises:{raised.type}", {**base, **raised.brief()}, case=sub)
    else:
        ctx.count("hmm_assess_cells", nseq)
        _compare_log_cells(ctx, "discrete_hmm-assess", feat, "joint-density", got, ref, scales, base, sub)
        if tn_bad is not None:
            ctx.violation(f"discrete_hmm-assess|{feat}|time-index-after-T-steps", {**base, "observed": tn_bad, "expected": T}, case=sub)
    if d.get("eager"):
        i = int(np.argmax(ref["joint"]))
        res = ctx.call(_W["hmm_iter"], jseqs[i], jy, jpi, jA, jB)
        if _is_raised(res):
            ctx.violation(f"discrete_hmm-assess|{feat}|raises:{res.type}", {**base, "mode": "eager", **res.brief()}, case=sub)
        elif not _close_log(float(np.asarray(res[0], np.float64).sum()), ref["log_joint"][i], 4e-6 * (1 + scales[i])):
            ctx.violation(
                f"discrete_hmm-assess|{feat}|joint-density",
                {**base, "mode": "eager", "states": seqs[i].tolist(), "observed_per_step": np.asarray(res[0]).tolist(), "expected_total": ref["log_joint"][i]},
                case=sub,
            )

    # ---------------- FFBS under scripted randomness: exact law of the returned sequence
    if possible and not d.get("scripted", True):
        ctx.count("scripted_skipped_large_quick")
    elif possible:
        with _Scripted() as sc:
            fn = _jit("ffbs", (K, M, T), lambda: jax.jit(ss.forward_filtering_backward_sampling))
            _scripted_law(ctx, sc, "ffbs", feat, fn, (jy, jpi, jA, jB), ref, scales, ys, base, sub, "ffbs_scripts", True)
            # backward_sample alone, fed the exact filtering distributions
            jalpha = jnp.asarray(R._safe_log(ref["filt"]), jnp.float32)
            if nseq <= 1024:
                fn = _jit("bs", (K, T), lambda: jax.jit(ss.backward_sample))
                _scripted_law(ctx, sc, "backward_sample", feat, fn, (jalpha, jA), ref, scales, ys, base, sub, "bs_scripts", False)
            else:
                ctx.count("bs_skipped_4096_scripts")  # K=4, T=6: covered through the composite above only

    # ---------------- FFBS with the real sampler (statistical)
    if d.get("draws") and possible:
        _real_draws(ctx, d, feat, (jy, jpi, jA, jB), ref, base, sub)

    if d["rng"][-1] == 0 and K >= 2 and 3 <= T <= 4 and possible:
        ctx.sample(
            {
                **base,
                "reference_log_marginal": ref["log_marginal"],
                "forward_filter_alpha": None if alpha_code is None else np.exp(alpha_code).round(6).tolist(),
                "reference_filtering": ref["filt"].round(6).tolist(),
                "state_sequences_enumerated": nseq,
                "exhaustive_scripts": True,
            }
        )


def _compare_log_cells(ctx, op, feat, what, got, ref, scales, base, sub):
    want = ref["log_joint"]
    seqs = ref["seqs"]
    sup_bad = (want == -np.inf) != (got == -np.inf)
    sup_bad |= np.isnan(got)
    if sup_bad.any():
        i = int(np.argmax(sup_bad))
        ctx.violation(
            f"{op}|{feat}|{what}-support",
            {**base, "states": seqs[i].tolist(), "observed": float(got[i]), "expected": float(want[i]), "cells_wrong": int(sup_bad.sum())},
            case=sub,
        )
        return
    fin = np.isfinite(want)
    err = np.zeros(len(want))
    err[fin] = np.abs(got[fin] - want[fin]) - 4e-6 * (1 + scales[fin])
    if (err > 0).any():
        i = int(np.argmax(err))
        ctx.violation(
            f"{op}|{feat}|{what}",
            {**base, "states": seqs[i].tolist(), "observed": float(got[i]), "expected": float(want[i]), "cells_wrong": int((err > 0).sum())},
            case=sub,
        )


def _scripted_law(ctx, sc, op, feat, fn, args, ref, scales, ys, base, sub, counter, is_trace):
    """Run every outcome script through the real code; accumulate the law of the returned sequence."""
    seqs, post = ref["seqs"], ref["post"]
    K = int(base["instance"]["K"])
    T = seqs.shape[1]
    index = {tuple(xs): i for i, xs in enumerate(seqs)}
    law = np.zeros(len(seqs))
    field_bad = None
    for script in seqs:  # the K^T scripts are the K^T sequences, read as "outcome of draw 0, 1, .."
        sc.reset(script)
        res = ctx.call(fn, *args)
        ctx.count(counter)
        if _is_raised(res):
            ctx.violation(f"{op}|{feat}|raises:{res.type}", {**base, "script": script.tolist(), **res.brief()}, case=sub)
            return
        states = np.asarray(res.states if is_trace else res)
        if sc.pos != T or sc.overrun:
            ctx.violation(
                f"{op}|{feat}|number-of-categorical-draws",
                {**base, "script": script.tolist(), "draws_made": sc.pos, "expected": T},
                case=sub,
            )
            return
        if states.shape != (T,) or states.min() < 0 or states.max() >= max(K, 1):
            ctx.violation(f"{op}|{feat}|returned-states-malformed", {**base, "script": script.tolist(), "states": states.tolist()}, case=sub)
            return
        # probability of this script under the logits the draws reported
        p = 1.0
        for lg, v in zip(sc.log, script):
            q = R.softmax64(lg)[v] if lg.shape == (K,) else np.nan
            if not (q > 0):
                p = 0.0 if q == 0 else np.nan
                break
            p *= q
        if np.isnan(p):
            ctx.violation(
                f"{op}|{feat}|draw-from-undefined-distribution",
                {**base, "script": script.tolist(), "logits_seen": [l.tolist() for l in sc.log]},
                case=sub,
            )
            return
        j = index[tuple(int(v) for v in states)]
        law[j] += p
        if is_trace and p > 0 and field_bad is None:
            lp = float(res.log_prob)
            if not _close_log(lp, ref["log_joint"][j], 4e-6 * (1 + scales[j])):
                field_bad = ("trace-log_prob", {"states": states.tolist(), "observed": lp, "expected": float(ref["log_joint"][j])})
            elif not np.array_equal(np.asarray(res.observations), ys):
                field_bad = ("trace-observations", {"observed": np.asarray(res.observations).tolist()})
    ctx.count(counter.replace("_scripts", "_law_cells"), len(seqs))
    if field_bad:
        ctx.violation(f"{op}|{feat}|{field_bad[0]}", {**base, **field_bad[1]}, case=sub)
    if abs(law.sum() - 1.0) > 1e-4:
        ctx.violation(f"{op}|{feat}|scripted-law-not-normalised", {**base, "total_mass": float(law.sum())}, case=sub)
        return
    imp = (post == 0) & (law > 0)
    if imp.any():
        i = int(np.argmax(np.where(imp, law, 0)))
        ctx.violation(
            f"{op}|{feat}|impossible-sequence-has-positive-probability",
            {**base, "states": seqs[i].tolist(), "probability_under_code": float(law[i]), "posterior": 0.0},
            case=sub,
        )
        return
    err = np.abs(law - post) - (2e-4 * post + 1e-7)
    if (err > 0).any():
        i = int(np.argmax(err))
        ctx.violation(
            f"{op}|{feat}|law-of-sampled-sequence",
            {
                **base,
                "states": seqs[i].tolist(),
                "probability_under_code": float(law[i]),
                "exact_posterior": float(post[i]),
                "cells_wrong": int((err > 0).sum()),
                "total_variation": float(0.5 * np.abs(law - post).sum()),
            },
            case=sub,
        )


def _real_draws(ctx, d, feat, args, ref, base, sub):
    jax, ss, seed = _W["jax"], _W["ss"], _W["seed"]
    K, M, T, N = d["K"], d["M"], d["T"], int(d["draws"])
    assert ss.categorical is _W["real_categorical"]
    fn = _jit("ffbs_real", (K, M, T, N), lambda: jax.jit(jax.vmap(seed(ss.forward_filtering_backward_sampling), in_axes=(0, None, None, None, None))))
    keys = jax.random.split(jax.random.key(int(np.random.default_rng(d["rng"] + [99]).integers(2**31))), N)
    res = ctx.call(fn, keys, *args)
    if _is_raised(res):
        ctx.violation(f"ffbs-real-sampler|{feat}|raises:{res.type}", {**base, **res.brief()}, case=sub)
        return
    st = np.asarray(res.states, np.int64)
    if st.shape != (N, T) or st.min() < 0 or st.max() >= K:
        ctx.violation(f"ffbs-real-sampler|{feat}|returned-states-malformed", {**base, "shape": list(st.shape)}, case=sub)
        return
    idx = (st * (K ** np.arange(T - 1, -1, -1))).sum(axis=1)
    cnt = np.bincount(idx, minlength=K**T).astype(np.float64)
    post = ref["post"]
    if cnt[post == 0].sum() > 0:
        i = int(np.argmax(np.where(post == 0, cnt, 0)))
        ctx.violation(
            f"ffbs-real-sampler|{feat}|impossible-sequence-drawn",
            {**base, "states": ref["seqs"][i].tolist(), "times_drawn": int(cnt[i]), "draws": N},
            case=sub,
        )
        return
    exp = N * post
    big = exp >= MIN_EXPECTED
    O = list(cnt[big])
    E = list(exp[big])
    rest_e, rest_o = exp[~big].sum(), cnt[~big].sum()
    if rest_e > 0:
        if rest_e >= MIN_EXPECTED or not E:
            O.append(rest_o)
            E.append(rest_e)
        else:
            k = int(np.argmin(E))
            O[k] += rest_o
            E[k] += rest_e
    if len(E) < 2:
        ctx.count("real_draw_degenerate")
        return
    O, E = np.array(O), np.array(E)
    stat = float(((O - E) ** 2 / E).sum())
    p = float(_W["chi2"].sf(stat, len(E) - 1))
    ctx.count("real_draw_tests")
    ctx.count("real_draws", N)
    if p < ALPHA_EACH:
        ctx.violation(
            f"ffbs-real-sampler|{feat}|chi-square-vs-exact-posterior",
            {**base, "draws": N, "cells": len(E), "chi2": stat, "p_value": p, "threshold": ALPHA_EACH,
             "largest_cell_observed_freq": float(O[np.argmax(E)] / N), "largest_cell_expected": float(E.max() / N)},
            case=sub,
        )


# ---------------------------------------------------------------------------
# linear-Gaussian
# ---------------------------------------------------------------------------


def _run_lg(d, sub, ctx):
    jax, jnp, ss = _W["jax"], _W["jnp"], _W["ss"]
    ds, do, T = d["ds"], d["do"], d["T"]
    g = R.gen_lg(d)
    names = ("mu0", "P0", "A", "Q", "C", "R")
    params = [g[k] for k in names]
    ys = g["ys"]
    ref = R.lg_reference(*params, ys)
    feat = _lg_feat(d)
    ctx.evaluation()
    ctx.count("lg_instances")
    if T == 1:
        ctx.count("lg_T1")
    if ds != do:
        ctx.count("lg_nonsquare")
    if T >= 2:
        ctx.distinct("nontrivial", d)
    jp = [jnp.asarray(v, jnp.float32) for v in params]
    jy = jnp.asarray(ys, jnp.float32)
    base = {"instance": d, **{k: g[k].tolist() for k in names}, "observations": ys.tolist()}
    J = ref["joint"]
    scale_m = 1.0 + float(np.abs(ref["filt_mean"]).max()) + float(np.abs(ys).max()) + float(np.abs(ref["smooth_mean"]).max())
    scale_c = float(np.abs(np.diag(J["cov_x"])).max())
    tol_m, tol_c = 2e-5 * scale_m, 2e-5 * scale_c
    tol_lm = 2e-5 * (1 + ref["log_marginal_scale"])

    def first_bad(got, want, tol):
        err = np.abs(got - want)
        bad = ~(err <= tol)
        if not bad.any():
            return None
        t = int(np.argmax(bad.reshape(bad.shape[0], -1).any(axis=1)))
        return {"t": t, "observed": got[t].tolist(), "expected": want[t].tolist(), "tolerance": tol}

    # ---------------- kalman_filter
    modes = [("jit", _jit("kf", (ds, do, T), lambda: jax.jit(ss.kalman_filter)))]
    if d.get("eager"):
        modes.append(("eager", ss.kalman_filter))
    fm_code = None
    for mode, fn in modes:
        res = ctx.call(fn, jy, *jp)
        ctx.count("kf_checks")
        if _is_raised(res):
            ctx.violation(f"kalman_filter|{feat}|raises:{res.type}", {**base, "mode": mode, **res.brief()}, case=sub)
            continue
        fm, fc, lm = (np.asarray(v, np.float64) for v in res)
        if fm.shape != (T, ds) or fc.shape != (T, ds, ds) or lm.shape != ():
            ctx.violation(f"kalman_filter|{feat}|output-shape", {**base, "mode": mode, "shapes": [list(fm.shape), list(fc.shape), list(lm.shape)]}, case=sub)
            continue
        fm_code = fm
        b = first_bad(fm, ref["filt_mean"], tol_m)
        if b:
            ctx.violation(f"kalman_filter|{feat}|filtered-mean", {**base, "mode": mode, **b}, case=sub)
        b = first_bad(fc, ref["filt_cov"], tol_c)
        if b:
            ctx.violation(f"kalman_filter|{feat}|filtered-cov", {**base, "mode": mode, **b}, case=sub)
        if not abs(float(lm) - ref["log_marginal"]) <= tol_lm:
            ctx.violation(
                f"kalman_filter|{feat}|log-marginal",
                {**base, "mode": mode, "observed": float(lm), "expected": ref["log_marginal"], "tolerance": tol_lm},
                case=sub,
            )

    # ---------------- kalman_smoother
    modes = [("jit", _jit("ks", (ds, do, T), lambda: jax.jit(ss.kalman_smoother)))]
    if d.get("eager"):
        modes.append(("eager", ss.kalman_smoother))
    for mode, fn in modes:
        res = ctx.call(fn, jy, *jp)
        ctx.count("ks_checks")
        if _is_raised(res):
            ctx.violation(f"kalman_smoother|{feat}|raises:{res.type}", {**base, "mode": mode, **res.brief()}, case=sub)
            continue
        sm, scv = (np.asarray(v, np.float64) for v in res)
        if sm.shape != (T, ds) or scv.shape != (T, ds, ds):
            ctx.violation(f"kalman_smoother|{feat}|output-shape", {**base, "mode": mode, "shapes": [list(sm.shape), list(scv.shape)]}, case=sub)
            continue
        b = first_bad(sm, ref["smooth_mean"], tol_m)
        if b:
            ctx.violation(f"kalman_smoother|{feat}|smoothed-mean", {**base, "mode": mode, **b}, case=sub)
        b = first_bad(scv, ref["smooth_cov"], tol_c)
        if b:
            ctx.violation(f"kalman_smoother|{feat}|smoothed-cov", {**base, "mode": mode, **b}, case=sub)

    # ---------------- linear_gaussian step model iterated through assess
    pts = g["points"]
    X = jnp.asarray(np.stack([p[0] for p in pts]), jnp.float32)
    Y = jnp.asarray(np.stack([p[1] for p in pts]), jnp.float32)
    want, tols = [], []
    for xs, yy in pts:
        dense = R.lg_joint_logpdf_dense(J, xs, yy)
        fact, _ = R.lg_joint_logpdf_factored(*params, xs, yy)
        if abs(dense - fact) > 1e-8 * (1 + abs(dense)):
            raise AssertionError(f"reference disagrees with itself: dense {dense} factored {fact}")
        sc = 0.0
        for t in range(T):
            sc += R.mvn_logpdf_scale(xs[t], g["mu0"] if t == 0 else g["A"] @ xs[t - 1], g["P0"] if t == 0 else g["Q"])
            sc += R.mvn_logpdf_scale(yy[t], g["C"] @ xs[t], g["R"])
        want.append(dense)
        tols.append(1e-5 * (1 + sc))
    step = _jit("lg_step", (ds, do, len(pts)), _W["lg_step"])
    args = (jnp.zeros((len(pts), ds), jnp.float32), jnp.array(0), *jp)
    tot = np.zeros(len(pts))
    per_step = []
    raised = None
    for t in range(T):
        res = ctx.call(step, X[:, t], Y[:, t], *args)
        if _is_raised(res):
            raised = res
            break
        dens, args = res  # return value of step t == arguments of step t+1
        per_step.append(np.asarray(dens, np.float64))
        tot += per_step[-1]
    results = []
    if raised is not None:
        ctx.violation(f"linear_gaussian-assess|{feat}|raises:{raised.type}", {**base, "mode": "jit-vmap", **raised.brief()}, case=sub)
    else:
        results.append(("jit-vmap", np.stack(per_step, axis=1), int(args[1]), range(len(pts))))
    if d.get("eager"):
        res = ctx.call(_W["lg_iter"], X[0], Y[0], *jp)
        if _is_raised(res):
            ctx.violation(f"linear_gaussian-assess|{feat}|raises:{res.type}", {**base, "mode": "eager", **res.brief()}, case=sub)
        else:
            results.append(("eager", np.asarray(res[0], np.float64)[None], int(res[1]), [0]))
    for mode, dens, tn, which in results:
        for row, j in zip(dens, which):
            ctx.count("lg_assess_points")
            got = float(row.sum())
            if not abs(got - want[j]) <= tols[j]:
                ctx.violation(
                    f"linear_gaussian-assess|{feat}|joint-density",
                    {**base, "mode": mode, "states": pts[j][0].tolist(), "obs": pts[j][1].tolist(),
                     "observed_per_step": row.tolist(), "observed_total": got, "expected_total": want[j], "tolerance": tols[j]},
                    case=sub,
                )
                break
        if tn != T:
            ctx.violation(f"linear_gaussian-assess|{feat}|time-index-after-T-steps", {**base, "observed": tn, "expected": T}, case=sub)

    if d["rng"][-1] == 0 and T >= 3 and ds != do:
        ctx.sample(
            {
                **base,
                "reference_log_marginal": ref["log_marginal"],
                "kalman_filter_means": None if fm_code is None else fm_code.round(5).tolist(),
                "reference_filter_means": ref["filt_mean"].round(5).tolist(),
                "reference_smoother_means": ref["smooth_mean"].round(5).tolist(),
            }
        )
