"""C14 — unseeded sampling can never be compiled into a fixed-randomness program.

Workload (fault enumeration): every chain of JAX constructs, to nesting depth 2
(quick) / 3 (thorough), over
    jit, scan, while_loop, fori_loop, cond, switch, grad, value_and_grad, jvp,
    checkpoint, custom_jvp, lax.map, vmap
wrapped around one sampling site of each of four kinds (normal.sample,
flip.sample with sample_shape, a @gen function's simulate, an ADEV primitive's
sample).  Each placement is run without ``seed`` and as ``seed(f)(key, x)``.

Oracle (no genjax code decides anything; the comparison is on exception types,
bit patterns of returned numbers and the primitives of staged programs):

  unseeded  chain contains vmap                -> must raise (any type)
            chain contains a compiling construct -> must raise
                                                   LoweringSamplePrimitiveToMLIRException
            neither (purely eager)              -> outside the claim, only counted
  seeded    raises the dedicated exception      -> fine (construct Seed does not
            (any exception if vmap is present)     interpret), EXCEPT for chains made only
                                                   of constructs Seed documents as handled
                                                   (scan / fori / map -> scan_p, cond / switch -> cond_p)
            returns r                           -> r must be a function of the key: bit-equal on a
                                                   repeat, different for another key; the staged
                                                   program make_jaxpr(seed(f)) holds no sample primitive at
                                                   any depth; jit(seed(f)) compiles and agrees with eager
  flags     enforce_lowering_exception is True and lowering_warning is False at worker start
            and after every placement

A *control* run of the same chain around a deterministic stand-in of the site
separates compositions JAX itself rejects (e.g. reverse-mode through
while_loop) from findings: they are counted as jax_rejects_composition.

A leg of a placement is not run when the same leg of a proper sub-chain (a
subsequence of the chain) already shows a violation: the defect is reported
once, at its smallest placement, and counted as *_subsumed_by_violating_subchain
for the larger ones (on a tree without violations nothing is subsumed and every
placement is executed).  So every reported chain is minimal.  In keys grad /
value_and_grad / jvp are written AD, and in the unseeded leg a compiling
construct that stands next to non-compiling ones (it is only the witness that
something gets compiled) is written COMPILED; the concrete chain is in the
detail.
"""

from __future__ import annotations

from lib import c14_placements as P

PROPERTY = "C14"
LEVEL = "exploration"
RULE = (
    "all chains (outermost first) over the 13 constructs "
    + ",".join(P.CONSTRUCTS)
    + " to nesting depth 2 (quick: 182 chains) / 3 (thorough: 2379 chains), each around every one of the 4 "
    "site kinds " + ",".join(P.SITES) + "; a placement = (site kind, chain), run unseeded and under seed; "
    "distinct_nontrivial = distinct placements whose composition JAX itself accepts for a deterministic "
    "stand-in of the site (every placement has the site under >= 1 construct); a leg whose proper sub-chain "
    "already violates in the same leg is counted as subsumed instead of being re-run"
)
ASSUMPTIONS = [
    "JAX API translation layer (DESIGN §2); the sample primitive's default JVP rule is one of the three "
    "rewritten lines: jax.jvp over the same impl, same inlining behaviour as ad.jvp(...).call_wrapped",
    "which constructs compile when called eagerly is JAX semantics, fixed in lib/c14_placements.COMPILING: "
    "jit/scan/while/fori/cond/switch/map dispatch a staged sub-program through XLA; grad/value_and_grad/jvp/"
    "checkpoint/custom_jvp evaluate op by op",
    "Seed documents cond and scan as interpreted; fori_loop with static bounds and lax.map bind scan_p, "
    "switch binds cond_p",
]
EXHAUSTIVE = {"quick": True, "thorough": True}
EXTRA_COVERAGE = {
    "constructs": list(P.CONSTRUCTS),
    "site_kinds": list(P.SITES),
    "max_depth": {"quick": 2, "thorough": 3},
    "exhaustive_note": (
        "the placement space (chains to the tier's depth x 4 site kinds x 2 legs) is enumerated completely; every "
        "leg is either executed, rejected by JAX for a deterministic stand-in as well (jax_rejects_composition), or "
        "subsumed by a proper sub-chain that already violates in that leg (counters *_subsumed_by_violating_subchain)"
    ),
}
# floors hold both on the tree as it is (placements with AD / checkpoint / custom_jvp end as
# violations or are subsumed by one) and on a tree where those raise the dedicated error
FLOORS = {
    "quick": {
        "placements": 650,
        "unseeded_compiled_checked": 300,
        "raised_dedicated": 300,
        "unseeded_vmap_checked": 80,
        "raised_under_vmap": 80,
        "seeded_checked": 250,
        "seeded_ok": 100,
        "seeded_raised_dedicated": 100,
        "staged_programs_scanned": 100,
        "flag_checks": 650,
    },
    "thorough": {
        "placements": 8500,
        "unseeded_compiled_checked": 2000,
        "raised_dedicated": 2000,
        "unseeded_vmap_checked": 500,
        "raised_under_vmap": 500,
        "seeded_checked": 2000,
        "seeded_ok": 500,
        "seeded_raised_dedicated": 800,
        "staged_programs_scanned": 500,
        "flag_checks": 8500,
    },
}
TIMEOUT_S = {"quick": 1800, "thorough": 7200}


def plan(tier, seed):
    depth = 2 if tier == "quick" else 3
    return [{"chain": list(c), "sites": list(P.SITES), "seed": int(seed)} for c in P.chains(depth)]


# ---------------------------------------------------------------------------
# worker side
# ---------------------------------------------------------------------------
KNOWN_REJECTION = "Reverse-mode differentiation does not work for lax.while_loop"
_W = {}
_MEMO = {}  # (kind, chain, seed, leg) -> leg record
_CONTROL = {}  # (chain, seed) -> None (valid) | str (why JAX rejects it)


def worker_setup(ctx):
    import warnings

    import jax
    import jax.numpy as jnp
    import numpy as np
    import genjax  # noqa: F401
    from genjax import pjax, seed

    _W.update(jax=jax, jnp=jnp, np=np, pjax=pjax, seed=seed, warnings=warnings, ncases=0)
    _W["LE"] = pjax.LoweringSamplePrimitiveToMLIRException
    _check_flags(ctx, "worker-start", None)


def _check_flags(ctx, when, placement):
    """At worker start the flags must be at their safe defaults; afterwards they
    must not change (a flip made by the library is reported where it happened
    and undone, an unsafe default is reported once and left in place so that
    the workload shows its consequences)."""
    pjax = _W["pjax"]
    ctx.count("flag_checks")
    cur = (pjax.enforce_lowering_exception, pjax.lowering_warning)
    if when == "worker-start":
        _W["flags"] = cur
        if cur[0] is not True or cur[1] is not False:
            ctx.violation(
                "flags|unsafe-default",
                {
                    "when": when,
                    "enforce_lowering_exception": repr(cur[0]),
                    "lowering_warning": repr(cur[1]),
                    "expected": "enforce_lowering_exception=True, lowering_warning=False",
                },
            )
    elif cur[0] is not _W["flags"][0] or cur[1] is not _W["flags"][1]:
        ctx.violation(
            "flags|changed-by-library",
            {
                "when": when,
                "placement": placement,
                "enforce_lowering_exception": repr(cur[0]),
                "lowering_warning": repr(cur[1]),
                "before": [repr(v) for v in _W["flags"]],
            },
        )
        pjax.enforce_lowering_exception, pjax.lowering_warning = _W["flags"]


def _guard(fn):
    """Run code under test.  -> ("value", ndarray, warned) | ("dedicated", msg, warned) |
    ("other:<Type>", msg, warned).  Harness mistakes are excluded by the
    control run of the same chain (see _control)."""
    np, warnings = _W["np"], _W["warnings"]
    with warnings.catch_warnings(record=True) as rec:
        warnings.simplefilter("always")
        try:
            out = ("value", np.asarray(fn()), None)
        except _W["LE"] as e:  # noqa: F841
            out = ("dedicated", "LoweringSamplePrimitiveToMLIRException", None)
        except Exception as e:  # noqa: BLE001
            out = ("other:" + type(e).__name__, str(e)[:200], None)
    warned = any("pjax.sample_p" in str(r.message) for r in rec)
    return out[0], out[1], warned


def _keys(seed):
    jax = _W["jax"]
    return [jax.random.key(14000 + 10 * int(seed) + i) for i in range(4)]


def _x0(seed):
    return _W["jnp"].float32(0.2 + 0.05 * (int(seed) % 7))


def _control(chain, seed):
    """None if the chain runs (eagerly) for a deterministic stand-in of the
    site; otherwise the reason JAX rejects the composition."""
    k = (chain, seed)
    if k not in _CONTROL:
        c = P.build("control", chain)
        x = _x0(seed)
        r = _guard(lambda: c(x))
        if r[0] != "value":
            why = f"{r[0]}: {r[1]}"
            # the only rejection JAX has for these constructs; anything else is
            # a mistake in the harness's own wrappers and must not be absorbed
            if not ("while" in chain and any(a in chain for a in ("grad", "value_and_grad")) and KNOWN_REJECTION in why):
                raise AssertionError(f"harness: control chain {P.show(chain)} fails: {why}")
            _CONTROL[k] = why
        else:
            _CONTROL[k] = None
    return _CONTROL[k]


def _close(a, b):
    np = _W["np"]
    a, b = np.asarray(a, dtype=np.float64), np.asarray(b, dtype=np.float64)
    if a.shape != b.shape:
        return False
    return bool(np.all(np.abs(a - b) <= 1e-4 * (1.0 + np.abs(a))))


def _bits(a):
    return _W["np"].asarray(a).tobytes()


def _f(v):
    np = _W["np"]
    v = np.asarray(v)
    return float(v) if v.shape == () else v.tolist()


def _shared_path(mk):
    """Results are deterministic functions of (kind, chain, seed, leg), so the
    workers of one run share them through the run's scratch directory (deleted
    with it).  Purely an economy: a miss is evaluated locally."""
    import os

    bd = os.environ.get("VERIF_BUILD_DIR")
    if not bd or os.environ.get("C14_NO_SHARED_MEMO"):
        return None
    d = os.path.join(os.path.dirname(bd), "c14_memo")
    os.makedirs(d, exist_ok=True)
    kind, chain, seed, legname = mk
    return os.path.join(d, f"{kind}.{'-'.join(chain)}.{seed}.{legname}.json")


def _memo_get(mk):
    import json
    import os

    if mk in _MEMO:
        return _MEMO[mk]
    path = _shared_path(mk)
    if path and os.path.exists(path):
        try:
            with open(path) as fh:
                _MEMO[mk] = json.load(fh)
            return _MEMO[mk]
        except (OSError, ValueError):
            return None
    return None


def _memo_put(mk, leg):
    import json
    import os

    _MEMO[mk] = leg
    path = _shared_path(mk)
    if path:
        tmp = f"{path}.{os.getpid()}.tmp"
        with open(tmp, "w") as fh:
            json.dump(leg, fh, default=str)
        os.replace(tmp, path)


def evaluate(kind, chain, seed, legs=("unseeded", "seeded")):
    """Run (the requested legs of) one placement.  Returns {"control": why|None,
    "unseeded": {...}, "seeded": {...}}; each leg has "outcome" (class counted
    in evidence), "symptom" (None or the violated clause) and the observed
    values."""
    chain = tuple(chain)
    rec = {"control": _control(chain, seed)}
    if rec["control"] is not None:
        return rec
    for legname in legs:
        mk = (kind, chain, seed, legname)
        leg = _memo_get(mk)
        if leg is None:
            f = P.build(kind, chain)
            leg = (_unseeded_leg if legname == "unseeded" else _seeded_leg)(f, chain, seed)
            _memo_put(mk, leg)
        rec[legname] = leg
    return rec


def _unseeded_leg(f, chain, seed):
    x = _x0(seed)
    compiled, vm = P.compiles(chain), P.has_vmap(chain)
    u = _guard(lambda: f(x))
    leg = {"observed": u[0], "warned": u[2]}
    if u[0] == "value":
        leg["value"] = _f(u[1])
    else:
        leg["msg"] = u[1]
    returned = "returned-value" + ("-with-warning" if u[2] else "")
    if vm:
        leg["expected"] = "raises (any exception): plain vmap over a sampling site"
        if u[0] == "value":
            leg["outcome"], leg["symptom"] = "unseeded_violation", returned
        else:
            leg["outcome"], leg["symptom"] = "raised_under_vmap", None
    elif compiled:
        leg["expected"] = "raises LoweringSamplePrimitiveToMLIRException"
        if u[0] == "dedicated":
            leg["outcome"], leg["symptom"] = "raised_dedicated", None
        elif u[0] == "value":
            leg["outcome"], leg["symptom"] = "unseeded_violation", returned
        else:
            leg["outcome"], leg["symptom"] = "unseeded_violation", "raised-" + u[0]
    else:
        leg["expected"] = "outside the claim (nothing is compiled)"
        leg["outcome"], leg["symptom"] = "eager_not_compiled", None
    return leg


def _seeded_leg(f, chain, seed):
    jax = _W["jax"]
    x = _x0(seed)
    keys = _keys(seed)
    vm = P.has_vmap(chain)
    sf = _W["seed"](f)
    s = _guard(lambda: sf(keys[0], x))
    leg = {"observed": s[0], "warned": s[2]}
    interpreted = all(c in P.SEED_INTERPRETS for c in chain)
    if s[0] != "value":
        leg["msg"] = s[1]
        if interpreted:
            leg["outcome"], leg["symptom"] = "seeded_violation", "raised-for-interpreted-construct"
            leg["expected"] = "a keyed result: Seed interprets cond_p and scan_p"
        elif s[0] == "dedicated":
            leg["outcome"], leg["symptom"] = "seeded_raised_dedicated", None
        elif vm:
            leg["outcome"], leg["symptom"] = "seeded_raised_under_vmap", None
        else:
            leg["outcome"], leg["symptom"] = "seeded_violation", "raised-" + s[0]
            leg["expected"] = "LoweringSamplePrimitiveToMLIRException or a keyed result"
        return leg
    flags = []
    leg["eager_k0"] = _f(s[1])
    j = jax.jit(sf)
    sj = _guard(lambda: j(keys[0], x))
    if sj[0] != "value":
        if sj[0] != "dedicated":
            # attribute it: the deterministic stand-in must survive jit(seed(.))
            c = P.build("control", chain)
            cj = _guard(lambda: jax.jit(_W["seed"](c))(keys[0], x))
            leg["control_jit_seed"] = cj[0]
        flags.append("jit-raises:" + (sj[1] if sj[0] == "dedicated" else sj[0][6:]))
        leg["jit_msg"] = sj[1]
        runner, first = sf, s[1]
    else:
        leg["jit_k0"] = _f(sj[1])
        if not _close(s[1], sj[1]):
            flags.append("jit-differs")
        runner, first = j, sj[1]
    # (a) equal keys -> equal bits
    rep = _guard(lambda: runner(keys[0], x))
    leg["repeat_k0"] = _f(rep[1]) if rep[0] == "value" else rep[0]
    if rep[0] != "value" or _bits(rep[1]) != _bits(first):
        flags.append("not-repeatable")
    # (b) different keys -> different result (3 other keys before giving up: a
    # 2^-24 coincidence of 24 coin flips must not raise an alarm)
    others = []
    for kk in keys[1:]:
        o = _guard(lambda: runner(kk, x))
        others.append(_f(o[1]) if o[0] == "value" else o[0])
        if o[0] != "value" or _bits(o[1]) != _bits(first):
            break
    else:
        flags.append("key-independent")
    leg["other_keys"] = others
    # (c) nothing left to lower
    jp = _guard(lambda: P.count_sample_primitives(jax.make_jaxpr(sf)(keys[0], x)))
    if jp[0] != "value":
        flags.append("make_jaxpr-raises:" + jp[0])
    else:
        leg["sample_primitives_in_staged_program"] = int(jp[1])
        if int(jp[1]) > 0:
            flags.append("sample-primitive-staged")
    leg["staged_scanned"] = jp[0] == "value"
    if s[2] or sj[2]:
        flags.append("lowering-warning")
    leg["flags"] = flags
    if not flags:
        leg["outcome"], leg["symptom"] = "seeded_ok", None
        return leg
    leg["outcome"] = "seeded_violation"
    leg["expected"] = "bit-equal on repeat, differs across keys, no sample primitive staged, jit(seed(f)) agrees"
    if "not-repeatable" in flags or "key-independent" in flags:
        leg["symptom"] = "hidden-randomness"
    elif "sample-primitive-staged" in flags:
        leg["symptom"] = "sample-primitive-staged"
    else:
        leg["symptom"] = flags[0]
    return leg


def _in_claim(chain, legname):
    if legname == "unseeded":
        return P.compiles(chain) or P.has_vmap(chain)
    return True


def subsumed_by(kind, chain, seed, legname):
    """Smallest proper sub-chain (subsequence; sizes in increasing order,
    positions in lexicographic order) whose same leg already shows a violation,
    or None.  Such a placement is not run again: the defect is reported once, at
    its smallest placement, and the budget goes to placements that can show
    something new.  On a tree without violations nothing is subsumed."""
    import itertools

    chain = tuple(chain)
    for size in range(1, len(chain)):
        for pos in itertools.combinations(range(len(chain)), size):
            cand = tuple(chain[i] for i in pos)
            if not _in_claim(cand, legname):
                continue
            r = evaluate(kind, cand, seed, legs=(legname,))
            if r["control"] is None and r[legname]["symptom"] is not None:
                return cand, r[legname]["symptom"]
    return None


def key_chain(chain, legname):
    toks = []
    mixed = any(c not in P.COMPILING for c in chain)
    for c in chain:
        if c in ("grad", "value_and_grad", "jvp"):
            toks.append("AD")
        elif legname == "unseeded" and mixed and c in P.COMPILING:
            toks.append("COMPILED")
        else:
            toks.append(c)
    # collapse immediate repetitions of an abstract token
    out = []
    for t in toks:
        if not (out and out[-1] == t and t in ("AD", "COMPILED")):
            out.append(t)
    return ">".join(out)


def run_case(case, ctx):
    jax = _W["jax"]
    chain = tuple(case["chain"])
    seed = int(case.get("seed", ctx.seed))
    for kind in case["sites"]:
        ctx.evaluation()
        rec = evaluate(kind, chain, seed, legs=())
        if rec["control"] is not None:
            ctx.count("jax_rejects_composition")
            if ctx.counters.get("jax_rejects_composition", 0) <= 2:
                ctx.note(f"composition rejected by JAX itself, e.g. {P.show(chain)}: {rec['control'][:120]}")
            _check_flags(ctx, "after-placement", [kind, P.show(chain)])
            continue
        ctx.count("placements")
        ctx.distinct("nontrivial", [kind, list(chain)])
        for legname in ("unseeded", "seeded"):
            sub = subsumed_by(kind, chain, seed, legname)
            if sub is not None:
                ctx.count(f"{legname}_subsumed_by_violating_subchain")
                rec[legname] = {"outcome": "subsumed", "by": P.show(sub[0]), "symptom_there": sub[1]}
                continue
            leg = evaluate(kind, chain, seed, legs=(legname,))[legname]
            rec[legname] = leg
            ctx.count(leg["outcome"])
            if legname == "unseeded":
                if P.has_vmap(chain):
                    ctx.count("unseeded_vmap_checked")
                elif P.compiles(chain):
                    ctx.count("unseeded_compiled_checked")
            else:
                ctx.count("seeded_checked")
                if leg.get("staged_scanned"):
                    ctx.count("staged_programs_scanned")
            if leg["symptom"] is None:
                continue
            key = f"{legname}|{key_chain(chain, legname)}|{leg['symptom']}"
            ctx.violation(
                key,
                {
                    "site": kind,
                    "chain": P.show(chain),
                    "minimal": "no proper sub-chain shows a violation in this leg",
                    "x": _f(_x0(seed)),
                    "key_ints": [14000 + 10 * seed + i for i in range(4)],
                    "leg": legname,
                    "observed": {k: v for k, v in leg.items() if k not in ("outcome", "symptom", "expected")},
                    "expected": leg.get("expected"),
                    "repro": (
                        "from lib import c14_placements as P; from genjax import seed; import jax, jax.numpy as jnp; "
                        f"f = P.build({kind!r}, {chain!r}); "
                        + (
                            "print(f(jnp.float32(0.2)))"
                            if legname == "unseeded"
                            else "sf = seed(f); print([sf(jax.random.key(k), jnp.float32(0.2)) for k in (1, 1, 2)])"
                        )
                    ),
                },
            )
        _check_flags(ctx, "after-placement", [kind, P.show(chain)])
        if case.get("index", 0) % 61 == 0 and kind == case["sites"][case.get("index", 0) % len(case["sites"])]:
            ctx.sample(
                {
                    "site": kind,
                    "chain": P.show(chain),
                    "unseeded": {k: rec["unseeded"].get(k) for k in ("observed", "outcome")},
                    "seeded": {
                        k: rec["seeded"].get(k)
                        for k in ("observed", "outcome", "eager_k0", "jit_k0", "other_keys", "sample_primitives_in_staged_program")
                    },
                }
            )
    _W["ncases"] += 1
    if _W["ncases"] % 40 == 0:
        jax.clear_caches()
