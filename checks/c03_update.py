"""C03 — update returns the density ratio, keeps unconstrained choices, is invertible.

From a simulated trace apply gf.update(trace, x_new, *new_args) with new
arguments that keep / flip Cond predicates and change Scan / Vmap inputs, and
constraint maps over subsets of the address set.  Oracle (reference
interpreter, float64):

  coherent     new trace coherent under the new args
  values       constrained addresses hold the new values, all others are bit-equal
               (addresses under a Cond whose branch switched are exempt: the other
               branch's stored values become visible)
  weight       == ref(new visible choices; new args) - ref(old visible choices; old args),
               also when a Cond switches
  discard      at every overwritten address == the value visible in the old trace
  round trip   update(new trace, discard, *old args) restores the choices bit-exactly, weight == -weight
  Trace.update convenience form equals gf.update with the stored args
"""

from __future__ import annotations

import math

import numpy as np

PROPERTY = "C03"
LEVEL = "exploration"
RULE = (
    "programs from the spec grammar, SeedSequence([VERIF_SEED, 3, index]); per program moves = (argument change: "
    "same | perturbed) x (constraint subset: none | all | singles | random); distinct_nontrivial = distinct "
    "(program structural hash, move kind, constrained subset) on non-trivial programs where arguments change or "
    "a proper non-empty subset is constrained"
)
ASSUMPTIONS = [
    "reference interpreter lib/refmodel.py (float64)",
    "JAX API translation layer (DESIGN §2)",
]
FLOORS = {
    "quick": {"update_checks": 250, "weight_checks": 250, "roundtrip_checks": 150, "moves_with_cond_switch": 5, "moves_args_changed": 100},
    "thorough": {"update_checks": 2500, "weight_checks": 2500, "roundtrip_checks": 1500, "moves_with_cond_switch": 50, "moves_args_changed": 1000},
}
TIMEOUT_S = {"quick": 1500, "thorough": 5400}
CLEAR_CACHES_EVERY = {"quick": 0, "thorough": 6}  # see lib/worker.py
N_CASES = {"quick": 64, "thorough": 640}
FAMILY_CYCLE = ["mixed", "builtin", "probe", "bare"]


def plan(tier, seed):
    return [{"family": FAMILY_CYCLE[i % len(FAMILY_CYCLE)], "gseed": [seed, 3, i]} for i in range(N_CASES[tier])]


def _subsets(paths, rng, tier):
    paths = sorted(paths)
    out = [("none", None), ("all", frozenset(paths))]
    k = len(paths)
    if k >= 2:
        for i in list(rng.permutation(k))[: 2 if tier == "quick" else 5]:
            out.append(("single", frozenset([paths[int(i)]])))
        nr = 1 if tier == "quick" else 4
        seen = {s for _, s in out if s is not None}
        tries = 0
        while nr > 0 and tries < 30:
            tries += 1
            s = frozenset(p for p, b in zip(paths, rng.random(k) < 0.5) if b)
            if s and s not in seen and len(s) < k:
                seen.add(s)
                out.append(("random", s))
                nr -= 1
    return out


def _perturb(prog, vals, rng, scale):
    out = []
    for (cls, shape), v in zip(prog["ptypes"], vals):
        a = np.asarray(v)
        if cls == "f":
            out.append(np.round(a + rng.normal(size=a.shape) * scale, 3).astype(np.float32).tolist())
        else:
            out.append(v)
    return out


def run_case(case, ctx):
    import jax
    from genjax import seed

    from lib import gfi, spec
    from lib import refmodel as R

    tier = ctx.tier
    g, prog = gfi.make_case_program(case["gseed"], case["family"], tier)
    rng = np.random.default_rng(case["gseed"] + [55])
    ctx.evaluation()
    h = spec.struct_hash(prog)
    feats = spec.features(prog)
    base = {"program": spec.show(prog), "family": case["family"], "kinds": sorted(feats["kinds"])}
    gf = ctx.call(spec.build, prog)
    if hasattr(gf, "brief"):
        ctx.violation(gfi.raise_key("build", gf), {**base, **gf.brief()})
        return
    paths = list(spec.leaf_paths(prog))
    vals0 = g.arg_values(prog)
    args0 = spec.to_jax_args(prog, vals0)
    sim = jax.jit(seed(gf.simulate))
    upd = jax.jit(gf.update)
    assess_jit = jax.jit(gf.assess)
    tr0 = ctx.call(sim, jax.random.key(int(rng.integers(2**31))), *args0)
    if hasattr(tr0, "brief"):
        ctx.count("simulate_failed")
        return
    ch0 = ctx.call(lambda: R.to_numpy(tr0.get_choices()))
    if hasattr(ch0, "brief"):
        ctx.count("simulate_failed")
        return
    ref_old = R.run(prog, vals0, choices=ch0)
    if ref_old.min_margin < 1e-4 or not math.isfinite(ref_old.total):
        ctx.count("skipped_near_tie")
        return
    sampled = False
    arg_variants = [("same", vals0), ("perturbed", _perturb(prog, vals0, rng, 0.6)), ("perturbed-large", _perturb(prog, vals0, rng, 1.5))]
    for kind, subset in _subsets(paths, rng, tier):
        for akind, vals1 in arg_variants:
            args1 = spec.to_jax_args(prog, vals1)
            if subset is None:
                cons_np, cons = None, None
            else:
                refc = R.run(prog, vals1, chooser=R.prior_chooser(rng, safe=True))
                cons_np = R.restrict(refc.choices, subset)
                cons = R.to_jax(cons_np)
            d0 = {**base, "old_args": vals0, "new_args": vals1, "args_change": akind, "constraint_kind": kind,
                  "constrained": sorted(gfi.pstr(p) for p in (subset or [])), "constraints": cons_np, "old_choices": ch0}
            res = ctx.call(upd, tr0, cons, *args1)
            ctx.count("update_checks")
            if akind != "same":
                ctx.count("moves_args_changed")
            if hasattr(res, "brief"):
                ctx.violation(gfi.raise_key("update", res), {**d0, **res.brief()})
                continue
            ok = ctx.call(_check_update, ctx, upd, assess_jit, prog, tr0, ch0, ref_old, vals0, args0, vals1, args1, res, subset, cons_np, d0)
            if hasattr(ok, "brief"):
                ctx.violation(gfi.raise_key("update-result", ok), {**d0, **ok.brief()})
                continue
            if (akind != "same" or (subset and len(subset) < len(paths))) and spec.nontrivial(prog):
                ctx.distinct("nontrivial", [h, akind, kind, sorted(gfi.pstr(p) for p in (subset or []))])
            if ok and not sampled and akind != "same" and subset:
                sampled = True
                ctx.sample({"program": spec.show(prog), "old_args": vals0, "new_args": vals1,
                            "constrained": d0["constrained"], "weight": gfi.fnum(res[1])})
    # Trace.update convenience form (a method of real traces; the bare adapter has none)
    if paths and not prog.get("bare"):
        refc = R.run(prog, vals0, chooser=R.prior_chooser(rng, safe=True))
        s1 = frozenset([sorted(paths)[0]])
        cons_np = R.restrict(refc.choices, s1)
        cons = R.to_jax(cons_np)
        a = ctx.call(lambda: tr0.update(cons))
        b = ctx.call(lambda: gf.update(tr0, cons, *args0))
        ctx.count("trace_update_checks")
        d = {**base, "args": vals0, "constraints": cons_np}
        if hasattr(a, "brief") and not hasattr(b, "brief"):
            ctx.violation(gfi.raise_key("Trace.update", a), {**d, **a.brief()})
        elif not hasattr(a, "brief") and not hasattr(b, "brief"):
            same = gfi.bit_equal(np.asarray(a[1]), np.asarray(b[1])) and not gfi.diff_leaves(
                R.to_numpy(a[0].get_choices()), R.to_numpy(b[0].get_choices())
            )
            if not same:
                ctx.violation("Trace.update|differs-from-gf.update-with-stored-args", d)


def _switched_paths(ref_old, ref_new):
    """Static Cond paths at which some lane / iteration took a different branch."""
    out = set()
    for k, v in ref_new.conds.items():
        if k in ref_old.conds and ref_old.conds[k] != v:
            out.add(k[0])
    return out


def _under(p, prefixes):
    return any(p[: len(q)] == q for q in prefixes)


def _check_update(ctx, upd, assess_jit, prog, tr0, ch0, ref_old, vals0, args0, vals1, args1, res, subset, cons_np, d0):
    import jax

    from lib import gfi
    from lib import refmodel as R

    tr1, w, discard = res
    status, ref_new = gfi.coherence(ctx, "update", prog, vals1, tr1, d0, assess_jit, args1, allow_outside=True)
    if status == "skip":
        return True
    if status == "bad":
        return False
    ch1 = R.to_numpy(tr1.get_choices())
    switched = _switched_paths(ref_old, ref_new)
    sfx = "|cond-branch-switched" if switched else ""
    if switched:
        ctx.count("moves_with_cond_switch")
    d = {**d0, "new_choices": ch1, "switched_conds": sorted(gfi.pstr(p) for p in switched)}
    l0, l1 = R.flat_leaves(ch0), R.flat_leaves(ch1)
    want = R.flat_leaves(cons_np) if cons_np else {}
    # constrained addresses hold the new values; all others keep their old values
    for p in l1:
        if p in want:
            if np.shape(l1[p]) != np.shape(want[p]) or not np.array_equal(np.asarray(l1[p]), np.asarray(want[p]).astype(np.asarray(l1[p]).dtype)):
                ctx.violation("update|constrained-value-not-taken" + sfx, {**d, "path": gfi.pstr(p)})
                return False
        else:
            # also below a Cond whose branch switched: the value that was visible before stays visible
            if p not in l0 or not gfi.bit_equal(l0[p], l1[p]):
                ctx.violation("update|unconstrained-value-changed" + ("|below-switched-cond" if _under(p, switched) else ""),
                              {**d, "path": gfi.pstr(p), "old_visible_value": np.asarray(l0.get(p)).tolist(), "new_visible_value": np.asarray(l1[p]).tolist()})
                return False
    # weight = visible density ratio
    want_w = ref_new.total - ref_old.total
    t = R.tol(ref_new.abs_sum() + ref_old.abs_sum(), len(ref_new.sites) + len(ref_old.sites))
    ctx.count("weight_checks")
    if np.shape(w) != () or not (abs(float(w) - want_w) <= t):
        ctx.violation(
            "update|weight-not-density-ratio" + sfx,
            {**d, "weight": gfi.fnum(w), "reference_weight": want_w, "ref_new": ref_new.total, "ref_old": ref_old.total, "tol": t},
        )
        return False
    ap = gfi.args_problem(tr1, args1)
    if ap is not None:
        ctx.violation("update|get_args-not-new-args" + ap, d)
        if not ap.endswith("recorded-per-lane"):
            return False
    # discard holds the previously visible values of the overwritten addresses
    ld = R.flat_leaves(R.to_numpy(discard)) if isinstance(discard, dict) else {}
    for p in want:
        if p not in ld:
            ctx.violation("update|discard-misses-overwritten-address" + sfx, {**d, "path": gfi.pstr(p), "discard": sorted(gfi.pstr(q) for q in ld)})
            return False
        if not gfi.bit_equal(np.asarray(ld[p]), np.asarray(l0[p])):
            ctx.violation(
                "update|discard-not-old-visible-value" + sfx,
                {**d, "path": gfi.pstr(p), "discard_value": np.asarray(ld[p]).tolist(), "old_visible_value": np.asarray(l0[p]).tolist()},
            )
            return False
    # round trip with the discard and the old arguments
    back = ctx.call(lambda: upd(tr1, discard, *args0))
    ctx.count("roundtrip_checks")
    if hasattr(back, "brief"):
        ctx.violation(gfi.raise_key("update-back", back) + sfx, {**d, **back.brief()})
        return False
    tr2, w2, _ = back
    ch2 = R.to_numpy(tr2.get_choices())
    diff = gfi.diff_leaves(ch0, ch2)
    if diff:
        ctx.violation("update|roundtrip-does-not-restore-choices" + sfx, {**d, "paths": [gfi.pstr(p) for p in diff]})
        return False
    if not (abs(float(w2) + float(w)) <= 2 * t):
        ctx.violation("update|roundtrip-weight-not-negated" + sfx, {**d, "weight": gfi.fnum(w), "weight_back": gfi.fnum(w2)})
        return False
    return True
