"""C18 — chain returns exactly the burnt-in, thinned kernel iterates and diagnostics.

The real ``seed(chain(kernel))`` is run over the complete (n_steps, burn_in,
thinning) grid.  Every kernel handed to ``chain`` is wrapped by a recorder
(lib/c18_lib.recorded) that ships each application's input trace, output trace
and accept decision to the host through an ordered ``jax.debug.callback``; the
key schedule of ``chain`` (scan under seed, modular_vmap for several chains) is
therefore *observed*, never re-derived.  Oracle, all in numpy on the host:

  log      step 0 starts at the initial trace; step i+1 starts at the output of step i;
           (mh/mala/hmc) a rejected step returns its input bit for bit, an accepted one moves
  result   traces[j] == logged output of step burn_in + j*thin (bitwise, every leaf of the
           trace pytree: choices, score, retval, args), accepts[j] == logged decision of
           that step, acceptance_rate == mean of those decisions, n_steps == number retained,
           shapes carry exactly the retained axis (and a leading chain axis for n_chains > 1)
  slice    with the same key, run (n, b, t) == numpy slice [b::t] of run (n, 0, 1), bitwise
  chains   n_chains = c: the c*n logged applications decompose into c chains each of which
           satisfies the single-chain oracle; two chains never produce the same accepted state
"""

from __future__ import annotations

import numpy as np

PROPERTY = "C18"
LEVEL = "exploration"
NMAX = {"quick": 8, "thorough": 12}
TMAX = 4
RULE = (
    "complete grid n_steps 1..8 (quick) / 1..12 (thorough) x burn_in 0..n-1 x thinning 1..4 (every combination has a "
    "non-empty result) enumerated for each of 3 models: scalar (3 scalar sites + observed), vector (normal.vmap "
    "3-vector + multivariate_normal 2-vector), scan (nested @gen call + Scan of length 3); the kernel of a "
    "(model, n) rotates with n over that model's kernels (quick: 3 kernels, one per n; thorough: 4 kernels, two per n) "
    "drawn from mh, mala, hmc and three composites (two kernels in sequence, extra save(...) diagnostics, "
    "namespaced sub-kernels); every case also runs the un-thinned reference (n,0,1); n_chains=2 on the "
    "full (b,t) grid of small n and n_chains=3/4 on seed-sampled grid points; key, observation and arguments drawn from "
    "VERIF_SEED per case; distinct_nontrivial = distinct (model,kernel,n,b,t,c) with b>0 or t>1 whose un-thinned run "
    "visits >= 2 different states (so a misaligned slice is visible)"
)
ASSUMPTIONS = [
    "JAX API translation layer (DESIGN §2)",
    "an ordered jax.debug.callback inside the kernel reports the values that kernel application really saw "
    "(JAX semantics; under vmap the callback is unrolled per lane, the lane layout is recovered by continuity, not assumed)",
    "a composite kernel's accept is the last value it saves under the name 'accept' (later write wins, C19)",
    "kernel correctness itself (the law of one step) is C09's subject; here a step is whatever the kernel did",
    "harness-side compile reuse: an eagerly dispatched scan whose printed jaxpr, parameters and argument avals are "
    "identical to an earlier one reuses that executable (lib/c18_lib.install_scan_compile_cache); genjax is still "
    "traced in full on every call",
]
KERNELS_OF = {
    "quick": {
        "scalar": ["mh", "mala", "seq_diag"],
        "vector": ["mh", "hmc", "seq_always"],
        "scan": ["mh", "hmc", "ns_moved"],
    },
    "thorough": {
        "scalar": ["mh", "mala", "hmc", "seq_diag"],
        "vector": ["mh", "mala", "hmc", "seq_always"],
        "scan": ["mh", "mala", "hmc", "ns_moved"],
    },
}
REPL = {"quick": 1, "thorough": 2}  # kernels per grid point
MULTI_FULL_N = {"quick": [3], "thorough": [1, 2, 3, 4]}  # n_chains = 2, complete (b, t) grid
MULTI_SAMPLED_C = {"quick": [3], "thorough": [3, 4]}  # sampled grid points
MULTI_SAMPLED_PTS = {"quick": 4, "thorough": 8}
MULTI_SAMPLED_KERNELS = {"quick": 1, "thorough": 2}


def grid(n):
    return [[b, t] for t in range(1, TMAX + 1) for b in range(n)]


MODEL_ORDER = ["scalar", "vector", "scan"]
CHUNK = 64  # grid points per case (whole thinning groups); 64 = never split for n <= 12


def kernels_of_n(tier, model, n):
    """Kernels that run the complete (b, t) grid of this (model, n)."""
    ks = KERNELS_OF[tier][model]
    mi = MODEL_ORDER.index(model)
    return [ks[(n + mi + r * (len(ks) // 2)) % len(ks)] for r in range(REPL[tier])]


def _chunks(n):
    out, cur = [], []
    for t in range(1, TMAX + 1):
        grp = [[b, t] for b in range(n)]
        if cur and len(cur) + len(grp) > CHUNK:
            out.append(cur)
            cur = []
        cur = cur + grp
    out.append(cur)
    return out


def plan(tier, seed):
    rng = np.random.default_rng([seed, 18])
    nmax = NMAX[tier]
    cases = []
    for m in MODEL_ORDER:
        ks = KERNELS_OF[tier][m]
        for c, ns in ((1, range(1, nmax + 1)), (2, MULTI_FULL_N[tier])):
            for n in ns:
                for k in kernels_of_n(tier, m, n):
                    for ci, pts in enumerate(_chunks(n)):
                        # one grid point per (model, kernel, even n) is re-run under jax.jit
                        jp = pts[int(rng.integers(0, len(pts)))] if (c == 1 and n % 2 == 0 and ci == 0) else None
                        # cost model: one full compile (~6 cheap calls) per case and per jit point
                        calls = 6 + len(pts) + (0 if [0, 1] in pts else 1) + 6 * (jp is not None)
                        cases.append({"model": m, "kernel": k, "n": n, "c": c, "points": pts, "jit_point": jp,
                                      "cost": (1.0 if c == 1 else 2.0) * calls})
        for c in MULTI_SAMPLED_C[tier]:
            for k in rng.choice(ks, size=MULTI_SAMPLED_KERNELS[tier], replace=False):
                n = int(rng.integers(4, nmax + 1))
                g = [p for p in grid(n) if p != [0, 1]]
                idx = rng.choice(len(g), size=MULTI_SAMPLED_PTS[tier], replace=False)
                pts = [g[int(i)] for i in sorted(idx)]
                cases.append({"model": m, "kernel": str(k), "n": n, "c": c, "points": pts, "jit_point": None,
                              "cost": 2.5 * (6 + len(pts) + 1)})
    # round-robin sharding: largest first keeps the shards level
    cases.sort(key=lambda d: -d["cost"])
    return cases


def _floors(tier):
    cs = plan(tier, 0)
    single = sum(len(c["points"]) for c in cs if c["c"] == 1)
    multi = sum(len(c["points"]) for c in cs if c["c"] > 1)
    retained = sum(len(range(b, c["n"], t)) for c in cs if c["c"] == 1 for b, t in c["points"])
    assert single == REPL[tier] * 3 * sum(len(grid(n)) for n in range(1, NMAX[tier] + 1))
    return {
        "grid_points": single,
        "multi_points": multi,
        "reference_runs": len(cs),
        "retained_states_vs_log": int(0.9 * retained),
        "accept_flags_vs_log": int(0.9 * retained),
        "slice_identities": int(0.9 * (single + multi)),
        "log_steps_checked": 4 * single,
        "effect_checks": single,
        "rate_checks": single + multi,
        "runs_with_mixed_accepts": single // 4,
        "chain_pairs_compared": multi // 4,
        "jit_points": sum(1 for c in cs if c["jit_point"]),
    }


FLOORS = {tier: _floors(tier) for tier in ("quick", "thorough")}
TIMEOUT_S = {"quick": 3600, "thorough": 10800}
EXTRA_COVERAGE = {
    "grid": {"n_steps_max": NMAX, "thinning_max": TMAX, "burn_in": "0..n-1", "exhaustive_within_bounds_per_model": True},
    "kernels": KERNELS_OF,
}


# ---------------------------------------------------------------------------
# worker side
# ---------------------------------------------------------------------------
_W = {}


def worker_setup(ctx):
    import jax
    import jax.numpy as jnp
    import genjax  # noqa: F401
    from genjax import seed, const
    from genjax.inference import chain
    from lib import c18_lib as L

    L.install_save_probe()
    L.install_scan_compile_cache()
    _W.update(jax=jax, jnp=jnp, seed=seed, const=const, chain=chain, L=L)
    ctx.note(
        "every comparison is bitwise except acceptance_rate (|real - float64 mean| <= 1e-6); "
        "no statistical test is used"
    )


def _same(a, b):
    return a.shape == b.shape and a.dtype == b.dtype and a.tobytes() == b.tobytes()


def _same_state(x, y):
    return all(_same(a, b) for a, b in zip(x, y))


class _Case:
    """Per-case bookkeeping: each mechanism key is reported once per case."""

    def __init__(self, ctx, base):
        self.ctx = ctx
        self.base = base
        self.seen = set()

    def violation(self, key, **detail):
        if key in self.seen:
            return
        self.seen.add(key)
        self.ctx.violation(key, {**self.base, **detail})


def _run(n, b, t, c, tr0, key_int, kernel, shapes, jit=False):
    """Code under test: one call of seed(chain(kernel)).  Returns (result, log)."""
    jax, seed, const, chain, L = _W["jax"], _W["seed"], _W["const"], _W["chain"], _W["L"]
    L.LOG.clear()
    fn = seed(chain(kernel))
    key = jax.random.key(key_int)
    kw = dict(burn_in=const(b), autocorrelation_resampling=const(t), n_chains=const(c))
    if jit:
        res = jax.jit(lambda k, tr: fn(k, tr, const(n), **kw))(key, tr0)
    else:
        res = fn(key, tr0, const(n), **kw)
    jax.block_until_ready(res)
    jax.effects_barrier()
    log = [(L.unpack(i, shapes), L.unpack(o, shapes), a) for i, o, a in L.LOG]
    L.LOG.clear()
    return res, log


def _lanes(log, c, need, cv, pfx):
    """Decompose the logged applications into c chains (by continuity)."""
    if c == 1:
        return [log]
    N = len(log)
    if N % c != 0 or N // c < need:
        cv.violation(
            pfx + "log|kernel-applications-not-a-multiple-of-n_chains",
            logged_applications=N, n_chains=c, steps_needed_per_chain=need,
        )
        return None
    per = N // c
    layouts = {
        "step-major": [[log[s * c + l] for s in range(per)] for l in range(c)],
        "chain-major": [[log[l * per + s] for s in range(per)] for l in range(c)],
    }
    for name, lanes in layouts.items():
        if all(_same_state(ln[i][1], ln[i + 1][0]) for ln in lanes for i in range(per - 1)):
            return lanes
    cv.violation(pfx + "log|not-decomposable-into-chains", logged_applications=N, n_chains=c)
    return None


def _check_run(ctx, cv, res, log, tr0_leaves, labels, n, b, t, c, effect, tag):
    """Single- and multi-chain oracle of one run against its own log.  Returns a
    dict with numpy views of the result (for the slice identity) or None."""
    L = _W["L"]
    pfx = "chain|" if c == 1 else "chain-multi|"
    steps = list(range(b, n, t))
    m = len(steps)
    need = steps[-1] + 1
    where = {"run": tag, "n_steps": n, "burn_in": b, "thinning": t, "n_chains": c}
    lanes = _lanes(log, c, need, cv, pfx)
    if lanes is None:
        return None
    if len(lanes[0]) < need:
        cv.violation(pfx + "log|fewer-kernel-applications-than-last-retained-step", **where,
                     applications=len(lanes[0]), last_retained_step=steps[-1])
        return None
    # ---- the log itself is a chain started at the initial trace
    for li, ln in enumerate(lanes):
        if not _same_state(ln[0][0], tr0_leaves):
            bad = [labels[k][1] for k in range(len(tr0_leaves)) if not _same(ln[0][0][k], tr0_leaves[k])]
            cv.violation(pfx + "log|first-input-is-not-the-initial-trace", **where, lane=li, leaves=bad[:6])
        for i in range(len(ln) - 1):
            ctx.count("log_steps_checked")
            if not _same_state(ln[i][1], ln[i + 1][0]):
                cv.violation(pfx + "log|step-input-is-not-previous-output", **where, lane=li, step=i + 1)
                break
        ctx.count("log_steps_checked")
        if effect:
            for i, (xin, xout, acc) in enumerate(ln):
                ctx.count("effect_checks")
                moved = not _same_state(xin, xout)
                if (not bool(acc)) and moved:
                    cv.violation("kernel|rejected-step-changed-state", **where, lane=li, step=i)
                if bool(acc) and not moved:
                    cv.violation("kernel|accepted-step-did-not-move", **where, lane=li, step=i)

    # ---- result structure
    try:
        traces, accepts, rate = res.traces, res.accepts, res.acceptance_rate
        n_steps_v, n_chains_v = res.n_steps.value, res.n_chains.value
    except AttributeError as e:
        cv.violation(pfx + "result|missing-field", **where, error=str(e))
        return None
    lead = (m,) if c == 1 else (c, m)
    leaves = L.np_leaves(traces)
    ok_shape = len(leaves) == len(tr0_leaves)
    if ok_shape:
        for k, lf in enumerate(leaves):
            if lf.shape != lead + tr0_leaves[k].shape:
                ok_shape = False
                cv.violation(pfx + "traces|shape", **where, leaf=labels[k][1], shape=list(lf.shape),
                             expected=list(lead + tr0_leaves[k].shape))
                break
    else:
        cv.violation(pfx + "traces|shape", **where, n_leaves=len(leaves), expected=len(tr0_leaves))
    acc = np.asarray(accepts)
    ok_acc = acc.shape == lead and acc.dtype == np.bool_
    if not ok_acc:
        cv.violation(pfx + "accepts|shape-or-dtype", **where, shape=list(acc.shape), dtype=str(acc.dtype),
                     expected=list(lead))
    exp_acc = np.array([[bool(ln[s][2]) for s in steps] for ln in lanes])  # (c, m)
    for li, ln in enumerate(lanes):
        if ok_shape:
            for j, s in enumerate(steps):
                ctx.count("retained_states_vs_log")
                got = [lf[j] if c == 1 else lf[li, j] for lf in leaves]
                bad = [k for k in range(len(got)) if not _same(got[k], ln[s][1][k])]
                if bad:
                    cats = sorted({labels[k][0] for k in bad})
                    matches = [s2 for s2 in range(len(ln)) if _same_state(got, ln[s2][1])]
                    cv.violation(
                        pfx + "traces|differ-from-logged-iterate",
                        **where, differing_parts=cats, lane=li, retained_index=j, expected_step=s,
                        steps_whose_logged_output_equals_result=matches[:6],
                        first_input_equals_result=_same_state(got, ln[0][0]),
                        leaf=labels[bad[0]][1],
                        observed=got[bad[0]].tolist(), expected=ln[s][1][bad[0]].tolist(),
                    )
                    break
        if ok_acc:
            got_acc = acc if c == 1 else acc[li]
            ctx.count("accept_flags_vs_log", m)
            if not np.array_equal(got_acc, exp_acc[li]):
                cv.violation(
                    pfx + "accepts|differ-from-logged-decisions", **where, lane=li, retained_steps=steps,
                    observed=got_acc.tolist(), expected=exp_acc[li].tolist(),
                    all_logged_decisions=[bool(r[2]) for r in ln],
                )
    # ---- diagnostics
    r = np.asarray(rate)
    ctx.count("rate_checks")
    if r.shape == ():
        exp_r = float(np.mean(exp_acc.astype(np.float64)))
        if not abs(float(r) - exp_r) <= 1e-6:
            cv.violation(pfx + "acceptance_rate|not-mean-of-retained-accepts", **where, observed=float(r), expected=exp_r,
                         mean_over_all_steps=float(np.mean([[bool(x[2]) for x in ln] for ln in lanes])))
    elif c > 1 and r.shape == (c,):
        exp_r = np.mean(exp_acc.astype(np.float64), axis=1)
        if not np.all(np.abs(r.astype(np.float64) - exp_r) <= 1e-6):
            cv.violation(pfx + "acceptance_rate|not-mean-of-retained-accepts", **where, observed=r.tolist(),
                         expected=exp_r.tolist())
    else:
        cv.violation(pfx + "acceptance_rate|shape", **where, shape=list(r.shape))
    if not (isinstance(n_steps_v, (int, np.integer)) and int(n_steps_v) == m):
        cv.violation(pfx + "n_steps|not-retained-count", **where, observed=repr(n_steps_v), expected=m)
    if not (isinstance(n_chains_v, (int, np.integer)) and int(n_chains_v) == c):
        cv.violation(pfx + "n_chains|wrong", **where, observed=repr(n_chains_v), expected=c)
    # ---- chains use different randomness: when two chains accept a move at the same step, no
    # random choice that moved in both may land on the bit-identical value
    if c > 1:
        # only the random choices themselves (the leaves of get_choices()); scores and the like are
        # recomputed deterministically and agree between chains that start from the same state
        ch = [k for k in range(len(labels)) if labels[k][1].endswith("._choices")]
        for p in range(c):
            for q in range(p + 1, c):
                both = [s for s in range(len(lanes[p])) if bool(lanes[p][s][2]) and bool(lanes[q][s][2])]
                if not both:
                    continue
                ctx.count("chain_pairs_compared")
                for s in both:
                    (pi, po, _), (qi, qo, _) = lanes[p][s], lanes[q][s]
                    shared = [k for k in ch if not _same(pi[k], po[k]) and not _same(qi[k], qo[k]) and _same(po[k], qo[k])]
                    if shared:
                        cv.violation("chain-multi|chains-share-randomness", **where, lanes=[p, q], step=s,
                                     leaf=labels[shared[0]][1], value=po[shared[0]].tolist(),
                                     note="both chains accepted a move at this step and this leaf moved to the "
                                          "bit-identical value in both")
                        break
    all_acc = [bool(x[2]) for ln in lanes for x in ln]
    if any(all_acc) and not all(all_acc):
        ctx.count("runs_with_mixed_accepts")
    distinct_states = len({b"".join(a.tobytes() for a in x[1]) for ln in lanes for x in ln})
    return {"leaves": leaves if ok_shape else None, "accepts": acc if ok_acc else None, "exp_acc": exp_acc,
            "distinct_states": distinct_states}


def run_case(case, ctx):
    L = _W["L"]
    model, kname, n, c = case["model"], case["kernel"], case["n"], case["c"]
    rng = np.random.default_rng([ctx.seed, 18, case["index"]])
    tr0, info = L.initial_trace(model, rng)
    key_int = int(rng.integers(0, 2**31 - 1))
    kernel = L.recorded_kernel(model, kname)
    effect = L.KERNELS[(model, kname)]["effect"]
    tr0_leaves = L.np_leaves(tr0)
    labels = L.leaf_labels(tr0)
    shapes = [x.shape for x in tr0_leaves]
    base = {"model": model, "kernel": kname, "chain_key": key_int, **info}
    cv = _Case(ctx, base)
    pfx = "chain|" if c == 1 else "chain-multi|"
    counter = "grid_points" if c == 1 else "multi_points"

    def go(b, t, jit=False):
        ctx.evaluation()
        out = ctx.call(_run, n, b, t, c, tr0, key_int, kernel, shapes, jit)
        if hasattr(out, "brief"):
            if "c18 harness" in out.msg:
                raise RuntimeError(out.msg)
            cv.violation(pfx + "raises:" + out.type, n_steps=n, burn_in=b, thinning=t, n_chains=c, jit=jit, **out.brief())
            return None
        res, log = out
        tag = "jit" if jit else "eager"
        return _check_run(ctx, cv, res, log, tr0_leaves, labels, n, b, t, c, effect, tag)

    ref = go(0, 1)  # the un-thinned run, validated step by step against its own log
    if ref is not None:
        ctx.count("reference_runs")
    for b, t in case["points"]:
        if (b, t) == (0, 1):
            if ref is not None:
                ctx.count(counter)
            continue
        got = go(b, t)
        if got is None:
            continue
        ctx.count(counter)
        if ref is None:
            continue
        if ref["distinct_states"] >= 2:
            ctx.distinct("nontrivial", [model, kname, n, b, t, c])
        # ---- slice identity against the un-thinned run with the same key
        ctx.count("slice_identities")
        where = {"n_steps": n, "burn_in": b, "thinning": t, "n_chains": c}
        if got["leaves"] is not None and ref["leaves"] is not None:
            for k, (g, u) in enumerate(zip(got["leaves"], ref["leaves"])):
                want = u[b::t] if c == 1 else u[:, b::t]
                if not _same(g, np.ascontiguousarray(want)):
                    cv.violation(pfx + "slice|traces-differ-from-slice-of-unthinned-run", **where,
                                 leaf=labels[k][1], observed=g.tolist(), expected=want.tolist(), unthinned=u.tolist())
                    break
        if got["accepts"] is not None and ref["accepts"] is not None:
            u = ref["accepts"]
            want = u[b::t] if c == 1 else u[:, b::t]
            if not np.array_equal(got["accepts"], want):
                cv.violation(pfx + "slice|accepts-differ-from-slice-of-unthinned-run", **where,
                             observed=got["accepts"].tolist(), expected=want.tolist(), unthinned=u.tolist())
    if case.get("jit_point"):
        b, t = case["jit_point"]
        if go(b, t, jit=True) is not None:
            ctx.count("jit_points")
    for name in ("compiled", "reused"):
        ctx.count("eager_scans_" + name, L.SCAN_STATS[name] - _W.get("scan_" + name, 0))
        _W["scan_" + name] = L.SCAN_STATS[name]
    if ref is not None and case["index"] % 7 == 0:
        ctx.sample({**base, "n_steps": n, "n_chains": c, "unthinned_logged_accepts": ref["exp_acc"].astype(int).tolist(),
                    "grid_points_in_case": len(case["points"]), "distinct_states_visited": ref["distinct_states"]})
