"""C13 — distributions: documented parameters, normalised density, matching sampler.

Real code executed: ``genjax.distributions.<d>.logpdf`` / ``.sample`` for all 24
distributions of ``genjax/distributions.py`` (positional call as documented and
every keyword form the wrapper accepts), and user distributions built through
``tfp_distribution(...)`` and ``distribution(wrap_sampler(..), wrap_logpdf(..))``.

Oracle: ``lib.refdist`` — float64 numpy/scipy log densities, CDFs and supports
under the DOCUMENTED parameterisation (no genjax, no TFP).  Monitors per
(distribution, argument form, parameter point):

  logpdf        dist.logpdf on a support grid == reference, |d| <= 1e-5 (1 + sum |terms|)
                (also lane-wise under genjax.modular_vmap)
  normalisation sum of exp(dist.logpdf) over the support (reference tail <= 2e-5) or midpoint
                quadrature of exp(dist.logpdf) in a transformed variable == 1 within 1e-4
  sample        seed(dist.sample): eager single draw, jax.vmap(seed(.)) over a key batch, sample_shape=(n,),
                batched parameters (with and without sample_shape), genjax.modular_vmap over parameter lanes
                and with axis_size only: shape == sample_shape + batch + event, dtype, support membership,
                and goodness of fit against the reference (exact-binomial cell test for discrete laws,
                DKW-bounded Kolmogorov distance on the probability-integral transform for continuous
                laws, Rosenblatt/whitening to iid N(0,1) for multivariate ones)
"""

from __future__ import annotations

import json

import numpy as np

from lib import refdist as R

PROPERTY = "C13"
LEVEL = "exploration"
RULE = (
    "cases = (distribution, argument form [positional / keyword names], block of parameter points drawn from "
    "VERIF_SEED well inside the parameter domain); every case runs the logpdf, normalisation and sampler "
    "monitors in every calling configuration.  distinct_nontrivial = distinct (distribution, argument form, "
    "monitor configuration, parameter point) tuples whose deciding comparison was reached; all parameter "
    "points are generic (rates/scales away from 1, probabilities away from 1/2, non-diagonal covariances)"
)
ASSUMPTIONS = [
    "reference = scipy.special/scipy.stats float64 under the documented parameterisation; where a genjax docstring "
    "contradicts the property text the property decides (geometric counts failures, flip takes a probability, "
    "categorical logits, exponential rate, multivariate_normal covariance); where the docstring is silent or "
    "self-contradictory (inverse_gamma scale, negative_binomial roles) the wrapped constructor's definition is used "
    "and the discrepancy is written to coverage.notes",
    "statistical monitors: fixed n per tier, exact finite-n null bounds (DKW, exact binomial), Bonferroni over at most "
    "MAX_GOF tests per run -> family-wise false alarm <= 1e-9; draws are a deterministic function of VERIF_SEED",
    "float32 resolution of the wrapped sampler is outside the claim: non-finite draws at a frequency the exact binomial "
    "test cannot distinguish from <= 1e-5 are counted (nonfinite_draws_tolerated) and left out of the fit (observed: "
    "TFP's float32 StudentT sampler returns +-inf about 2.5e-7 of the time for df ~ 1.8); more than that is a violation",
    "JAX API translation layer (DESIGN §2)",
]
N_DRAWS = {"quick": 40000, "thorough": 200000}
POINTS = {"quick": 4, "thorough": 12}
BLOCK = 4
FAMILY_ALPHA = 1e-9
MAX_GOF = 20000  # upper bound on goodness-of-fit tests per run (checked in plan())
ALPHA = FAMILY_ALPHA / MAX_GOF
TOL_LOGPDF = 1e-5
TOL_NORM = 1e-4
MAX_REF_TAIL = 2e-5
FLOORS = {
    "quick": {"logpdf_points": 5000, "normalisation_checks": 200, "gof_tests": 800, "shape_checks": 650,
              "logpdf_vmap_checks": 50, "distributions_reached": 24, "wrapper_cases": 7, "doc_probes": 1},
    "thorough": {"logpdf_points": 15000, "normalisation_checks": 600, "gof_tests": 2400, "shape_checks": 1950,
                 "logpdf_vmap_checks": 150, "distributions_reached": 24, "wrapper_cases": 7, "doc_probes": 1},
}
TIMEOUT_S = {"quick": 2700, "thorough": 7200}

# argument forms: (positional names, keyword names)
FORMS = {
    "bernoulli": [(["logits"], []), ([], ["probs"]), ([], ["logits"])],
    "flip": [(["p"], [])],
    "beta": [(["concentration1", "concentration0"], []), ([], ["concentration1", "concentration0"])],
    "categorical": [(["logits"], []), ([], ["logits"])],
    "geometric": [(["logits"], []), ([], ["probs"]), ([], ["logits"])],
    "normal": [(["loc", "scale"], []), ([], ["loc", "scale"])],
    "uniform": [(["low", "high"], []), ([], ["low", "high"]), ([], [])],
    "exponential": [(["rate"], []), ([], ["rate"])],
    "poisson": [(["rate"], []), ([], ["rate"]), ([], ["log_rate"])],
    "multivariate_normal": [(["loc", "covariance_matrix"], []), ([], ["loc", "covariance_matrix"])],
    "dirichlet": [(["concentration"], []), ([], ["concentration"])],
    "binomial": [(["total_count", "logits"], []), (["total_count"], ["probs"]), (["total_count"], ["logits"])],
    "gamma": [(["concentration", "rate"], []), (["concentration"], ["rate"]), (["concentration"], ["log_rate"])],
    "log_normal": [(["loc", "scale"], []), ([], ["loc", "scale"])],
    "student_t": [(["df", "loc", "scale"], []), ([], ["df", "loc", "scale"])],
    "laplace": [(["loc", "scale"], []), ([], ["loc", "scale"])],
    "half_normal": [(["scale"], []), ([], ["scale"])],
    "inverse_gamma": [(["concentration", "scale"], []), (["concentration"], ["scale"])],
    "weibull": [(["concentration", "scale"], []), ([], ["concentration", "scale"])],
    "cauchy": [(["loc", "scale"], []), ([], ["loc", "scale"])],
    "chi2": [(["df"], []), ([], ["df"])],
    "multinomial": [(["total_count", "logits"], []), (["total_count"], ["probs"]), (["total_count"], ["logits"])],
    "negative_binomial": [(["total_count", "logits"], []), (["total_count"], ["probs"]), (["total_count"], ["logits"])],
    "zipf": [(["power"], []), ([], ["power"])],
}
# user wrappers: worker-side object name -> (reference name, forms)
WRAPPERS = {
    "tfp:gumbel": ("gumbel", [(["loc", "scale"], []), ([], ["loc", "scale"])]),
    "tfp:logistic": ("logistic", [(["loc", "scale"], [])]),
    "tfp:categorical_probs": ("categorical_probs", [(["probs"], []), ([], ["probs"])]),
    "tfp:mvn_tril": ("mvn_tril", [(["loc", "scale_tril"], [])]),
    "user:triangular": ("triangular", [(["mode"], []), ([], ["mode"])]),
    "user:iso_normal": ("iso_normal", [(["loc", "scale"], [])]),
    "user:bernoulli_sum5": ("bernoulli_sum5", [(["p"], [])]),
}


# ---------------------------------------------------------------------------
# plan (numpy only)
# ---------------------------------------------------------------------------
def _f32(x):
    return np.asarray(np.asarray(x, dtype=np.float32), dtype=np.float64)


def _lu(rng, a, b, size=None):
    return _f32(np.exp(rng.uniform(np.log(a), np.log(b), size=size)))


def _u(rng, a, b, size=None):
    return _f32(rng.uniform(a, b, size=size))


def _simplex32(rng, k):
    """probabilities, float32-exact, summing to 1 within one float32 ulp."""
    p = rng.dirichlet(np.ones(k) * 2.0) * 0.9 + 0.1 / k
    p = np.asarray(p, dtype=np.float32)
    p = p / p.sum(dtype=np.float32)
    return np.asarray(p, dtype=np.float64)


def _cov(rng, d):
    s = np.exp(rng.uniform(np.log(0.3), np.log(3.0), size=d))
    a = rng.standard_normal((d, d))
    q, _ = np.linalg.qr(a)
    ev = np.exp(rng.uniform(np.log(0.15), 0.0, size=d))
    c = q @ np.diag(ev) @ q.T
    dd = np.sqrt(np.diag(c))
    c = c / dd[:, None] / dd[None, :]
    cov = c * s[:, None] * s[None, :]
    cov = _f32(cov)
    return (cov + cov.T) / 2.0


def gen_point(ref, names, rng, variant):
    """One parameter point {name: value} for reference distribution ``ref``;
    ``variant`` selects event sizes (shape changes)."""
    n = set(names)
    out = {}

    def logits_or_probs(lo=0.05, hi=0.95):
        if "probs" in n:
            out["probs"] = float(_u(rng, lo, hi))
        if "logits" in n:
            q = rng.uniform(lo, hi)
            out["logits"] = float(_f32(np.log(q / (1 - q))))

    if ref == "bernoulli":
        logits_or_probs()
    elif ref in ("flip", "bernoulli_sum5"):
        out["p"] = float(_u(rng, 0.05, 0.95))
    elif ref == "beta":
        out["concentration1"] = float(_lu(rng, 0.4, 8.0))
        out["concentration0"] = float(_lu(rng, 0.4, 8.0))
    elif ref == "categorical":
        k = [3, 5, 2, 6][variant % 4]
        out["logits"] = _u(rng, -2.5, 2.5, size=k).tolist()
    elif ref == "categorical_probs":
        out["probs"] = _simplex32(rng, [4, 3][variant % 2]).tolist()
    elif ref == "geometric":
        logits_or_probs(0.08, 0.9)
    elif ref in ("normal", "laplace", "cauchy", "gumbel", "logistic"):
        out["loc"] = float(_u(rng, -5, 5))
        out["scale"] = float(_lu(rng, 0.2, 5.0))
    elif ref == "uniform":
        if "low" in n:
            lo = float(_u(rng, -5, 5))
            out["low"] = lo
            out["high"] = float(_f32(lo + float(_lu(rng, 0.2, 10.0))))
    elif ref == "exponential":
        out["rate"] = float(_lu(rng, 0.2, 5.0))
    elif ref == "poisson":
        if "rate" in n:
            out["rate"] = float(_lu(rng, 0.3, 30.0))
        else:
            out["log_rate"] = float(_u(rng, -1.0, 3.3))
    elif ref in ("multivariate_normal", "mvn_tril"):
        d = [2, 3, 4, 2][variant % 4]
        out["loc"] = _u(rng, -3, 3, size=d).tolist()
        cov = _cov(rng, d)
        if ref == "mvn_tril":
            out["scale_tril"] = _f32(np.linalg.cholesky(cov)).tolist()
        else:
            out["covariance_matrix"] = cov.tolist()
    elif ref == "iso_normal":
        d = [3, 2][variant % 2]
        out["loc"] = _u(rng, -3, 3, size=d).tolist()
        out["scale"] = float(_lu(rng, 0.2, 5.0))
    elif ref == "dirichlet":
        k = [3, 2, 4, 3][variant % 4]
        out["concentration"] = _lu(rng, 0.5, 6.0, size=k).tolist()
    elif ref in ("binomial", "beta_binomial"):
        out["total_count"] = float(rng.integers(1, 41))
        if ref == "binomial":
            logits_or_probs()
        else:
            out["concentration1"] = float(_lu(rng, 0.5, 6.0))
            out["concentration0"] = float(_lu(rng, 0.5, 6.0))
    elif ref == "gamma":
        out["concentration"] = float(_lu(rng, 0.4, 10.0))
        if "rate" in n:
            out["rate"] = float(_lu(rng, 0.2, 5.0))
        else:
            out["log_rate"] = float(_u(rng, -1.6, 1.6))
    elif ref == "log_normal":
        out["loc"] = float(_u(rng, -1.0, 1.5))
        out["scale"] = float(_lu(rng, 0.2, 1.2))
    elif ref == "student_t":
        out["df"] = float(_lu(rng, 0.8, 30.0))
        out["loc"] = float(_u(rng, -5, 5))
        out["scale"] = float(_lu(rng, 0.2, 5.0))
    elif ref == "half_normal":
        out["scale"] = float(_lu(rng, 0.2, 5.0))
    elif ref == "inverse_gamma":
        out["concentration"] = float(_lu(rng, 0.7, 8.0))
        out["scale"] = float(_lu(rng, 0.3, 5.0))
    elif ref == "weibull":
        out["concentration"] = float(_lu(rng, 0.5, 5.0))
        out["scale"] = float(_lu(rng, 0.3, 5.0))
    elif ref == "chi2":
        out["df"] = float(_lu(rng, 0.7, 30.0))
    elif ref == "multinomial":
        k = [3, 2, 4, 3][variant % 4]
        out["total_count"] = float(rng.integers(1, 7))
        if "probs" in n:
            out["probs"] = _simplex32(rng, k).tolist()
        else:
            out["logits"] = _u(rng, -2.0, 2.0, size=k).tolist()
    elif ref == "negative_binomial":
        out["total_count"] = float(_lu(rng, 0.5, 15.0))
        logits_or_probs(0.05, 0.85)
    elif ref == "zipf":
        out["power"] = float(_u(rng, 1.8, 4.0))
    elif ref == "triangular":
        out["mode"] = float(_u(rng, 0.1, 0.9))
    else:
        raise KeyError(ref)
    return {k: out[k] for k in names}


def plan(tier, seed):
    cases = []
    npts = POINTS[tier]
    blocks = max(1, npts // BLOCK)
    items = [(f"genjax:{nm}", nm, forms) for nm, forms in FORMS.items()]
    items += [(obj, ref, forms) for obj, (ref, forms) in WRAPPERS.items()]
    for di, (obj, ref, forms) in enumerate(items):
        for fi, (pos, kw) in enumerate(forms):
            for b in range(blocks):
                rng = np.random.default_rng([seed, 13, di, fi, b])
                pts = []
                for j in range(BLOCK):
                    # event sizes are constant inside a case (one trace per configuration) and vary across
                    # call forms and blocks
                    pts.append(gen_point(ref, list(pos) + list(kw), rng, fi + b))
                cases.append({"kind": "dist", "obj": obj, "ref": ref, "pos": list(pos), "kw": list(kw),
                              "block": b, "primary": fi == 0, "points": pts,
                              "key_seed": int(rng.integers(1 << 30))})
    cases.append({"kind": "docs"})
    ngof = sum(7 * len(c["points"]) for c in cases if c["kind"] == "dist")
    if ngof > MAX_GOF:
        raise RuntimeError(f"plan exceeds the Bonferroni budget: {ngof} > {MAX_GOF}")
    # costly (slow to trace / compile) distributions first: the runner deals cases out round-robin, so a list
    # sorted by cost gives balanced shards
    cost = {"multinomial": 10, "binomial": 8, "beta_binomial": 8, "dirichlet": 7, "negative_binomial": 5, "poisson": 4,
            "multivariate_normal": 4, "mvn_tril": 4, "student_t": 4, "beta": 3, "categorical": 3, "gamma": 2, "chi2": 2}
    cases.sort(key=lambda c: -(cost.get(c.get("ref"), 1) * (1.5 if c.get("primary") else 1.0)))
    return cases


# ---------------------------------------------------------------------------
# worker side
# ---------------------------------------------------------------------------
_W = {}
_JIT = {}


def worker_setup(ctx):
    import warnings

    warnings.filterwarnings("ignore")
    import jax
    import jax.numpy as jnp
    import genjax
    import genjax.distributions as D
    from genjax import seed, modular_vmap, tfp_distribution
    from genjax.core import distribution
    from genjax.pjax import wrap_sampler, wrap_logpdf
    from tensorflow_probability.substrates import jax as tfp
    from lib import c13_stats as S

    tfd = tfp.distributions
    _W.update(jax=jax, jnp=jnp, genjax=genjax, D=D, seed=seed, modular_vmap=modular_vmap, S=S)
    R.selftest()
    S.selftest()
    ctx.count("oracle_selftests", 2)

    objs = {f"genjax:{nm}": getattr(D, nm) for nm in FORMS}
    # --- user wrappers through tfp_distribution
    objs["tfp:gumbel"] = tfp_distribution(tfd.Gumbel, name="Gumbel")
    objs["tfp:logistic"] = tfp_distribution(lambda loc, scale: tfd.Logistic(loc=loc, scale=scale), name="Logistic")
    objs["tfp:categorical_probs"] = tfp_distribution(lambda probs: tfd.Categorical(probs=probs), name="CatProbs")
    objs["tfp:mvn_tril"] = tfp_distribution(
        lambda loc, scale_tril: tfd.MultivariateNormalTriL(loc=loc, scale_tril=scale_tril), name="MvnTriL"
    )

    # --- user wrappers through distribution(wrap_sampler(..), wrap_logpdf(..)); the samplers follow the documented
    # keyful contract  (key, *params, sample_shape=..., **kw) -> sample_shape + batch + event
    def tri_sampler(key, mode, sample_shape=()):
        mode = jnp.asarray(mode, dtype=jnp.float32)
        u = jax.random.uniform(key, tuple(sample_shape) + mode.shape)
        return jnp.where(u < mode, jnp.sqrt(u * mode), 1.0 - jnp.sqrt((1.0 - u) * (1.0 - mode)))

    def tri_logpdf(v, mode):
        return jnp.where(v < mode, jnp.log(2.0 * v / mode), jnp.log(2.0 * (1.0 - v) / (1.0 - mode)))

    def iso_sampler(key, loc, scale, sample_shape=()):
        loc = jnp.asarray(loc, dtype=jnp.float32)
        scale = jnp.asarray(scale, dtype=jnp.float32)
        batch = jnp.broadcast_shapes(loc.shape[:-1], scale.shape)
        shape = tuple(sample_shape) + batch + loc.shape[-1:]
        return loc + scale[..., None] * jax.random.normal(key, shape)

    def iso_logpdf(v, loc, scale):
        z = (v - loc) / scale[..., None]
        k = v.shape[-1]
        return jnp.sum(-0.5 * z * z, axis=-1) - k * jnp.log(scale) - 0.5 * k * jnp.log(2 * jnp.pi)

    def sum5_sampler(key, p, sample_shape=()):
        p = jnp.asarray(p, dtype=jnp.float32)
        b = jax.random.bernoulli(key, p, (5,) + tuple(sample_shape) + p.shape)
        return jnp.sum(b.astype(jnp.int32), axis=0)

    def sum5_logpdf(v, p):
        from jax.scipy.special import gammaln

        v = v.astype(jnp.float32)
        return gammaln(6.0) - gammaln(v + 1.0) - gammaln(6.0 - v) + v * jnp.log(p) + (5.0 - v) * jnp.log1p(-p)

    objs["user:triangular"] = distribution(wrap_sampler(tri_sampler, name="Tri"), wrap_logpdf(tri_logpdf), name="Tri")
    objs["user:iso_normal"] = distribution(wrap_sampler(iso_sampler, name="Iso"), wrap_logpdf(iso_logpdf), name="Iso")
    objs["user:bernoulli_sum5"] = distribution(
        wrap_sampler(sum5_sampler, name="Sum5"), wrap_logpdf(sum5_logpdf), name="Sum5"
    )
    _W["objs"] = objs
    ctx.note(
        f"statistical monitors: n={N_DRAWS[ctx.tier]} draws per test, per-test level {ALPHA:.1e} "
        f"(family 1e-9 / {MAX_GOF} tests, Bonferroni); continuous: DKW bound eps="
        f"{S.dkw_eps(N_DRAWS[ctx.tier], ALPHA):.4f} on the Kolmogorov distance of the PIT, i.e. a distortion of the CDF "
        f"by more than ~{S.dkw_eps(N_DRAWS[ctx.tier], ALPHA) + 1.4 / np.sqrt(N_DRAWS[ctx.tier]):.3f} is detected "
        f"(a location error of ~{2.6 * (S.dkw_eps(N_DRAWS[ctx.tier], ALPHA) + 1.4 / np.sqrt(N_DRAWS[ctx.tier])):.2f} sd or a "
        f"scale error of ~{100 * 4.2 * (S.dkw_eps(N_DRAWS[ctx.tier], ALPHA) + 1.4 / np.sqrt(N_DRAWS[ctx.tier])):.0f}%); "
        "discrete: exact binomial tail per pooled cell (expected >= 20), a cell probability off by more than "
        f"~{8.5 / np.sqrt(N_DRAWS[ctx.tier]):.3f}*sqrt(p(1-p)) is detected"
    )


def run_case(case, ctx):
    import time

    t0 = time.process_time()
    try:
        if case["kind"] == "docs":
            return _run_docs(ctx)
        return _run_dist(case, ctx)
    finally:
        ctx.count("cpu_seconds_cases", time.process_time() - t0)


# ---------------------------------------------------------------------------
# helpers
# ---------------------------------------------------------------------------
def _is_raised(x):
    return hasattr(x, "brief") and hasattr(x, "tb")


def _val_dtype(ref):
    if ref == "flip":
        return np.bool_
    if ref in ("categorical", "categorical_probs", "bernoulli", "zipf", "bernoulli_sum5"):
        return np.int32
    return np.float32


def _formkey(pos, kw):
    s = "pos(" + ",".join(pos) + ")" if pos else ""
    if kw:
        s += ("+" if s else "") + "kw(" + ",".join(kw) + ")"
    return s or "defaults()"


def _formkind(kw):
    return "keyword-params" if kw else "positional-params"


def _jparams(pt, names):
    jnp = _W["jnp"]
    return tuple(jnp.asarray(np.asarray(pt[n], dtype=np.float32)) for n in names)


def _refargs(pt, pos, kw):
    return [np.asarray(pt[n], dtype=np.float64) for n in pos], {n: np.asarray(pt[n], dtype=np.float64) for n in kw}


def _callers(d, pos, kw):
    na = len(pos)

    def samp(p, **extra):
        return d.sample(*p[:na], **dict(zip(kw, p[na:])), **extra)

    def logp(v, p):
        return d.logpdf(v, *p[:na], **dict(zip(kw, p[na:])))

    return samp, logp


def _fn(case, cfg, n=None):
    """Jitted callables per (object, form, configuration); traced once per shape."""
    jax, seed, modular_vmap = _W["jax"], _W["seed"], _W["modular_vmap"]
    key = (case["obj"], tuple(case["pos"]), tuple(case["kw"]), cfg, n)
    if key in _JIT:
        return _JIT[key]
    d = _W["objs"][case["obj"]]
    samp, logp = _callers(d, case["pos"], case["kw"])
    k = len(case["pos"]) + len(case["kw"])
    if cfg == "single":
        f = seed(lambda *p: samp(p))  # eager
    elif cfg == "vmap-keys":
        f = jax.jit(jax.vmap(seed(lambda *p: samp(p)), in_axes=(0,) + (None,) * k))
    elif cfg == "sample_shape":
        f = jax.jit(seed(lambda *p: samp(p, sample_shape=(n,))))
    elif cfg == "batched-params":
        f = jax.jit(seed(lambda *p: samp(p)))
    elif cfg == "modular_vmap-lanes":
        f = jax.jit(jax.vmap(seed(modular_vmap(lambda *p: samp(p))), in_axes=(0,) + (None,) * k))
    elif cfg == "modular_vmap-axis_size":
        f = jax.jit(seed(modular_vmap(lambda *p: samp(p), in_axes=None, axis_size=n)))
    elif cfg == "modular_vmap-lanes+sample_shape":
        # n = size of the sample_shape axis; lanes come from the stacked parameters
        f = jax.jit(jax.vmap(seed(modular_vmap(lambda *p: samp(p, sample_shape=(n,)))), in_axes=(0,) + (None,) * k))
    elif cfg == "logpdf-grid":
        f = jax.jit(lambda v, *p: jax.vmap(lambda vi: logp(vi, p))(v))
    elif cfg == "logpdf-modular_vmap":
        f = jax.jit(modular_vmap(lambda v, *p: logp(v, p)))
    else:
        raise KeyError(cfg)
    _JIT[key] = f
    return f


def _pad_pow2(v):
    n = v.shape[0]
    m = 1 << max(4, int(np.ceil(np.log2(max(n, 1)))))
    if m == n:
        return v, n
    pad = np.repeat(v[:1], m - n, axis=0)
    return np.concatenate([v, pad], axis=0), n


def _eval_logpdf(case, ctx, values, jp, ref):
    """genjax logpdf at ``values`` (numpy, reference dtype float64) -> float64 array or Raised."""
    jnp = _W["jnp"]
    v, n = _pad_pow2(np.asarray(values))
    v = jnp.asarray(v.astype(_val_dtype(ref)))
    f = _fn(case, "logpdf-grid")
    out = ctx.call(lambda: np.asarray(f(v, *jp), dtype=np.float64))
    if _is_raised(out):
        return out
    return out[:n]


def _ptjson(pt):
    return json.loads(json.dumps(pt))


def _base_detail(case, pt):
    return {"distribution": case["obj"], "reference": case["ref"], "call_form": _formkey(case["pos"], case["kw"]),
            "params": _ptjson(pt)}


# ---------------------------------------------------------------------------
# monitors
# ---------------------------------------------------------------------------
def _monitor_logpdf(case, ctx, pt, jp):
    ref, fk = case["ref"], _formkey(case["pos"], case["kw"])
    a, k = _refargs(pt, case["pos"], case["kw"])
    grid = R.support_grid(ref, *a, **k)
    got = _eval_logpdf(case, ctx, grid, jp, ref)
    if _is_raised(got):
        ctx.violation(f"{case['obj']}|logpdf|{fk}|raises:{got.type}", {**_base_detail(case, pt), **got.brief()})
        return False
    want, cond = R.logpdf_cond(ref, grid, *a, **k)
    ctx.count("logpdf_points", len(grid))
    err = np.abs(got - want)
    bad = ~(err <= TOL_LOGPDF * (1.0 + cond))
    ctx.distinct("nontrivial", [case["obj"], fk, "logpdf", _ptjson(pt)])
    if bad.any():
        i = int(np.argmax(np.where(bad, np.nan_to_num(err, nan=np.inf), -1)))
        ctx.violation(
            f"{case['obj']}|logpdf|{fk}|value-differs",
            {**_base_detail(case, pt), "value": np.asarray(grid[i]).tolist(), "genjax_logpdf": float(got[i]),
             "reference_logpdf": float(want[i]), "tolerance": float(TOL_LOGPDF * (1 + cond[i])),
             "points_off": int(bad.sum()), "points": int(len(grid))},
        )
        return False
    return True


def _quadrature_nodes(ref, a, k):
    """(values[N(,ev)], weights[N], reference mass outside the nodes' range) or None."""
    S = _W["S"]
    kd = R.kind(ref)
    p = R.bind(ref, *a, **k)
    if kd == "discrete":
        tail = 1e-7 if ref != "zipf" else 5e-6
        vals, pr, tl = R.pmf_table(ref, *a, tail=tail, **k)
        return vals, np.ones(len(vals)), tl
    if ref == "multinomial":
        vals, pr, tl = R.pmf_table(ref, *a, **k)
        return vals, np.ones(len(vals)), 0.0
    if kd == "continuous":
        m = 20000
        fr = R.frozen(ref, *a, **k)
        lo, hi = float(np.min(fr.support()[0])), float(np.max(fr.support()[1]))
        if ref == "uniform":
            x, w = S.nodes_interval(lo, hi, m)
            return x, w, 0.0
        if ref == "triangular":
            c = float(p["mode"])
            x1, w1 = S.nodes_interval(0.0, c, m // 2)
            x2, w2 = S.nodes_interval(c, 1.0, m // 2)
            return np.concatenate([x1, x2]), np.concatenate([w1, w2]), 0.0
        q = 1e-8
        xlo, xhi = float(fr.ppf(q)), float(fr.ppf(1 - q))
        if np.isfinite(lo) and np.isfinite(hi):  # (0,1): beta
            xhi = min(xhi, 1.0 - 2.0**-22)
            xlo = max(xlo, 1e-37)
            x, w = S.nodes_unit(xlo, xhi, m)
        elif np.isfinite(lo):  # (0, inf)
            xlo = max(xlo, 1e-36)
            xhi = min(xhi, 1e37)
            x, w = S.nodes_positive(xlo, xhi, m)
        else:
            xlo, xhi = max(xlo, -1e37), min(xhi, 1e37)
            med, sc = float(fr.ppf(0.5)), float(fr.ppf(0.75) - fr.ppf(0.25)) / 2.0
            x, w = S.nodes_real(med, sc, xlo, xhi, m)
        outside = float(fr.cdf(xlo) + fr.sf(xhi))
        return x, w, outside
    if ref in ("multivariate_normal", "mvn_tril", "iso_normal"):
        loc = p["loc"]
        d = loc.shape[-1]
        L = np.eye(d) * float(p["scale"]) if ref == "iso_normal" else R._chol(p, ref)
        m = {2: 160, 3: 40, 4: 34}[d]
        ax, h = S.midpoints(-8.5, 8.5, m)
        Z = np.stack([g.ravel() for g in np.meshgrid(*([ax] * d), indexing="ij")], axis=-1)
        x = loc + Z @ L.T
        w = np.full(len(Z), h**d * float(np.prod(np.diag(L))))
        from scipy import stats as st

        return x, w, float(st.chi2(d).sf(8.5**2))
    if ref == "dirichlet":
        al = p["concentration"]
        kk = al.shape[-1]
        m = {2: 4000, 3: 500, 4: 80}[kk]
        tlo = [-27.0 / al[i] for i in range(kk - 1)]
        thi = [27.0 / float(np.sum(al[i + 1:])) for i in range(kk - 1)]
        x, w = S.nodes_simplex(tlo, thi, m)
        return x, w, 2e-11 * kk
    return None


def _monitor_norm(case, ctx, pt, jp):
    ref, fk = case["ref"], _formkey(case["pos"], case["kw"])
    a, k = _refargs(pt, case["pos"], case["kw"])
    q = _quadrature_nodes(ref, a, k)
    if q is None:
        ctx.count("normalisation_not_applicable")
        return
    x, w, outside = q
    if outside > MAX_REF_TAIL:
        ctx.count("normalisation_skipped_unrepresentable_tail")
        return
    x32 = np.asarray(x, dtype=np.float32)
    got = _eval_logpdf(case, ctx, x32, jp, ref)
    if _is_raised(got):
        ctx.violation(f"{case['obj']}|normalisation|{fk}|raises:{got.type}", {**_base_detail(case, pt), **got.brief()})
        return
    total = float(np.sum(np.exp(got) * w))
    ctx.count("normalisation_checks")
    ctx.distinct("nontrivial", [case["obj"], fk, "normalisation", _ptjson(pt)])
    if not abs(total - 1.0) <= TOL_NORM:
        ctx.violation(
            f"{case['obj']}|normalisation|{fk}|total-mass-differs",
            {**_base_detail(case, pt), "total_mass_of_exp_logpdf": total, "expected": 1.0, "tolerance": TOL_NORM,
             "reference_mass_outside_nodes": outside, "nodes": int(len(w))},
        )


def _support_problem(ref, x, a, k):
    """None, or a description of draws outside the support (x: float64 array [n(,ev)])."""
    kd = R.kind(ref)
    if not np.all(np.isfinite(x)):
        return {"nonfinite_draws": int(np.sum(~np.isfinite(x)))}
    p = R.bind(ref, *a, **k)
    if kd == "discrete":
        if np.any(x != np.round(x)):
            return {"non_integer_draws": int(np.sum(x != np.round(x)))}
        lo = 1 if ref == "zipf" else 0
        hi = np.inf
        if ref in ("bernoulli", "flip"):
            hi = 1
        elif ref in ("categorical", "categorical_probs"):
            hi = p["logits" if ref == "categorical" else "probs"].shape[-1] - 1
        elif ref in ("binomial", "beta_binomial"):
            hi = float(p["total_count"])
        elif ref == "bernoulli_sum5":
            hi = 5
        if np.any(x < lo) or np.any(x > hi):
            return {"min": float(x.min()), "max": float(x.max()), "support": [lo, hi]}
        return None
    if kd == "continuous":
        fr = R.frozen(ref, *a, **k)
        lo, hi = float(np.min(fr.support()[0])), float(np.max(fr.support()[1]))
        if np.any(x < lo) or np.any(x > hi):
            return {"min": float(x.min()), "max": float(x.max()), "support": [lo, hi]}
        return None
    if ref == "dirichlet":
        s = x.sum(-1)
        if np.any(x < 0) or np.any(np.abs(s - 1.0) > 1e-5):
            return {"min": float(x.min()), "max_abs_sum_minus_1": float(np.max(np.abs(s - 1.0)))}
        return None
    if ref == "multinomial":
        s = x.sum(-1)
        if np.any(x != np.round(x)) or np.any(x < 0) or np.any(s != float(p["total_count"])):
            return {"min": float(x.min()), "row_sums": np.unique(s)[:6].tolist(), "total_count": float(p["total_count"])}
        return None
    return None


def _gof(ref, x, a, k, alpha):
    """Goodness of fit of draws x[n(,ev)] (float64) against the reference."""
    S = _W["S"]
    kd = R.kind(ref)
    n = x.shape[0]
    if kd == "continuous":
        r = S.ks_dkw(R.cdf(ref, x, *a, **k), alpha)
        qs = [0.1, 0.5, 0.9]
        r["observed_quantiles"] = np.quantile(x, qs).tolist()
        r["reference_quantiles"] = np.asarray(R.ppf(ref, qs, *a, **k)).tolist()
        r["test"] = "DKW bound on Kolmogorov distance of the PIT"
        return r
    if kd == "discrete":
        lo = 1 if ref == "zipf" else 0
        vals, pr, tl = R.pmf_table(ref, *a, tail=1e-6, max_points=5000, **k)
        xi = x.astype(np.int64) - lo
        inside = (xi >= 0) & (xi < len(vals))
        counts = np.bincount(xi[inside], minlength=len(vals))
        r = S.cells_exact(counts, pr, n, alpha, tail_prob=tl, tail_count=int(np.sum(~inside)))
        mean_ref = float(np.sum(vals * pr))
        r["observed_mean"] = float(x.mean())
        r["reference_mean_over_table"] = mean_ref
        r["test"] = "exact binomial tail per pooled cell (Pearson X^2 reported)"
        return r
    if ref == "multinomial":
        vals, pr, _ = R.pmf_table(ref, *a, **k)
        base = int(vals.max()) + 2
        code = lambda rows: (rows.astype(np.int64) * (base ** np.arange(rows.shape[-1]))).sum(-1)
        cv = code(vals)
        order = np.argsort(cv)
        cx = code(x)
        pos = np.searchsorted(cv[order], cx)
        pos = np.clip(pos, 0, len(cv) - 1)
        hit = cv[order][pos] == cx
        counts = np.bincount(order[pos[hit]], minlength=len(vals))
        # most probable outcomes first so that pooling merges the rare ones
        o2 = np.argsort(-pr)
        r = S.cells_exact(counts[o2], pr[o2], n, alpha, tail_prob=0.0, tail_count=int(np.sum(~hit)))
        r["observed_mean"] = x.mean(0).tolist()
        r["reference_mean"] = (vals * pr[:, None]).sum(0).tolist()
        r["test"] = "exact binomial tail per pooled outcome cell"
        return r
    z = R.to_normal(ref, x, *a, **k)
    r = S.iid_normal(z, alpha)
    r["observed_mean"] = x.mean(0).tolist()
    r["observed_cov_diag"] = x.var(0).tolist()
    r["test"] = "Rosenblatt/whitening to iid N(0,1): DKW on columns, pair sums/differences, squared radius"
    return r


def _expected_dtype_ok(ref, dt):
    dt = np.dtype(dt)
    if ref == "flip":
        return dt == np.bool_, "bool"
    kd = R.kind(ref)
    if kd in ("continuous", "mv_continuous"):
        return dt == np.float32, "float32"
    if ref in ("categorical", "categorical_probs", "bernoulli", "zipf", "bernoulli_sum5"):
        return dt.kind == "i", "a signed integer type"
    return dt.kind in "if" and dt.itemsize == 4, "float32 (parameter dtype) or int32"


def _emit(ctx, key, detail):
    """At most 3 written-out violations per (case, key); the rest are counted."""
    seen = _W.setdefault("emitted", {})
    k = ((ctx.case or {}).get("index"), key)
    seen[k] = seen.get(k, 0) + 1
    if seen[k] <= 3:
        ctx.violation(key, detail)
    else:
        ctx.count("violations_not_written_out_same_case_and_key")


def _nonfinite_budget(n):
    """Largest count of non-finite draws among n that the exact test of H0 'frequency <= 1e-5' accepts at ALPHA."""
    cache = _W.setdefault("nf_budget", {})
    if n not in cache:
        from scipy import stats as st

        k = 0
        while st.binom.sf(k, n, 1e-5) > ALPHA:
            k += 1
        cache[n] = k
    return cache[n]


def _check_sample(case, ctx, cfg, out, exp_shape, lanes, base_ok, what):
    import time

    t0 = time.process_time()
    try:
        return _check_sample_(case, ctx, cfg, out, exp_shape, lanes, base_ok, what)
    finally:
        ctx.count("cpu_seconds_oracle_sample", time.process_time() - t0)


REBOUND_KEY = "sample|modular_vmap|keyword-params|keywords-rebound-positionally"


def _check_sample_(case, ctx, cfg, out, exp_shape, lanes, base_ok, what):
    """Shape, dtype, support and goodness of fit of one sampler output.

    ``lanes``: list of (lane selector or None, point) -- the GOF is run per lane.
    Violation keys name the mechanism: a failure of the basic configuration (vmap over keys, scalar parameters)
    is keyed by distribution and call form; a failure of another configuration while the basic one agreed is a
    plumbing failure and is keyed by configuration and kind of call form only.  Returns True iff all agreed."""
    ref, fk = case["ref"], _formkey(case["pos"], case["kw"])
    generic = cfg != "vmap-keys" and base_ok
    head = f"sample|{cfg}|{_formkind(case['kw'])}" if generic else f"{case['obj']}|sample|{cfg}|{fk}"
    pt0 = lanes[0][1]
    det = {**_base_detail(case, pt0), "configuration": what}
    vmap_kw = generic and bool(case["kw"]) and cfg.startswith("modular_vmap")

    def report(quantity, detail, pt, xl):
        if vmap_kw:
            ex = _rebinding_explains(case, pt, xl, quantity)
            detail = {**detail, "failure": quantity, "explained_by_keywords_rebound_positionally_in_sorted_order": ex}
            if ex:
                _emit(ctx, REBOUND_KEY, detail)
                return
        _emit(ctx, f"{head}|{quantity}", detail)

    if _is_raised(out):
        report(f"raises:{out.type}", {**det, **out.brief()}, pt0, None)
        return False
    ctx.count("shape_checks")
    ctx.distinct("nontrivial", [case["obj"], fk, cfg, _ptjson(pt0)])
    arr = np.asarray(out)
    ok = True
    if tuple(arr.shape) != tuple(exp_shape):
        report("shape", {**det, "observed_shape": list(arr.shape), "expected_shape": list(exp_shape)}, pt0, None)
        return False
    dok, dwant = _expected_dtype_ok(ref, arr.dtype)
    if not dok:
        _emit(ctx, f"{head}|dtype", {**det, "observed_dtype": str(arr.dtype), "expected_dtype": dwant})
        ok = False
    x = arr.astype(np.float64)
    ev_nd = 1 if R.kind(ref).startswith("mv_") else 0
    for sel, pt in lanes:
        xl = x if sel is None else x[sel]
        a, k = _refargs(pt, case["pos"], case["kw"])
        # float32 resolution of the wrapped sampler (ASSUMPTIONS): a non-finite draw is tolerated while the exact
        # binomial test of "frequency <= 1e-5" is not rejected; such draws are counted and left out of the fit
        nf = ~np.isfinite(xl)
        if nf.any():
            has_draw_axis = xl.ndim > ev_nd
            bad = nf.reshape(xl.shape[0], -1).any(1) if has_draw_axis else np.array([True])
            ndraw = xl.shape[0] if has_draw_axis else 1
            if int(bad.sum()) <= _nonfinite_budget(ndraw):
                ctx.count("nonfinite_draws_tolerated", int(bad.sum()))
                if not has_draw_axis:
                    continue
                xl = xl[~bad]
        sp_ = _support_problem(ref, xl, a, k)
        if sp_ is not None:
            report("outside-support", {**_base_detail(case, pt), "configuration": what, **sp_}, pt,
                   xl if xl.ndim > ev_nd else None)
            ok = False
            continue
        if xl.ndim == ev_nd or xl.shape[0] < 1000:
            continue  # shape / dtype / support only
        r = _gof(ref, xl, a, k, ALPHA)
        ctx.count("gof_tests")
        ctx.count("draws_tested", int(xl.shape[0]))
        if not r["ok"]:
            d2 = {**_base_detail(case, pt), "configuration": what, "lane": None if sel is None else str(sel), **r}
            report("distribution-differs", d2, pt, xl)
            ok = False
    return ok


def _rebinding_explains(case, pt, xl, quantity):
    """Mechanism classifier for keyword call forms under modular_vmap: is the observed failure what the REFERENCE
    predicts when the keyword parameters are passed positionally, in pytree (sorted-key) order, after the
    positional ones?  True: the draws fit that law, or that binding is outside the parameter domain and the
    failure is a raise / wrong shape / non-finite or out-of-support draws."""
    ref = case["ref"]
    names = list(case["pos"]) + sorted(case["kw"])
    sig = R.SIG[ref]
    if len(names) > len(sig):
        return False
    rebound = {sig[i]: np.asarray(pt[nm], dtype=np.float64) for i, nm in enumerate(names)}
    if all(sig[i] == nm for i, nm in enumerate(names)):
        return False  # rebinding would not change the meaning
    valid = True
    try:
        with np.errstate(all="ignore"):
            g = R.support_grid(ref, **rebound)
            lp = R.logpdf(ref, g, **rebound)
        valid = len(g) > 0 and bool(np.all(np.isfinite(lp)))
    except Exception:  # noqa: BLE001  the rebound parameters are not a valid parameter point
        valid = False
    if not valid:
        return quantity != "distribution-differs"
    if xl is None or xl.shape[0] < 1000:
        return False
    try:
        with np.errstate(all="ignore"):
            if _support_problem(ref, xl, [], rebound) is not None:
                return False
            return bool(_gof(ref, xl, [], rebound, ALPHA)["ok"])
    except Exception:  # noqa: BLE001
        return False


def _groups(case):
    """Indices of points grouped by parameter shapes (lanes must stack)."""
    names = case["pos"] + case["kw"]
    out = {}
    for i, pt in enumerate(case["points"]):
        sig = tuple(np.asarray(pt[n]).shape for n in names)
        out.setdefault(sig, []).append(i)
    return list(out.values())


def _run_dist(case, ctx):
    jax, jnp = _W["jax"], _W["jnp"]
    ref, obj, pos, kw = case["ref"], case["obj"], case["pos"], case["kw"]
    names = pos + kw
    fk = _formkey(pos, kw)
    n = N_DRAWS[ctx.tier]
    k0 = jax.random.key(case["key_seed"])
    ctx.evaluation()
    if obj.startswith("genjax:"):
        if case["block"] == 0 and case["pos"] == FORMS[ref][0][0] and case["kw"] == FORMS[ref][0][1]:
            ctx.count("distributions_reached")
    elif case["block"] == 0 and (pos, kw) == tuple(WRAPPERS[obj][1][0]):
        ctx.count("wrapper_cases")
    base_ok, lp_ok = {}, {}
    for i, pt in enumerate(case["points"]):
        jp = _jparams(pt, names)
        a, k = _refargs(pt, pos, kw)
        bshape, ev = R.batch_event_shape(ref, *a, **k)
        assert bshape == (), bshape
        kk = jax.random.fold_in(k0, i)
        # ---- (1) log density on the support grid, (2) normalisation
        lp_ok[i] = _monitor_logpdf(case, ctx, pt, jp)
        if lp_ok[i]:
            _monitor_norm(case, ctx, pt, jp)
        # ---- (3) sampler
        f = _fn(case, "vmap-keys")
        keys = jax.random.split(jax.random.fold_in(kk, 1), n)
        out = ctx.call(lambda: np.asarray(f(keys, *jp)))
        base_ok[i] = _check_sample(case, ctx, "vmap-keys", out, (n,) + ev, [(None, pt)], True,
                                   f"jax.vmap(seed(lambda *p: d.sample(...)))(keys[{n}], *params)")
        if i == 0 and case["primary"]:
            f = _fn(case, "single")
            out = ctx.call(lambda: np.asarray(f(jax.random.fold_in(kk, 2), *jp)))
            _check_sample(case, ctx, "single", out, ev, [(None, pt)], base_ok[i], "seed(d.sample)(key, *params), eager")
        f = _fn(case, "sample_shape", n)
        out = ctx.call(lambda: np.asarray(f(jax.random.fold_in(kk, 3), *jp)))
        _check_sample(case, ctx, "sample_shape", out, (n,) + ev, [(None, pt)], base_ok[i],
                      f"seed(lambda *p: d.sample(..., sample_shape=({n},)))(key, *params)")
        if not (case["primary"] or not names):
            continue  # axis_size-only vmap shares the batching rule exercised by the lane configuration below
        f = _fn(case, "modular_vmap-axis_size", n)
        out = ctx.call(lambda: np.asarray(f(jax.random.fold_in(kk, 4), *jp)))
        _check_sample(case, ctx, "modular_vmap-axis_size", out, (n,) + ev, [(None, pt)], base_ok[i],
                      f"seed(modular_vmap(lambda *p: d.sample(...), in_axes=None, axis_size={n}))(key, *params)")
    if not names:
        return
    # ---- lanes: batched parameters and modular_vmap over parameter lanes
    for g in _groups(case):
        pts = [case["points"][i] for i in g]
        B = len(pts)
        lanes_p = tuple(jnp.asarray(np.stack([np.asarray(p[nm], dtype=np.float32) for p in pts])) for nm in names)
        a0, k0_ = _refargs(pts[0], pos, kw)
        ev = R.batch_event_shape(ref, *a0, **k0_)[1]
        allbase = all(base_ok.get(i, False) for i in g)
        kk = jax.random.fold_in(k0, 1000 + g[0])
        # logpdf lane-wise under modular_vmap
        vals = []
        for p in pts:
            a, k = _refargs(p, pos, kw)
            grid = R.support_grid(ref, *a, **k)
            vals.append(np.asarray(grid[len(grid) // 3]))
        vv = jnp.asarray(np.stack(vals).astype(_val_dtype(ref)))
        f = _fn(case, "logpdf-modular_vmap")
        got = ctx.call(lambda: np.asarray(f(vv, *lanes_p), dtype=np.float64))
        head = (f"logpdf|modular_vmap|{_formkind(kw)}" if all(lp_ok.get(i, False) for i in g)
                else f"{obj}|logpdf-modular_vmap|{fk}")
        if _is_raised(got):
            ctx.violation(f"{head}|raises:{got.type}", {**_base_detail(case, pts[0]), **got.brief()})
        else:
            ctx.count("logpdf_vmap_checks")
            for li, p in enumerate(pts):
                a, k = _refargs(p, pos, kw)
                want, cond = R.logpdf_cond(ref, vals[li], *a, **k)
                if got.shape != (B,) or not abs(got[li] - want) <= TOL_LOGPDF * (1 + cond):
                    ctx.violation(
                        f"{head}|value-differs",
                        {**_base_detail(case, p), "lane": li, "value": np.asarray(vals[li]).tolist(),
                         "genjax_logpdf": got.tolist(), "reference_logpdf_of_lane": float(want)},
                    )
                    break
        # modular_vmap over lanes, vmapped over keys
        f = _fn(case, "modular_vmap-lanes")
        keys = jax.random.split(jax.random.fold_in(kk, 3), n)
        out = ctx.call(lambda: np.asarray(f(keys, *lanes_p)))
        _check_sample(case, ctx, "modular_vmap-lanes", out, (n, B) + ev,
                      [((slice(None), li), p) for li, p in enumerate(pts)], allbase,
                      f"jax.vmap(seed(modular_vmap(lambda *p: d.sample(...))))(keys[{n}], *params stacked to {B} lanes)")
        # lanes of ONE vectorised call are independent draws: rank correlation of lane a with lane b over the keys
        # (permutation null: var(r) = 1/(n-1) exactly, ties included); a shared key makes the ranks coincide
        if not _is_raised(out) and np.asarray(out).shape[:2] == (n, B) and B >= 2:
            o = np.asarray(out).astype(np.float64).reshape(n, B, -1)[:, :, 0]
            for a_, b_ in [(0, 1)] + ([(1, 2)] if B >= 3 else []):
                xa, xb = o[:, a_], o[:, b_]
                if not (np.all(np.isfinite(xa)) and np.all(np.isfinite(xb))) or np.ptp(xa) == 0 or np.ptp(xb) == 0:
                    continue
                from scipy.stats import rankdata

                ra, rb = rankdata(xa), rankdata(xb)
                r = float(np.corrcoef(ra, rb)[0, 1])
                z = r * np.sqrt(n - 1)
                ctx.count("lane_independence_tests")
                if abs(z) > 7.0:
                    _emit(ctx, f"sample|modular_vmap-lanes|{_formkind(kw)}|lanes-of-one-call-are-dependent",
                          {**_base_detail(case, pts[a_]), "lanes": [a_, b_], "rank_correlation": r, "z": float(z), "keys": n,
                           "threshold_z": 7.0})
        if not case["primary"]:
            continue  # the remaining configurations do not depend on how the parameters are named
        # modular_vmap over parameter lanes of a site that also has a sample_shape: lanes lead, then the sample axis.
        # Square (sample axis == lane count: a transposed layout keeps the shape, only the law per lane tells) and
        # non-square (the shape tells).
        for S_ in (B, B + 1):
            nk = max(1, n // (4 * S_))
            f = _fn(case, "modular_vmap-lanes+sample_shape", S_)
            keys = jax.random.split(jax.random.fold_in(kk, 5 + S_), nk)
            out = ctx.call(lambda: np.asarray(f(keys, *lanes_p)))
            what = (f"jax.vmap(seed(modular_vmap(lambda *p: d.sample(..., sample_shape=({S_},)))))(keys[{nk}], "
                    f"*params stacked to {B} lanes)")
            want_shape = (nk, B, S_) + ev
            if _is_raised(out) or tuple(np.asarray(out).shape) != want_shape:
                _check_sample(case, ctx, "modular_vmap-lanes+sample_shape", out, want_shape,
                              [(None, pts[0])], allbase, what)
            else:
                # (keys, lanes, sample axis) -> (keys * sample axis, lanes): every draw of lane li must follow lane li
                o2 = np.moveaxis(np.asarray(out), 2, 1).reshape((nk * S_, B) + ev)
                _check_sample(case, ctx, "modular_vmap-lanes+sample_shape", o2, (nk * S_, B) + ev,
                              [((slice(None), li), p) for li, p in enumerate(pts)], allbase, what)
        # batched parameters, no sample_shape
        f = _fn(case, "batched-params")
        out = ctx.call(lambda: np.asarray(f(jax.random.fold_in(kk, 1), *lanes_p)))
        _check_sample(case, ctx, "batched-params", out, (B,) + ev, [(li, p) for li, p in enumerate(pts)], allbase,
                      f"seed(d.sample)(key, *params stacked to {B} lanes)")
        # batched parameters + sample_shape
        f = _fn(case, "sample_shape", n)
        out = ctx.call(lambda: np.asarray(f(jax.random.fold_in(kk, 2), *lanes_p)))
        _check_sample(case, ctx, "batched-params+sample_shape", out, (n, B) + ev,
                      [((slice(None), li), p) for li, p in enumerate(pts)], allbase,
                      f"seed(lambda *p: d.sample(..., sample_shape=({n},)))(key, *params stacked to {B} lanes)")
    if case.get("index", 0) % 9 == 0:
        ctx.sample({"distribution": obj, "call_form": fk, "first_point": _ptjson(case["points"][0]), "draws_per_test": n,
                    "vmap_keys_agreed": bool(base_ok.get(0))})


# ---------------------------------------------------------------------------
# documentation probes: discrepancies the property does not speak about -> notes
# ---------------------------------------------------------------------------
def _run_docs(ctx):
    import genjax
    import inspect

    D = _W["D"]
    jnp = _W["jnp"]
    ctx.evaluation()
    src = inspect.getsource(D)

    def raises(f):
        r = ctx.call(f)
        return r.type if _is_raised(r) else None

    ctx.count("doc_probes")
    missing = [n for n in FORMS if not hasattr(genjax, n)]
    if missing:
        ctx.note(f"doc: {missing} defined in genjax/distributions.py but not re-exported by genjax/__init__.py "
                 "(the 24 distributions checked are those of genjax.distributions)")
    if "k ∈ {1, 2, 3, ...}" in src:
        lp0 = ctx.call(lambda: float(D.geometric.logpdf(0.0, probs=0.25)))
        if not _is_raised(lp0) and np.isfinite(lp0):
            ctx.note("doc: geometric docstring states support {1,2,...} (trials until first success); the code and "
                     f"property C13 count failures before the first success (logpdf(0; p=.25) = {lp0:.4f} = log .25)")
    if "Number of successes" in src:
        lp = ctx.call(lambda: float(D.negative_binomial.logpdf(2.0, 1.0, probs=0.25)))
        if not _is_raised(lp):
            ctx.note("doc: negative_binomial docstring calls total_count 'number of successes' and probs 'probability of "
                     f"success'; the code scores k successes before total_count FAILURES: logpdf(2; r=1, p=.25) = {lp:.4f}, "
                     f"log(p^2 (1-p)) = {np.log(0.25**2 * 0.75):.4f}, log((1-p)^2 p) = {np.log(0.75**2 * 0.25):.4f}")
    for nm, kwn, a in (("exponential", "scale", ()), ("gamma", "scale", (2.0,)), ("inverse_gamma", "rate", (2.0,))):
        t = raises(lambda: getattr(D, nm).logpdf(1.0, *a, **{kwn: 2.0}))
        if t:
            ctx.note(f"doc: {nm} docstring documents keyword '{kwn}=' but the call raises {t}")
    t = raises(lambda: D.student_t.logpdf(0.5, 3.0))
    if t:
        ctx.note(f"doc: student_t docstring gives defaults loc=0, scale=1 but student_t.logpdf(x, df) raises {t}")
    t = raises(lambda: D.binomial.logpdf(1.0, 10, probs=0.3))
    if t:
        ctx.note(f"doc: binomial docstring says total_count is an integer; a Python/int32 integer raises {t} "
                 "(must be passed as float)")
    v = ctx.call(lambda: float(D.inverse_gamma.logpdf(2.0, 1.0, scale=3.0)))
    if not _is_raised(v):
        ctx.note("doc: inverse_gamma docstring describes the 2nd parameter as 'rate' and scale as 1/rate; the code's "
                 f"2nd parameter is the scale b of b^a/Gamma(a) x^(-a-1) exp(-b/x): logpdf(2; 1, scale=3) = {v:.4f} "
                 f"(= log(3/4) - 3/2 = {np.log(0.75) - 1.5:.4f})")
    ctx.note("doc: sample dtype of the count distributions (geometric, poisson, binomial, negative_binomial, multinomial) "
             "is float32 (the parameter dtype), bernoulli/categorical/zipf int32, flip bool")
