"""C15 — on deterministic code ADEV is ordinary forward-mode AD, for any argument shape.

Differential runtime monitoring with JAX's own AD as the oracle.  A seeded
generator (``lib/c15_progs.py``) produces deterministic JAX programs: random
expression DAGs over arithmetic, unary math, indexing / slicing / dynamic_slice /
gather / scatter, reductions, dot / matmul / transpose / reshape / broadcast /
concatenate, jnp.linalg and lax.linalg pieces, integer and boolean intermediates
(argmax, comparisons, where, astype round trips), dtype conversions, lax.cond
(every style of operand passing, nested, each branch taken), nested / jitted /
vmapped / rematerialised inner functions, closed-over constants, over scalar,
array, python-float and pytree (tuple / dict) arguments.  The SAME Python
function ``f`` is given to JAX and to ``genjax.adev.expectation``:

  jvp      expectation(f).jvp_estimate(*dual_trees)  vs  jax.jvp(f, primals, tangents)
  grad     expectation(f).grad_estimate(*args)       vs  jax.grad(f, argnums=all)(*args)
  estimate expectation(f).estimate(*args)            vs  f(*args)

An exception out of genjax where JAX succeeds is a violation ``...|raises:<Type>``.
On a failure the harness bisects over prefixes of the program to name the
operation class that first makes the entry point fail (the key's middle field).
"""

from __future__ import annotations

import numpy as np

from lib import c15_progs as P

PROPERTY = "C15"
LEVEL = "exploration"
RULE = (
    "programs drawn from VERIF_SEED by lib/c15_progs.gen_program (3-9 top-level operations quick, 3-12 thorough, "
    "nested cond / call bodies to depth 2) in four argument profiles (scalar, array, pytree, int-or-bool leaves), "
    "each run on 2 (quick) / 4 (thorough) argument sets that flip the control scalar so both branches of a cond are "
    "taken; distinct_nontrivial = distinct structural signatures (operations, wiring, shapes, argument trees) of "
    "programs with >= 3 operations and at least one array-valued or pytree argument"
)
ASSUMPTIONS = [
    "JAX's own AD (jax.jvp / jax.grad on the same Python function, same process, float32) is the reference",
    "agreement is up to 64 float32 ulps of the largest intermediate magnitude of the reference computation "
    "(cond continuations are compiled as one XLA computation by ADEV, so bitwise equality is not demanded)",
    "a value mismatch is discarded (and counted) when JAX's own result at those arguments differs between jax.jit and "
    "op-by-op execution by more than the tolerance (tie within rounding error of a comparison / argmax / max)",
    "arguments with integer / boolean leaves are outside jax.grad's domain: only jvp_estimate and estimate are checked there",
    "lax.switch with > 2 branches, scan / while loops and custom_vjp functions are not in the pool (not named by the property)",
    "JAX API translation layer (DESIGN §2)",
]
FLOORS = {
    "quick": {
        "jvp_checks": 400, "grad_checks": 300, "estimate_checks": 400, "estimate_scalar_checks": 60,
        "cond_true_taken": 40, "cond_false_taken": 40, "cases_pytree_args": 60, "cases_array_args": 100,
        "programs_with_int_or_bool_values": 100, "jvp_agree": 200, "grad_agree": 150,
    },
    "thorough": {
        "jvp_checks": 8000, "grad_checks": 6000, "estimate_checks": 8000, "estimate_scalar_checks": 1200,
        "cond_true_taken": 800, "cond_false_taken": 800, "cases_pytree_args": 600, "cases_array_args": 1000,
        "programs_with_int_or_bool_values": 1000, "jvp_agree": 4000, "grad_agree": 3000,
    },
}
TIMEOUT_S = {"quick": 2700, "thorough": 10800}  # watchdog only (idle 16 cores: ~1 min / ~11 min)
CASE_BUDGET_S = 60

ULPS = 64
EPS = float(np.finfo(np.float32).eps)
PROFILES = ["scalar", "array", "array", "pytree", "pytree", "int"]
# Operation classes that failed on the snapshot tree (custom_jvp functions called at top level, lax.top_k /
# lax.sort_key_val, cond with several outputs or with an operand forwarded to its output: all repaired by fix commits)
# or still fail (singular derivative at a symbolic-zero value: known finding).  They are generated at top level only,
# so that the bisection names the class and not an enclosing cond / call.
INCLUDE_FAIL_PRONE_CLASSES = True
EAGER_EVERY = 20  # every 20th program runs op by op (as at a prompt, ~10x the cost: one XLA compile per primitive);
# the others under jax.jit, oracle and genjax alike


def plan(tier, seed):
    n_prog = 300 if tier == "quick" else 3000
    n_sets = 2 if tier == "quick" else 4
    max_nodes = 9 if tier == "quick" else 12
    cases = []
    for sp in P.special_programs():
        cases.append({"spec": sp, "vseed": [int(seed), 15, 100000 + len(cases)], "n_argsets": n_sets, "ctl_bit": 0,
                      "profile": "special", "mode": "eager"})
    for i in range(n_prog):
        rng = np.random.default_rng([int(seed), 15, i])
        prof = PROFILES[int(rng.integers(len(PROFILES)))]
        n_nodes = int(rng.integers(3, max_nodes + 1))
        spec = P.gen_program(rng, prof, n_nodes, depth=2, allow_fail_ops=INCLUDE_FAIL_PRONE_CLASSES, int_out=bool(rng.random() < 0.08))
        cases.append({"spec": spec, "vseed": [int(seed), 15, i], "n_argsets": n_sets, "ctl_bit": i % 2, "profile": prof,
                      "mode": "eager" if i % EAGER_EVERY == 0 else "jit"})
    return cases


# ---------------------------------------------------------------------------
# worker side
# ---------------------------------------------------------------------------
_W = {}


def worker_setup(ctx):
    import jax
    import jax.numpy as jnp
    import jax.tree_util as jtu
    from genjax.adev import Dual, expectation

    _W.update(jax=jax, jnp=jnp, jtu=jtu, Dual=Dual, expectation=expectation)
    ctx.note(
        f"tolerance: |genjax - jax| <= {ULPS} * eps_f32 * max(|reference|, largest intermediate magnitude of the "
        "reference run); a dropped / swapped / stale term moves a value by O(1) of an intermediate, i.e. ~1e5 tolerances"
    )


def _to_jax(tree):
    jnp = _W["jnp"]

    def conv(v):
        if v is None or isinstance(v, float):
            return v
        return jnp.asarray(v)

    if isinstance(tree, tuple):
        return tuple(_to_jax(t) for t in tree)
    if isinstance(tree, dict):
        return {k: _to_jax(v) for k, v in tree.items()}
    return conv(tree)


def _np(tree):
    f0 = _W["jax"].dtypes.float0
    return _W["jtu"].tree_map(lambda v: "float0" if np.asarray(v).dtype == f0 else np.asarray(v).tolist(), tree)


def _mag(x):
    """largest finite magnitude of a float array (0 for anything else)."""
    a = np.asarray(x)
    if a.dtype.kind != "f" or a.size == 0:
        return 0.0
    a = np.abs(a.astype(np.float64))
    a = a[np.isfinite(a)]
    return float(a.max()) if a.size else 0.0


def _cmp(got, ref, scale, ctx, bucket):
    """None if ``got`` agrees with ``ref``; otherwise a short reason."""
    jax = _W["jax"]
    try:
        g = np.asarray(got)
    except Exception:  # noqa: BLE001
        return "not-an-array"
    r = np.asarray(ref)
    if g.shape != r.shape:
        return "shape"
    if g.dtype != r.dtype:
        return "dtype"
    if r.dtype == jax.dtypes.float0:
        return None
    if r.dtype.kind in "biu":
        return None if np.array_equal(g, r) else "value"
    g64, r64 = g.astype(np.float64), r.astype(np.float64)
    gn, rn = np.isnan(g64), np.isnan(r64)
    if (gn & ~rn).any():
        return "nan-where-finite"
    if (~gn & rn).any():
        return "finite-where-nan"
    ok = ~rn
    gi, ri = np.isinf(g64) & ok, np.isinf(r64) & ok
    if (gi != ri).any() or (gi & (np.sign(g64) != np.sign(r64))).any():
        return "value"
    ok = ok & ~ri
    if not ok.any():
        return None
    err = float(np.max(np.abs(g64[ok] - r64[ok])))
    s = max(scale, float(np.max(np.abs(r64[ok]))), 1e-30)
    ratio = err / (EPS * s)
    if bucket:
        if err == 0.0:
            ctx.count(bucket + "_bitwise")
        elif ratio <= 4:
            ctx.count(bucket + "_le4ulp")
        elif ratio <= ULPS:
            ctx.count(bucket + "_le64ulp")
    if ratio > ULPS:
        return "value"
    return None


def _block(x):
    return _W["jax"].block_until_ready(x)


def _vw(why):
    return "value" if why == "value" else "value-" + why


def _guard(ctx, fn):
    """Run a genjax entry point.  ``ctx.call`` recognises exceptions whose traceback passes through genjax; under
    jax.jit an ill-formed *result* of genjax (e.g. a symbolic Zero left in a Dual) only blows up after genjax's frames
    are gone.  The oracle has already pushed the same function and arguments through the same wrappers, so anything
    raised here is the code under test's doing as well."""
    from lib.worker import Raised
    import traceback

    try:
        return ctx.call(fn)
    except Exception as e:  # noqa: BLE001
        return Raised(e, traceback.format_exc())


def _fill_float0(tree, a, t):
    """Tangent tree for jax.jvp / Dual trees: given float tangents, float0 zeros for int / bool leaves."""
    jax = _W["jax"]
    if tree["k"] == "tuple":
        return tuple(_fill_float0(tt, x, y) for tt, x, y in zip(tree["items"], a, t))
    if tree["k"] == "dict":
        return {nm: _fill_float0(tree["items"][nm], a[nm], t[nm]) for nm in sorted(tree["items"])}
    if tree["k"] == "leaf" and tree["dt"] != "f":
        return np.zeros(tuple(tree["sh"]), dtype=jax.dtypes.float0)
    return t


class _Run:
    """One program (or a prefix of one) bound to its oracle and to genjax.

    mode "eager": every call below runs op by op, as at a Python prompt;
    mode "jit":   every call (oracle and genjax alike) is wrapped in jax.jit.
    """

    def __init__(self, spec, consts, mode):
        jax, jnp = _W["jax"], _W["jnp"]
        self.spec = spec
        self.mode = mode
        self.holder = {"rec": None, "conds": None}
        self.f = f = P.build_fn(spec, consts, self.holder)
        self.e = e = _W["expectation"](f)
        self.nargs = n = len(spec["args"])
        trees = spec["args"]
        leaves = [t for a in trees for _, t in P.arg_leaves(a)]
        self.gradable = spec["out"]["kind"] == "float" and all(t["k"] == "py" or t["dt"] == "f" for t in leaves)
        Dual = _W["Dual"]
        holder = self.holder
        wrap = jax.jit if mode == "jit" else (lambda fn: fn)

        def tans_of(args, ftans):
            return tuple(_fill_float0(tr, a, t) for tr, a, t in zip(trees, args, ftans))

        def with_nodes(*a):
            holder["rec"], holder["conds"] = [], []
            out = f(*a)
            rec, conds = holder["rec"], holder["conds"]
            holder["rec"], holder["conds"] = None, None
            return out, (rec, conds)

        self.with_nodes = with_nodes

        def oracle_jvp(args, ftans):
            def fa(*a):
                out, (rec, conds) = with_nodes(*a)
                fl = [v for v in rec if jnp.issubdtype(v.dtype, jnp.floating)]
                return out, fl, [c.astype(jnp.int32) for c in conds]

            (out, nodes, conds), (tout, tnodes, _) = jax.jvp(fa, tuple(args), tans_of(args, ftans))
            sp = jnp.max(jnp.stack([jnp.float32(0.0)] + [jnp.max(jnp.abs(jnp.where(jnp.isfinite(v), v, 0.0)), initial=0.0) for v in nodes]))
            st = jnp.max(jnp.stack([jnp.float32(0.0)] + [jnp.max(jnp.abs(jnp.where(jnp.isfinite(v), v, 0.0)), initial=0.0) for v in tnodes]))
            return out, tout, sp, st, conds

        self.fns = {
            "val": wrap(lambda args: f(*args)),
            "jvp": wrap(oracle_jvp),
            "grad": wrap(lambda args: jax.grad(f, argnums=tuple(range(n)))(*args)),
            "g_estimate": wrap(lambda args: e.estimate(*args)),
            "g_jvp": wrap(lambda args, ftans: e.jvp_estimate(*[Dual.dual_tree(a, t) for a, t in zip(args, tans_of(args, ftans))])),
            "g_grad": wrap(lambda args: e.grad_estimate(*args)),
        }

    # ---- oracle
    def oracle(self, args, ftans, want_grad):
        jtu = _W["jtu"]
        val = _block(self.fns["val"](tuple(args)))
        p, t, sp, st, conds = _block(self.fns["jvp"](tuple(args), tuple(ftans)))
        sp, st = max(float(sp), _mag(val)), float(st)
        out = {"val": val, "jvp": (p, t), "sp": sp, "st": st, "conds": conds, "grad": None}
        if want_grad and self.gradable:
            g = _block(self.fns["grad"](tuple(args)))
            out["grad"] = g if self.nargs > 1 else g[0]
            gm = max([_mag(x) for x in jtu.tree_leaves(g)] + [0.0])
            out["sg"] = max(gm, st, sp)
        return out

    # ---- entry points of the code under test; return (reason | None, observed)
    def check(self, entry, args, ftans, orc, ctx, bucket=True):
        Dual, jtu = _W["Dual"], _W["jtu"]
        if entry == "estimate":
            r = _guard(ctx, lambda: _block(self.fns["g_estimate"](tuple(args))))
            if hasattr(r, "brief"):
                return "raises:" + r.type, r.brief()
            why = _cmp(r, orc["val"], orc["sp"], ctx, "estimate" if bucket else None)
            return (None if why is None else _vw(why)), {"estimate": _np(r), "f(*args)": _np(orc["val"])}
        if entry == "estimate_explicit":  # attribution only: jvp_estimate(args, correctly shaped zeros).primal vs f(*args)
            r = _guard(ctx, lambda: _block(self.fns["g_jvp"](tuple(args), self.zeros(args))))
            if hasattr(r, "brief"):
                return "raises:" + r.type, r.brief()
            if not isinstance(r, Dual):
                return "result-not-a-Dual", {}
            why = _cmp(r.primal, orc["val"], orc["sp"], ctx, None)
            return (None if why is None else _vw(why)), {}
        if entry == "jvp_estimate":
            r = _guard(ctx, lambda: _block(self.fns["g_jvp"](tuple(args), tuple(ftans))))
            if hasattr(r, "brief"):
                return "raises:" + r.type, r.brief()
            obs = {"reference_primal": _np(orc["jvp"][0]), "reference_tangent": _np(orc["jvp"][1])}
            if not isinstance(r, Dual):
                return "result-not-a-Dual", {"got": repr(r)[:200], **obs}
            obs.update(primal=_np(r.primal), tangent=_np(r.tangent))
            why = _cmp(r.primal, orc["jvp"][0], orc["sp"], ctx, "jvp_primal" if bucket else None)
            if why is not None:
                return "primal-" + why, obs
            why = _cmp(r.tangent, orc["jvp"][1], max(orc["st"], 1e-30), ctx, "jvp_tangent" if bucket else None)
            if why is not None:
                return "tangent-" + why, obs
            return None, obs
        if entry == "grad_estimate":
            r = _guard(ctx, lambda: _block(self.fns["g_grad"](tuple(args))))
            if hasattr(r, "brief"):
                return "raises:" + r.type, r.brief()
            ref = orc["grad"]
            obs = {"gradient": _np(r), "reference_gradient": _np(ref)}
            if jtu.tree_structure(r) != jtu.tree_structure(ref):
                return "gradient-structure", obs
            for a, b in zip(jtu.tree_leaves(r), jtu.tree_leaves(ref)):
                why = _cmp(a, b, orc["sg"], ctx, "grad" if bucket else None)
                if why is not None:
                    return "gradient-" + why, obs
            return None, obs
        raise ValueError(entry)

    @staticmethod
    def zeros(args):
        jtu = _W["jtu"]
        return tuple(jtu.tree_map(lambda v: 0.0 if isinstance(v, float) else np.zeros(np.shape(v), np.float32), a) for a in args)


def _attribute(case, consts, mode, args, ftans, entry, full_what, ctx):
    """Name what first makes ``entry`` fail the way the whole program fails (same ``what``): bisect over program
    prefixes.  Matching on ``what`` keeps two unrelated defects met by one program apart."""
    spec = case["spec"]
    nodes = spec["body"]["nodes"]
    kind = P.arg_kind(spec)

    def fails(k):
        if k > len(nodes):
            return True
        run = _Run(P.prefix_program(spec, k), consts, mode)
        orc = run.oracle(args, ftans, entry == "grad_estimate")
        what, _ = run.check(entry, args, ftans, orc, ctx, bucket=False)
        return what == full_what

    n = len(nodes)
    if n == 0 or fails(0):
        return f"args:{kind}", None
    lo, hi = 0, n + 1  # prefix(n) still differs from the program in how values are reduced to the scalar output
    while hi - lo > 1:
        mid = (lo + hi) // 2
        if fails(mid):
            hi = mid
        else:
            lo = mid
    if hi == n + 1:
        return "output:" + spec["out"]["kind"], None
    nd = nodes[hi - 1]
    return "op:" + P.node_class(nd), {"first_failing_prefix": hi, "operation": nd["op"], "inputs": nd["in"], "type": nd["ty"]}


def _oracle_unstable(spec, consts, mode, args, ftans, entry, orc, ctx):
    """True when JAX's own result for this entry point is not reproducible between jax.jit and op-by-op execution
    to within the tolerance at these arguments (a comparison / argmax / max sitting within rounding error of a tie
    flips a branch or a selected element).  Such inputs have no reference value to compare against; the criterion
    involves the oracle only, never genjax."""
    jtu = _W["jtu"]
    other = _Run(spec, consts, "eager" if mode == "jit" else "jit")
    o2 = other.oracle(args, ftans, entry == "grad_estimate")
    if entry == "estimate":
        pairs = [(o2["val"], orc["val"], orc["sp"])]
    elif entry == "jvp_estimate":
        pairs = [(o2["jvp"][0], orc["jvp"][0], orc["sp"]), (o2["jvp"][1], orc["jvp"][1], max(orc["st"], 1e-30))]
    else:
        pairs = [(a, b, orc["sg"]) for a, b in zip(jtu.tree_leaves(o2["grad"]), jtu.tree_leaves(orc["grad"]))]
    return any(_cmp(a, b, s, ctx, None) is not None for a, b, s in pairs)


def run_case(case, ctx):
    jax, jnp, jtu = _W["jax"], _W["jnp"], _W["jtu"]
    spec = case["spec"]
    mode = case["mode"]
    consts = P.make_consts(spec, case["vseed"])
    run = _Run(spec, consts, mode)
    kind = P.arg_kind(spec)
    ops = P.all_ops(spec["body"])
    top_ops = [nd["op"] for nd in spec["body"]["nodes"]]
    ctx.count("programs")
    ctx.count("programs_mode_" + mode)
    ctx.count("programs_profile_" + case["profile"])
    for c in sorted(set(P.all_classes(spec["body"]))):
        ctx.count("programs_with_class_" + c)
    for o in set(ops):
        ctx.distinct("operation", o)
    tys = [nd["ty"][0] for nd in spec["body"]["nodes"]]
    if any(t in ("i", "b") for t in tys[1:]):
        ctx.count("programs_with_int_or_bool_values")
    has_tree = any(a["k"] in ("tuple", "dict") for a in spec["args"])
    if len(top_ops) >= 3 and (kind == "array" or has_tree):
        ctx.distinct("nontrivial", P.signature(spec))
    attributed = {}
    for j in range(case["n_argsets"]):
        rng = np.random.default_rng(list(case["vseed"]) + [j])
        a_np, t_np = P.make_args(spec, rng, ctl_positive=((j + case["ctl_bit"]) % 2 == 0))
        args = [_to_jax(a) for a in a_np]
        ftans = [_to_jax(t) for t in t_np]  # None at int / bool leaves
        ctx.evaluation()
        ctx.count("cases_" + kind.replace("-", "_") + "_args")
        if has_tree:
            ctx.count("cases_pytree_args")
        if j == 0:
            # the program must be traceable at all (a tracing error inside genjax would otherwise be ours), and the
            # generator's own shape / dtype inference must match what JAX computes
            jx, (_, (rec, _)) = jax.make_jaxpr(run.with_nodes, return_shape=True)(*args)
            for eqn in jx.jaxpr.eqns:
                ctx.distinct("primitive", eqn.primitive.name)
            for nd, v in zip(spec["body"]["nodes"], rec):
                dt = {"f": "f", "i": "i", "u": "i", "b": "b"}[np.dtype(v.dtype).kind]
                if dt != nd["ty"][0] or list(v.shape) != list(nd["ty"][1]):
                    raise AssertionError(f"generator type inference wrong for {nd['op']}: {nd['ty']} vs {dt}{v.shape}")
        orc = run.oracle(args, ftans, True)
        for cv in orc["conds"]:
            ctx.count("cond_true_taken" if int(cv) != 0 else "cond_false_taken")
        if not bool(np.all(np.isfinite(np.asarray(orc["val"], dtype=np.float64)))):
            ctx.count("oracle_value_nonfinite")
        entries = ["estimate", "jvp_estimate"] + (["grad_estimate"] if run.gradable else [])
        if not run.gradable:
            ctx.count("grad_skipped_int_args_or_int_output")
        for entry in entries:
            short = entry.split("_")[0]
            ctx.count(short + "_checks")
            if entry == "estimate" and kind in ("scalar", "scalar-pytree", "int"):
                ctx.count("estimate_scalar_checks")
            if entry == "estimate" and kind == "array":
                ctx.count("estimate_array_checks")
            what, obs = run.check(entry, args, ftans, orc, ctx)
            if what is None:
                ctx.count(short + "_agree")
                continue
            if what.endswith("value") and _oracle_unstable(spec, consts, mode, args, ftans, entry, orc, ctx):
                ctx.count("skipped_oracle_not_reproducible_jit_vs_eager")
                continue
            what2 = None
            if entry == "estimate":
                # estimate(*args) is jvp_estimate with tangents it builds itself.  Separate "those tangents are
                # wrong" from "the program cannot be pushed through ADEV at all" by supplying correct zeros.
                what2, _ = run.check("estimate_explicit", args, ftans, orc, ctx)
            akey = (entry, what, what2)  # attribution is per failure kind: argument sets may take different branches
            if akey not in attributed:
                if entry == "estimate" and what2 is None:
                    attributed[akey] = (f"args:{kind}|own-zero-tangents", {
                        "note": "jvp_estimate with explicit, correctly shaped zero tangents returns f(*args); only "
                                "the tangents estimate builds itself fail"}, None)
                elif entry == "estimate":
                    c, info = _attribute(case, consts, mode, args, ftans, "estimate_explicit", what2, ctx)
                    attributed[akey] = (c, info, what2)
                else:
                    attributed[akey] = _attribute(case, consts, mode, args, ftans, entry, what, ctx) + (None,)
            culprit, info, what_explicit = attributed[akey]
            keywhat = what
            if entry == "estimate":
                # one mechanism, many exception types (whichever primitive first meets the mis-shaped tangent):
                # the type goes to the detail, not into the key
                keywhat = what_explicit if what_explicit is not None else ("raises" if what.startswith("raises:") else what)
            ctx.violation(
                f"{entry}|{culprit}|{keywhat}",
                {
                    "entry_point": entry,
                    "what": what,
                    "mode": mode,
                    "argument_kind": kind,
                    "argset": j,
                    "program": P.render(spec),
                    "args": _np(args),
                    "tangents": _np(ftans) if entry == "jvp_estimate" else None,
                    "attribution": info,
                    "observed": obs,
                    "scales": {"primal": orc["sp"], "tangent": orc["st"]},
                },
            )
    if case.get("index", 0) % 53 == 0:
        ctx.sample({"profile": case["profile"], "mode": mode, "argument_kind": kind, "program": P.render(spec)})
