"""C04 — regenerate resamples exactly the selection and returns the MH weight.

From a simulated trace apply seed(gf.regenerate)(key, trace, selection, *args)
with selection expressions (strings, tuples, dicts, all, none, |, ^, ~)
instantiated over the program's own address tree, under unchanged and changed
arguments.  Oracle: reference interpreter + set-of-leaf-paths reading of the
selection (lib/selspec.py).

  defined     no exception for any program / selection (Scan, Vmap, Cond sub-calls)
  coherent    new trace coherent under the (new) args
  unselected  every unselected leaf bit-identical
  fresh       every selected probe site fired once per lane/iteration with the reference
              conditional parameters given the new parent values; no unselected site fired;
              selected continuous built-in leaves changed in every element
  weight      == sum over unselected addresses of [ref(new) - ref(old)] whenever no Cond
              switched; 0 and unchanged trace for the empty selection with same args; 0 for all
  discard     at every selected address == old value
  law         discrete probe programs: exact law of the resampled part by outcome-script
              enumeration == conditional prior given the new parents
"""

from __future__ import annotations

import math

import numpy as np

PROPERTY = "C04"
LEVEL = "exploration"
RULE = (
    "programs from the spec grammar, SeedSequence([VERIF_SEED, 4, index]); per program selections = none, all, "
    "single leaf paths, top-level names, complements, unions, dict forms and random expressions over the "
    "program's address names, de-duplicated by selected leaf set; x (arguments same | perturbed); "
    "distinct_nontrivial = distinct (program structural hash, selected leaf set, args change) with a proper "
    "non-empty selected set on non-trivial programs"
)
ASSUMPTIONS = [
    "reference interpreter lib/refmodel.py; selection reference lib/selspec.py (set of leaf paths)",
    "JAX API translation layer (DESIGN §2)",
    "both-branch choices read from CondTr.trs (observation hook)",
]
FLOORS = {
    "quick": {"regenerate_checks": 250, "weight_checks": 200, "event_matches": 150, "law_instances": 8, "sel_empty": 40, "sel_all": 40, "reach_into_scan": 15, "reach_into_vmap": 15},
    "thorough": {"regenerate_checks": 2500, "weight_checks": 2000, "event_matches": 1500, "law_instances": 60, "sel_empty": 400, "sel_all": 400, "reach_into_scan": 150, "reach_into_vmap": 150},
}
TIMEOUT_S = {"quick": 1500, "thorough": 5400}
CLEAR_CACHES_EVERY = {"quick": 0, "thorough": 6}  # see lib/worker.py
N_CASES = {"quick": 64, "thorough": 640}
FAMILY_CYCLE = ["mixed", "probe", "discrete", "builtin", "bare", "bare-discrete"]


def plan(tier, seed):
    return [{"family": FAMILY_CYCLE[i % len(FAMILY_CYCLE)], "gseed": [seed, 4, i]} for i in range(N_CASES[tier])]


def _selections(prog, paths, rng, tier):
    from lib import selspec as S

    paths = sorted(paths)
    names = sorted({n for p in paths for n in p})
    cands = [["none"], ["all"]]
    for p in paths:
        cands.append(["tup", list(p)] if len(p) > 1 else ["str", p[0]])
        cands.append(["not", ["tup", list(p)]])
    tops = sorted({p[0] for p in paths})
    for t in tops:
        cands.append(["str", t])
        cands.append(["not", ["str", t]])
    if len(paths) >= 2:
        for _ in range(4):
            i, j = rng.choice(len(paths), size=2, replace=False)
            cands.append(["or", ["tup", list(paths[i])], ["tup", list(paths[j])]])
            cands.append(["and", ["str", paths[i][0]], ["not", ["tup", list(paths[j])]]])
    for p in paths:
        if len(p) >= 2:
            cands.append(["dict", {p[0]: (["tup", list(p[1:])] if len(p) > 2 else ["str", p[1]])}])
    # selections that can switch a Cond: the choices feeding its predicate
    from lib import spec as _spec

    feeders = sorted(_spec.cond_feeders(prog))
    for p in feeders:
        cands.append(["tup", list(p)] if len(p) > 1 else ["str", p[0]])
    alphabet = names + ["zz"]
    for _ in range(10):
        cands.append(S.random_expr(rng, alphabet, int(rng.integers(1, 3)), max_tup=2))
    by_set = {}
    for e in cands:
        st = S.ref_set(e, paths)
        by_set.setdefault(st, []).append(e)
    chosen = []
    must = [frozenset(), frozenset(paths)] + [frozenset([p]) for p in feeders[:2]]
    budget = 6 if tier == "quick" else 14
    keys = list(by_set)
    order = [k for k in must if k in by_set] + [keys[i] for i in rng.permutation(len(keys)) if keys[i] not in must]
    for st in order[:budget]:
        es = by_set[st]
        chosen.append((st, es[int(rng.integers(len(es)))]))
    return chosen


def run_case(case, ctx):
    import jax
    from genjax import seed

    from lib import gfi, probes, spec
    from lib import refmodel as R
    from lib import selspec as S

    tier = ctx.tier
    g, prog = gfi.make_case_program(case["gseed"], case["family"], tier)
    rng = np.random.default_rng(case["gseed"] + [44])
    ctx.evaluation()
    h = spec.struct_hash(prog)
    feats = spec.features(prog)
    base = {"program": spec.show(prog), "family": case["family"], "kinds": sorted(feats["kinds"])}
    gf = ctx.call(spec.build, prog)
    if hasattr(gf, "brief"):
        ctx.violation(gfi.raise_key("build", gf), {**base, **gf.brief()})
        return
    lp = spec.leaf_paths(prog)
    paths = list(lp)
    has_probe = any(d.startswith("p_") for d in feats["dists"])
    vals0 = g.arg_values(prog)
    args0 = spec.to_jax_args(prog, vals0)
    sim = jax.jit(seed(gf.simulate))
    assess_jit = jax.jit(gf.assess)
    regen = jax.jit(seed(gf.regenerate))
    tr0 = ctx.call(sim, jax.random.key(int(rng.integers(2**31))), *args0)
    if hasattr(tr0, "brief"):
        ctx.count("simulate_failed")
        return
    ch0 = ctx.call(lambda: R.to_numpy(tr0.get_choices()))
    if hasattr(ch0, "brief"):
        ctx.count("simulate_failed")
        return
    ref_old = R.run(prog, vals0, choices=ch0)
    if ref_old.min_margin < 1e-4 or not math.isfinite(ref_old.total):
        ctx.count("skipped_near_tie")
        return
    # which static paths lie under scan / vmap sub-calls
    under = _paths_under(prog)
    sampled = False
    vals_p = _perturb(prog, vals0, rng, 0.5)
    for sset, expr in _selections(prog, paths, rng, tier):
        sel = S.build(expr)
        for akind, vals1 in (("same", vals0), ("perturbed", vals_p)):
            args1 = spec.to_jax_args(prog, vals1)
            d0 = {**base, "old_args": vals0, "new_args": vals1, "args_change": akind, "selection": S.show(expr),
                  "selected": sorted(gfi.pstr(p) for p in sset), "old_choices": ch0}
            probes.HOST.reset("observe", int(rng.integers(2**31)))
            res = ctx.call(regen, jax.random.key(int(rng.integers(2**31))), tr0, sel, *args1)
            ctx.count("regenerate_checks")
            if not sset:
                ctx.count("sel_empty")
            if len(sset) == len(paths):
                ctx.count("sel_all")
            if any(under.get(p) == "scan" or under.get(p) == "both" for p in sset):
                ctx.count("reach_into_scan")
            if any(under.get(p) in ("vmap", "both") for p in sset):
                ctx.count("reach_into_vmap")
            if hasattr(res, "brief"):
                ctx.violation(gfi.raise_key("regenerate", res), {**d0, **res.brief()})
                continue
            events = list(probes.HOST.events)
            ok = ctx.call(_check_regen, ctx, prog, lp, tr0, ch0, ref_old, vals0, vals1, args1, res, events, sset, d0, assess_jit, has_probe, akind)
            if hasattr(ok, "brief"):
                ctx.violation(gfi.raise_key("regenerate-result", ok), {**d0, **ok.brief()})
                continue
            if ok and 0 < len(sset) < len(paths) and spec.nontrivial(prog):
                ctx.distinct("nontrivial", [h, d0["selected"], akind])
                if not sampled:
                    sampled = True
                    ctx.sample({"program": spec.show(prog), "selection": S.show(expr), "selected": d0["selected"],
                                "args_change": akind, "weight": gfi.fnum(res[1]), "site_events_seen": len(events)})
        # exact conditional law of the resampled part
        if case["family"] in ("discrete", "bare-discrete") and spec.all_discrete(prog) and sset:
            r = ctx.call(_check_law, ctx, regen, prog, tr0, sel, sset, vals0, args0, base, S.show(expr))
            if hasattr(r, "brief"):
                ctx.violation(gfi.raise_key("regenerate-law", r), {**base, "selection": S.show(expr), **r.brief()})


def _perturb(prog, vals, rng, scale):
    out = []
    for (cls, shape), v in zip(prog["ptypes"], vals):
        a = np.asarray(v)
        if cls == "f":
            out.append(np.round(a + rng.normal(size=a.shape) * scale, 3).astype(np.float32).tolist())
        else:
            out.append(v)
    return out


def _paths_under(prog, prefix=(), ctxk=None, out=None):
    out = {} if out is None else out

    def mark(p, k):
        if k:
            out[p] = k

    def comb(a, b):
        if a is None:
            return b
        if a == b:
            return a
        return "both"

    for st in prog["body"]:
        k = st["k"]
        if k == "site":
            mark(prefix + (st["addr"],), ctxk)
        elif k == "call":
            _paths_under(st["prog"], prefix + (st["addr"],), ctxk, out)
        elif k == "vmap":
            c = comb(ctxk, "vmap")
            if "dist" in st["callee"]:
                mark(prefix + (st["addr"],), c)
            else:
                _paths_under(st["callee"], prefix + (st["addr"],), c, out)
        elif k == "scan":
            _paths_under(st["step"], prefix + (st["addr"],), comb(ctxk, "scan"), out)
        elif k == "cond":
            _paths_under(st["T"], prefix + (st["addr"],), ctxk, out)
    return out


def _switched_paths(ref_old, ref_new):
    return {k[0] for k, v in ref_new.conds.items() if k in ref_old.conds and ref_old.conds[k] != v}


def _under(p, prefixes):
    return any(p[: len(q)] == q for q in prefixes)


def _check_regen(ctx, prog, lp, tr0, ch0, ref_old, vals0, vals1, args1, res, events, sset, d0, assess_fn, has_probe, akind):
    from lib import gfi, spec
    from lib import refmodel as R

    tr1, w, discard = res
    status, ref_new = gfi.coherence(ctx, "regenerate", prog, vals1, tr1, d0, assess_fn, args1, allow_outside=True)
    if status == "skip":
        return True
    if status == "bad":
        return False
    ch1 = R.to_numpy(tr1.get_choices())
    switched = _switched_paths(ref_old, ref_new)
    d = {**d0, "new_choices": ch1, "switched_conds": sorted(gfi.pstr(p) for p in switched)}
    l0, l1 = R.flat_leaves(ch0), R.flat_leaves(ch1)
    # unselected leaves bit-identical
    for p in l1:
        if p not in sset and not _under(p, switched):
            if p not in l0 or not gfi.bit_equal(l0[p], l1[p]):
                ctx.violation("regenerate|unselected-value-changed", {**d, "path": gfi.pstr(p)})
                return False
    # selected continuous built-in leaves changed in every element
    for p in sset:
        sts = lp[p]
        dist = sts[0]["callee"]["dist"] if sts[0]["k"] == "vmap" else sts[0]["dist"]
        if dist in spec.CONTINUOUS and p in l0 and p in l1 and not _under(p, switched):
            a, b = np.asarray(l0[p]), np.asarray(l1[p])
            ctx.count("fresh_value_checks")
            if dist == "mvn":
                same = np.all(a == b, axis=-1)
            else:
                same = a == b
            if np.any(same):
                ctx.violation("regenerate|selected-value-not-resampled", {**d, "path": gfi.pstr(p), "unchanged_elements": int(np.sum(same))})
                return False
    # site events: selected sites fired with conditional-prior parameters, unselected never
    if has_probe:
        ghost = R.run(prog, vals1, choices=R.full_choices(tr1, prog))
        selsites = [s for s in ghost.sites if s.path in sset]
        n, problems = gfi.match_events(selsites, events)
        ctx.count("event_matches", n)
        if problems:
            ctx.violation("regenerate|" + problems[0]["what"], {**d, "problem": problems[0]})
            return False
        fired = gfi.events_for_paths(prog, ghost.sites, events)
        for p, nfired in fired.items():
            if p not in sset and nfired:
                ctx.violation("regenerate|unselected-site-was-sampled", {**d, "path": gfi.pstr(p), "events": nfired})
                return False
    # weight
    if switched:
        ctx.count("moves_with_cond_switch_weight_not_claimed")
    else:
        bo, bn = ref_old.by_path(), ref_new.by_path()
        want_w = sum(bn.get(p, 0.0) - bo.get(p, 0.0) for p in set(bn) | set(bo) if p not in sset)
        abs_terms = sum(abs(s.logp) for r in (ref_old, ref_new) for s in r.visible if s.path not in sset)
        t = R.tol(abs_terms, len(ref_old.sites) + len(ref_new.sites))
        ctx.count("weight_checks")
        if np.shape(w) != () or not (abs(float(w) - want_w) <= t):
            key = "regenerate|weight-differs"
            if not sset and akind == "same":
                key = "regenerate|weight-nonzero-for-empty-selection"
            elif len(sset) == len(lp):
                key = "regenerate|weight-nonzero-when-all-selected"
            ctx.violation(key, {**d, "weight": gfi.fnum(w), "reference_weight": want_w, "tol": t})
            return False
    if not sset and akind == "same":
        diff = gfi.diff_leaves(ch0, ch1)
        # choices bit-identical; the score is recomputed by a differently fused program, so
        # it is compared up to float32 rounding (coherence above already tied it to the density)
        if diff or not R.close(tr1.get_score(), tr0.get_score(), scale=ref_old.abs_sum(), rel=2e-6):
            ctx.violation("regenerate|empty-selection-changed-trace", {**d, "paths": [gfi.pstr(p) for p in diff]})
            return False
    ap = gfi.args_problem(tr1, args1)
    if ap is not None:
        ctx.violation("regenerate|get_args-not-new-args" + ap, d)
        if not ap.endswith("recorded-per-lane"):
            return False
    # discard at selected addresses = old values
    ld = R.flat_leaves(_drop_none(R.to_numpy(discard))) if isinstance(discard, dict) else {}
    for p in sset:
        if _under(p, switched):
            continue
        if p not in ld:
            ctx.violation("regenerate|discard-misses-resampled-address", {**d, "path": gfi.pstr(p), "discard": sorted(gfi.pstr(q) for q in ld)})
            return False
        if not gfi.bit_equal(np.asarray(ld[p]), np.asarray(l0[p])):
            ctx.violation("regenerate|discard-not-old-value", {**d, "path": gfi.pstr(p)})
            return False
    return True


def _drop_none(t):
    if isinstance(t, dict):
        out = {}
        for k, v in t.items():
            if v is None:
                continue
            r = _drop_none(v)
            if isinstance(r, dict) and not r:
                continue
            out[k] = r
        return out
    return t


def _check_law(ctx, regen, prog, tr0, sel, sset, vals0, args0, base, selshow):
    import jax

    from lib import gfi, probes
    from lib import refmodel as R

    cap = 300 if ctx.tier == "quick" else 4096
    key = jax.random.key(0)
    mass, rep = {}, {}
    total = 0.0
    try:
        for (tr1, w, _), prob, events in probes.explore(lambda: regen(key, tr0, sel, *args0), max_leaves=cap):
            ch = R.to_numpy(tr1.get_choices())
            k = gfi.choice_key(ch)
            mass[k] = mass.get(k, 0.0) + prob
            rep.setdefault(k, ch)
            total += prob
    except probes.TooManyLeaves:
        ctx.count("law_skipped_too_large")
        return
    ctx.count("law_instances")
    ctx.count("law_outcomes", len(mass))
    d = {**base, "args": vals0, "selection": selshow, "selected": sorted(gfi.pstr(p) for p in sset), "outcomes": len(mass)}
    if abs(total - 1.0) > 1e-6:
        ctx.violation("regenerate-law|script-mass-not-1", {**d, "total": total})
        return
    for k, m in mass.items():
        ref = R.run(prog, vals0, choices=rep[k])
        if ref.min_margin < 1e-4:
            ctx.count("skipped_near_tie")
            return
        q = math.exp(sum(v for p, v in ref.by_path().items() if p in sset))
        if abs(m - q) > 1e-6 + 2e-5 * q:
            ctx.violation("regenerate-law|resampled-part-not-conditional-prior", {**d, "choices": rep[k], "regenerate_mass": m, "reference_mass": q})
            return
    ctx.sample({"kind": "exact-law", "program": base["program"], "selection": selshow, "outcomes": len(mass), "exhaustive": True})
