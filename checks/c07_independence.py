"""C07 — every sample site of a seeded run gets its own independent randomness.

Workload: program shapes whose sites deliberately SHARE parameters (`normal.sample(0., 1.)`,
`uniform.sample(0., 1.)`, `normal(0., 1.) @ addr`) at many structural positions: consecutive statements,
lax.scan iterations, nested scans, modular_vmap lanes (batched parameters / axis_size only), vmap-of-scan,
scan-of-vmap, lax.cond inside scan, consecutive control-flow primitives, nested @gen calls, the
Scan / Vmap / Cond combinators, seed(...) nested in a seeded function, sample_shape sites.

Monitors (the oracle is numpy / scipy only, never genjax or TFP):

  keys     per run of jit(seed(f))(key): three source-free hooks record (a) the sub-key handed to every
           flat sampler (FlatSamplerCache.get_flat_sampler, class attribute), (b) the key every keyed
           sampler finally draws from (pjax.sample_binder, resolved per call; sees the per-lane keys of
           SamplerConfig.with_lanes), (c) every split / fold_in the Seed interpreter and the lane sampler
           perform (pjax.jrand proxy).  Oracle: sampler keys pairwise distinct and different from every
           root key; no key is consumed twice (drawn from and split, split twice, split and folded,
           folded twice with the same data).
  values   over a batch jit(vmap(seed(f)))(keys): for every pair of positions with the same law the number
           of runs with bitwise-equal draws stays below the exact Binomial(n, 2^-20) bound (a shared
           stream coincides in a constant fraction of all runs).
  law      per position Kolmogorov distance from the site's law (DKW bound, valid for every n).
  pairs    for EVERY pair of positions (statements x iterations x lanes x sample_shape elements): exact-t
           test of the correlation of the normal scores, 4x4 quartile table with exact binomial cells
           (non-linear dependence); pooled lag-1 tests along every scan / lane / sample_shape axis.

Family-wise false alarm of a whole run <= 1e-9 (Bonferroni over the planned number of tests).
"""

from __future__ import annotations

import numpy as np

PROPERTY = "C07"
LEVEL = "exploration"
RULE = (
    "program shapes are trees over {site(normal|uniform, sample_shape), seq, lax.scan, modular_vmap with batched "
    "parameters, modular_vmap with axis_size only, lax.cond on an earlier draw, @gen switch (Scan/Vmap/Cond "
    "combinators, nested calls), nested seed}; every site has the same parameters (loc 0, scale 1).  quick: a "
    "hand-written catalogue covering every structural relation once or more; thorough: catalogue plus random trees "
    "to depth 3.  A shape is distinct by its tree (kinds, sizes, distributions) and non-trivial when it has >= 2 "
    "positions related by at least one of: statements, scan iterations, vmap lanes, sample_shape elements"
)
ASSUMPTIONS = [
    "independence is tested pairwise (all pairs of positions, pooled lag-1 along every axis), not jointly",
    "float32 samplers emit 23 random bits: two independent draws coincide with probability 2^-23 (bound used: 2^-20)",
    "exact-t null law of the score correlation assumes the N(0,1) score of at least one side (float32 grid ignored)",
    "JAX API translation layer (DESIGN §2); default threefry2x32 keys",
]
FLOORS = {
    "quick": {"key_runs": 400, "flat_sampler_keys_observed": 2000, "sampler_keys_observed": 2600, "splits_observed": 3800,
              "batch_runs": 700000, "law_tests": 280, "pair_tests": 2800, "equal_draw_tests": 1300, "lag_tests": 100,
              "distinct:nontrivial": 34},
    "thorough": {"key_runs": 3900, "flat_sampler_keys_observed": 15000, "sampler_keys_observed": 20000, "splits_observed": 25000,
                 "batch_runs": 24000000, "law_tests": 1200, "pair_tests": 15000, "equal_draw_tests": 6000, "lag_tests": 300,
                 "distinct:nontrivial": 120},
}
TIMEOUT_S = {"quick": 1800, "thorough": 5400}
FAMILY_ALPHA = 1e-9

N_BATCH = {"quick": 20000, "thorough": 200000}
M_KEYRUNS = {"quick": 12, "thorough": 32}
CHUNK = 20000
MAX_POSITIONS = 40

S = lambda d="n", ss=(): ["site", d, list(ss)]  # noqa: E731

CATALOGUE = [
    ("consecutive-statements", ["seq", [S(), S(), S("u"), S(), S("u"), S()]]),
    ("scan", ["scan", S(), 6]),
    ("scan-three-sites", ["scan", ["seq", [S(), S(), S("u")]], 4]),
    ("nested-scans", ["scan", ["scan", S(), 3], 3]),
    ("long-scan", ["scan", S(), 32]),
    ("vmap-lanes-batched-params", ["vmapb", S(), 5]),
    ("vmap-lanes-unbatched", ["vmapu", S(), 5]),
    ("vmap-lanes-batched-params-uniform", ["vmapb", S("u"), 5]),
    ("vmap-batched-two-sites", ["vmapb", ["seq", [S(), S()]], 4]),
    ("vmap-unbatched-two-sites", ["vmapu", ["seq", [S(), S("u")]], 4]),
    ("vmap-of-scan-batched", ["vmapb", ["scan", S(), 3], 3]),
    ("vmap-of-scan-unbatched", ["vmapu", ["scan", S(), 3], 3]),
    ("scan-of-vmap-batched", ["scan", ["vmapb", S(), 3], 3]),
    ("scan-of-vmap-unbatched", ["scan", ["vmapu", S(), 3], 3]),
    ("nested-vmaps", ["seq", [["vmapb", ["vmapu", S(), 2], 3], ["vmapu", ["vmapb", S(), 3], 2], ["vmapb", ["vmapb", S(), 2], 3]]]),
    ("cond-in-scan", ["scan", ["cond", S()], 4]),
    ("cond-then-cond", ["seq", [["cond", S()], ["cond", S()], S()]]),
    ("cond-then-scan", ["seq", [["cond", S()], ["scan", S(), 3], S(), S()]]),
    ("scan-then-scan", ["seq", [["scan", S(), 3], ["scan", S(), 3], S(), S()]]),
    ("scan-then-cond", ["seq", [S(), ["scan", S(), 2], ["cond", ["seq", [S(), S()]]], S()]]),
    ("vmap-of-cond", ["vmapb", ["cond", S()], 3]),
    ("sample-shape", ["seq", [S("n", (4,)), S("u", (2, 2)), S()]]),
    ("sample-shape-in-scan", ["scan", S("n", (3,)), 3]),
    ("sample-shape-under-vmap-unbatched", ["vmapu", S("n", (2,)), 3]),
    ("sample-shape-under-vmap-batched", ["vmapb", S("n", (2,)), 3]),
    ("gen-nested-calls", ["gen", ["seq", [S(), ["call", ["seq", [S(), ["call", S()], S("u")]]], S()]]]),
    ("gen-scan-combinator", ["gen", ["scan", ["seq", [S(), S()]], 4]]),
    ("gen-vmap-combinator", ["gen", ["seq", [["vmapb", ["seq", [S(), S()]], 3], ["vmapb", S(), 3], S()]]]),
    ("gen-repeat-combinator", ["gen", ["seq", [["vmapu", ["seq", [S(), S()]], 3], ["vmapu", S(), 3], S()]]]),
    ("gen-cond-combinator", ["gen", ["seq", [["cond", S()], ["cond", S()], S()]]]),
    ("gen-cond-in-scan-combinator", ["gen", ["scan", ["cond", S()], 3]]),
    ("gen-vmap-of-scan-combinator", ["gen", ["vmapb", ["scan", S(), 3], 3]]),
    ("gen-scan-of-vmap-combinator", ["gen", ["scan", ["vmapu", S(), 3], 3]]),
    ("gen-simulate-in-scan", ["scan", ["gen", ["seq", [S(), S()]]], 3]),
    ("gen-simulate-in-vmap", ["vmapb", ["gen", ["seq", [S(), ["call", S()]]]], 3]),
    ("nested-seed", ["seq", [S(), ["nseed", ["seq", [S(), ["scan", S(), 2]]]], S(), ["nseed", S()]]]),
]

AX_NAME = {
    "iter": "scan-iterations",
    "laneb": "vmap-lanes-batched-params",
    "laneu": "vmap-lanes-unbatched",
    "ss": "sample-shape-elements",
}


# ---------------------------------------------------------------------------
# spec utilities (numpy only: used by plan() in the coordinator)
# ---------------------------------------------------------------------------
def sig(node):
    k = node[0]
    if k == "site":
        return "site:" + node[1] + ("*" if node[2] else "")
    if k == "seq":
        return "seq(" + ",".join(sig(c) for c in node[1]) + ")"
    return k + "(" + sig(node[1]) + ")"


def leaves(node, path="r", axes=()):
    """Output leaves in jax.tree_util.tree_leaves order: dict(tag, axes[(kind, size, node path)], dist)."""
    k = node[0]
    axes = list(axes)
    if k == "site":
        ss = [("ss", int(s), f"{path}#{i}") for i, s in enumerate(node[2])]
        return [{"tag": path, "axes": axes + ss, "dist": node[1]}]
    if k == "seq":
        out = []
        for i, c in enumerate(node[1]):
            out += leaves(c, f"{path}.{i}", axes)
        return out
    if k == "scan":
        return leaves(node[1], path + ".b", axes + [("iter", int(node[2]), path)])
    if k in ("vmapb", "vmapu"):
        return leaves(node[1], path + ".v", axes + [("laneb" if k == "vmapb" else "laneu", int(node[2]), path)])
    if k == "cond":
        return [{"tag": path + ".p", "axes": axes, "dist": "n"}] + leaves(node[1], path + ".B", axes)
    if k in ("gen", "call", "nseed"):
        return leaves(node[1], path + "." + k[0], axes)
    raise ValueError(k)


def n_positions(node):
    return int(sum(int(np.prod([a[1] for a in lf["axes"]], dtype=np.int64)) for lf in leaves(node)))


def expected_events(node, fl="plain", under_vmap=False):
    """(#flat-sampler calls, #keyed-sampler draws) of ONE run with a real lax.cond (one branch runs)."""
    k = node[0]
    if k == "site":
        return 1, 1
    if k == "seq":
        r = [expected_events(c, fl, under_vmap) for c in node[1]]
        return sum(a for a, _ in r), sum(b for _, b in r)
    if k == "scan":
        a, b = expected_events(node[1], fl, under_vmap)
        return a * node[2], b * node[2]
    if k == "vmapb":
        a, b = expected_events(node[1], fl, True)
        return a, b * node[2]
    if k == "vmapu":
        return expected_events(node[1], fl, True)
    if k == "cond":
        a, b = expected_events(node[1], fl, under_vmap)
        both = 2 if (fl == "gen" or under_vmap) else 1  # Cond combinator / vmapped cond run both branches
        return 1 + both * a, 1 + both * b
    if k == "gen":
        return expected_events(node[1], "gen", under_vmap)
    if k in ("call", "nseed"):
        return expected_events(node[1], fl, under_vmap)
    raise ValueError(k)


def n_tests(node):
    P = n_positions(node)
    naxes = sum(len(lf["axes"]) for lf in leaves(node))
    return P + 3 * (P * (P - 1) // 2) + 2 * naxes + 8


def random_spec(rng, depth, fl="plain", in_loop=False):
    if depth == 0:
        ss = ()
        if fl == "plain" and rng.random() < 0.2:
            ss = (int(rng.integers(2, 4)),)
        return S("u" if rng.random() < 0.3 else "n", ss)
    kinds = ["seq", "seq", "scan", "vmapb", "vmapu", "cond", "site"]
    if fl == "plain":
        kinds += ["gen"]
        if not in_loop:
            kinds += ["nseed"]
    else:
        kinds += ["call", "call"]
    k = kinds[int(rng.integers(len(kinds)))]
    if k == "site":
        return random_spec(rng, 0, fl, in_loop)
    if k == "seq":
        m = int(rng.integers(2, 4))
        ds = [depth - 1 if rng.random() < 0.5 else int(rng.integers(0, depth)) for _ in range(m)]
        return ["seq", [random_spec(rng, d, fl, in_loop) for d in ds]]
    if k in ("scan", "vmapb", "vmapu"):
        return [k, random_spec(rng, depth - 1, fl, True), int(rng.integers(2, 5))]
    if k == "cond":
        return ["cond", random_spec(rng, depth - 1, fl, in_loop)]
    if k == "gen":
        return ["gen", random_spec(rng, depth - 1, "gen", in_loop)]
    if k == "call":
        return ["call", random_spec(rng, depth - 1, "gen", in_loop)]
    if k == "nseed":
        return ["nseed", random_spec(rng, depth - 1, "plain", True)]  # no nseed / no loops above a nested nseed
    raise ValueError(k)


def _depth(node):
    k = node[0]
    if k == "site":
        return 0
    if k == "seq":
        return 1 + max(_depth(c) for c in node[1])
    return 1 + _depth(node[1])


def plan(tier, seed):
    progs = [(name, spec) for name, spec in CATALOGUE]
    if tier == "thorough":
        rng = np.random.default_rng([seed, 7, 0])
        seen = {sig(s) for _, s in progs}
        tries = 0
        while len(progs) < 124 and tries < 20000:
            tries += 1
            spec = random_spec(rng, 3)
            P = n_positions(spec)
            a, b = expected_events(spec)
            if not (6 <= P <= MAX_POSITIONS) or b > 160 or _depth(spec) < (3 if tries % 2 else 2):
                continue
            sg = sig(spec)
            if sg in seen:
                continue
            seen.add(sg)
            progs.append(("random:" + sg, spec))
    total = sum(n_tests(spec) for _, spec in progs)
    alpha = FAMILY_ALPHA / total
    cases = []
    for i, (name, spec) in enumerate(progs):
        cases.append({"name": name, "spec": spec, "n": N_BATCH[tier], "m": M_KEYRUNS[tier], "alpha": alpha,
                      "rng": [int(seed), 7, 1000 + i]})
    # heavy shapes first so that the shards balance
    order = sorted(range(len(cases)), key=lambda i: -n_positions(cases[i]["spec"]))
    return [cases[i] for i in order]


# ---------------------------------------------------------------------------
# worker side: hooks
# ---------------------------------------------------------------------------
_W = {}
_H = {"on": False, "cur": None, "log": []}


def _rec(kind, tag, *xs):
    _H["log"].append((kind, tag) + tuple(np.array(x) for x in xs))


def worker_setup(ctx):
    import jax
    import jax.numpy as jnp
    import genjax
    from genjax import pjax

    _W.update(jax=jax, jnp=jnp, genjax=genjax, pjax=pjax, fns={})
    kd = jax.random.key_data

    # (a) sub-key handed to every flat sampler
    orig_get = pjax.FlatSamplerCache.get_flat_sampler

    def get_flat_sampler(self, *a, **k):
        flat = orig_get(self, *a, **k)

        def flat_with_key_record(key, *args, **params):
            if _H["on"]:
                jax.debug.callback(lambda d: _rec("site", None, d), kd(key))
            return flat(key, *args, **params)

        return flat_with_key_record

    pjax.FlatSamplerCache.get_flat_sampler = get_flat_sampler

    # (b) key every keyed sampler draws from (per lane under with_lanes); tagged with the syntactic site
    orig_binder = pjax.sample_binder

    def sample_binder(keyful_sampler, *a, **k):
        tag = _H["cur"]

        def keyful_with_key_record(key, *args, sample_shape=(), **kw):
            if _H["on"]:
                jax.debug.callback(lambda d: _rec("leaf", tag, d), kd(key))
            return keyful_sampler(key, *args, sample_shape=sample_shape, **kw)

        return orig_binder(keyful_with_key_record, *a, **k)

    pjax.sample_binder = sample_binder

    # (c) every split / fold_in performed inside pjax (Seed interpreter, lane sampler)
    class JRandProxy:
        def __getattr__(self, name):
            return getattr(jax.random, name)

        def split(self, key, num=2):
            out = jax.random.split(key, num)
            if _H["on"]:
                jax.debug.callback(lambda p, c: _rec("split", None, p, c), kd(key), kd(out))
            return out

        def fold_in(self, key, data):
            out = jax.random.fold_in(key, data)
            if _H["on"]:
                jax.debug.callback(lambda p, d, c: _rec("fold", None, p, d, c), kd(key), jnp.asarray(data), kd(out))
            return out

    pjax.jrand = JRandProxy()
    _W["hooks"] = ("FlatSamplerCache.get_flat_sampler", "sample_binder", "jrand")


# ---------------------------------------------------------------------------
# worker side: spec -> real genjax program
# ---------------------------------------------------------------------------
def build(spec):
    """Returns prog(inner_key) -> nested tuples of arrays.  Fresh closures / gen functions at every call, so
    that nothing staged with the hooks on is reused with the hooks off."""
    jax, jnp = _W["jax"], _W["jnp"]
    from genjax import normal, uniform, gen, Scan, Cond, const, seed, modular_vmap

    env = {"ik": None, "nseed": 0}
    f32 = jnp.float32

    def addr(path):
        return "a" + path.replace(".T", ".B").replace(".F", ".B")

    def mk(node, path, fl):
        k = node[0]
        if k == "site":
            dist = normal if node[1] == "n" else uniform
            ss = tuple(node[2])
            if fl == "plain":

                def run(loc):
                    _H["cur"] = path
                    try:
                        if ss:
                            return dist.sample(loc, 1.0, sample_shape=ss)
                        return dist.sample(loc, 1.0)
                    finally:
                        _H["cur"] = None

            else:
                assert not ss

                def run(loc):
                    _H["cur"] = path
                    try:
                        return dist(loc, 1.0) @ addr(path)
                    finally:
                        _H["cur"] = None

            return run
        if k == "seq":
            subs = [mk(c, f"{path}.{i}", fl) for i, c in enumerate(node[1])]
            return lambda loc: tuple(s(loc) for s in subs)
        if k == "scan":
            sub = mk(node[1], path + ".b", fl)
            T = int(node[2])
            if fl == "plain":

                def run(loc):
                    def body(c, x):
                        return c, sub(loc)

                    return jax.lax.scan(body, f32(0.0), jnp.arange(T, dtype=f32))[1]

            else:
                step = gen(lambda c, x: (c, sub(c)))
                comb = Scan(step, length=const(T))

                def run(loc):
                    return (comb(jnp.asarray(loc, f32), jnp.zeros(T, f32)) @ addr(path))[1]

            return run
        if k in ("vmapb", "vmapu"):
            n = int(node[2])
            child = node[1]
            if fl == "plain":
                sub = mk(child, path + ".v", fl)
                if k == "vmapb":
                    return lambda loc: modular_vmap(lambda z: sub(loc + z))(jnp.zeros(n, f32))
                return lambda loc: modular_vmap(lambda: sub(loc), axis_size=n)()
            if child[0] == "site":  # the distribution itself is vectorized
                dist = normal if child[1] == "n" else uniform
                tag = path + ".v"
                g = dist.vmap(in_axes=(0, None)) if k == "vmapb" else dist.repeat(n)

                def run(loc):
                    _H["cur"] = tag
                    try:
                        if k == "vmapb":
                            return g(loc + jnp.zeros(n, f32), 1.0) @ addr(tag)
                        return g(loc, 1.0) @ addr(tag)
                    finally:
                        _H["cur"] = None

                return run
            sub = mk(child, path + ".v", fl)
            g0 = gen(lambda l: sub(l))
            if k == "vmapb":
                g = g0.vmap(in_axes=0)
                return lambda loc: g(loc + jnp.zeros(n, f32)) @ addr(path)
            g = g0.repeat(n)
            return lambda loc: g(loc) @ addr(path)
        if k == "cond":
            pred = mk(["site", "n", []], path + ".p", fl)
            subT = mk(node[1], path + ".T", fl)
            subF = mk(node[1], path + ".F", fl)
            if fl == "plain":

                def run(loc):
                    p = pred(loc)
                    return (p, jax.lax.cond(p > 0.0, lambda: subT(loc), lambda: subF(loc)))

            else:
                comb = Cond(gen(lambda l: subT(l)), gen(lambda l: subF(l)))

                def run(loc):
                    p = pred(loc)
                    return (p, comb(p > 0.0, loc) @ addr(path))

            return run
        if k == "gen":
            assert fl == "plain"
            sub = mk(node[1], path + ".g", "gen")
            g = gen(lambda l: sub(l))
            return lambda loc: g.simulate(loc).get_retval()
        if k == "call":
            assert fl == "gen"
            sub = mk(node[1], path + ".c", "gen")
            g = gen(lambda l: sub(l))
            return lambda loc: g(loc) @ addr(path)
        if k == "nseed":
            assert fl == "plain"
            sub = mk(node[1], path + ".n", "plain")
            env["nseed"] += 1
            idx = env["nseed"]

            def run(loc):
                ik = jax.random.fold_in(env["ik"], idx)
                if _H["on"]:
                    jax.debug.callback(lambda d: _rec("root", path, d), jax.random.key_data(ik))
                return seed(lambda: sub(loc))(ik)

            return run
        raise ValueError(k)

    root = mk(spec, "r", "plain")

    def prog(ik):
        env["ik"] = ik
        try:
            return root(0.0)
        finally:
            env["ik"] = None

    return prog


def _keys_from(rng, n):
    jax, jnp = _W["jax"], _W["jnp"]
    data = rng.integers(0, 2**32, size=(n, 2), dtype=np.uint32)
    return jax.random.wrap_key_data(jnp.asarray(data)), data


# ---------------------------------------------------------------------------
# monitors
# ---------------------------------------------------------------------------
def _kt(a):
    return tuple(int(v) for v in np.asarray(a).ravel())


def _check_key_log(name, log, roots, ctx, detail0, seen):
    """Oracle over the key events of ONE run.  Returns (#flat-sampler keys, #sampler keys, #splits)."""

    def viol(key, detail):
        if key not in seen:  # one replay record per mechanism and program is enough
            seen.add(key)
            ctx.violation(key, {**detail0, **detail})

    sites = [_kt(e[2]) for e in log if e[0] == "site"]
    leafs = [(e[1], _kt(e[2])) for e in log if e[0] == "leaf"]
    roots = set(roots) | {_kt(e[2]) for e in log if e[0] == "root"}
    # --- sampler keys pairwise distinct, different from every root
    by_key = {}
    for tag, k in leafs:
        by_key.setdefault(k, []).append(tag)
    for k, tags in by_key.items():
        if len(tags) > 1:
            rel = "same-site" if len(set(tags)) == 1 else "different-sites"
            viol(f"{name}|{rel}|subkey-reused", {"key_data": list(k), "drawn_from_at_sites": tags[:8], "times": len(tags)})
    cnt = {}
    for k in sites:
        cnt[k] = cnt.get(k, 0) + 1
    for k, c in cnt.items():
        if c > 1:
            viol(f"{name}|flat-sampler|subkey-reused", {"key_data": list(k), "times": c})
    for k in set(cnt) | set(by_key):
        if k in roots:
            viol(f"{name}|root-key|subkey-equals-root", {"key_data": list(k), "sites": by_key.get(k, [])[:4]})
    # --- lineage: every key is consumed at most once
    use = {}
    nsplit = 0
    for e in log:
        if e[0] == "split":
            use.setdefault(_kt(e[2]), []).append("split")
            nsplit += 1
        elif e[0] == "fold":
            use.setdefault(_kt(e[2]), []).append(("fold_in", int(np.asarray(e[3]))))
            nsplit += 1
    for k in by_key:
        use.setdefault(k, []).append("sample")  # repeated sampling is reported above as subkey-reused
    for k, us in use.items():
        folds = [u[1] for u in us if isinstance(u, tuple)]
        kinds = sorted({u for u in us if isinstance(u, str)} | ({"fold_in"} if folds else set()))
        if us.count("split") > 1:
            viol(f"{name}|split+split|key-consumed-twice", {"key_data": list(k), "uses": [str(u) for u in us][:8]})
        elif len(kinds) > 1:
            viol(f"{name}|{'+'.join(kinds)}|key-consumed-twice", {"key_data": list(k), "uses": [str(u) for u in us][:8]})
        elif len(folds) != len(set(folds)):
            viol(f"{name}|fold_in-same-data|key-consumed-twice", {"key_data": list(k), "fold_data": folds[:8]})
    return len(sites), len(leafs), nsplit


def _positions(lvs):
    pos = []
    for li, lf in enumerate(lvs):
        shape = tuple(a[1] for a in lf["axes"])
        for idx in np.ndindex(*shape):
            pos.append((li, tuple(int(i) for i in idx)))
    return pos


def _relation(lvs, pa, pb):
    (la, ia), (lb, ib) = pa, pb
    A, B = lvs[la]["axes"], lvs[lb]["axes"]
    if la == lb:
        kinds = {A[d][0] for d in range(len(A)) if ia[d] != ib[d]}
        return "+".join(sorted(AX_NAME[k] for k in kinds))
    kinds = set()
    for d in range(min(len(A), len(B))):
        if A[d][2] != B[d][2]:
            break
        if ia[d] != ib[d]:
            kinds.add(A[d][0])
    return "+".join(["statements"] + sorted(AX_NAME[k] for k in kinds))


def _poslabel(lvs, p):
    lf = lvs[p[0]]
    return lf["tag"] + "".join(f"[{a[0]}={i}]" for a, i in zip(lf["axes"], p[1]))


def _check_batch(name, lvs, arrs, n, alpha, ctx, detail0):
    from lib import c07_stats as st7

    pos = _positions(lvs)
    P = len(pos)
    # ---- shapes
    for li, lf in enumerate(lvs):
        want = (n,) + tuple(a[1] for a in lf["axes"])
        if tuple(arrs[li].shape) != want:
            ctx.violation(f"{name}|output-shape|differs",
                          {**detail0, "leaf": lf["tag"], "shape": list(arrs[li].shape), "expected": list(want)})
            return
    X = np.concatenate([np.asarray(a).reshape(n, -1) for a in arrs], axis=1)
    assert X.shape == (n, P)
    if not np.all(np.isfinite(X)):
        j = int(np.argmax(~np.all(np.isfinite(X), axis=0)))
        ctx.violation(f"{name}|{lvs[pos[j][0]]['dist']}-site|non-finite-draw", {**detail0, "position": _poslabel(lvs, pos[j])})
        return
    dist = [lvs[p[0]]["dist"] for p in pos]
    U = np.empty((n, P))
    Z = np.empty((n, P))
    for d in ("n", "u"):
        cols = [j for j in range(P) if dist[j] == d]
        if cols:
            U[:, cols], Z[:, cols] = st7.pit(X[:, cols], d)
    found = {}  # (relation, what) -> [worst detail, #pairs]

    def flag(rel, what, score, detail):
        cur = found.get((rel, what))
        if cur is None:
            found[(rel, what)] = [score, detail, 1]
        else:
            cur[2] += 1
            if score > cur[0]:
                cur[0], cur[1] = score, detail

    # ---- per-position law
    eps = st7.dkw_eps(n, alpha)
    D = st7.ks_columns(U)
    ctx.count("law_tests", P)
    for j in np.nonzero(D > eps)[0]:
        flag({"n": "normal-site", "u": "uniform-site"}[dist[j]], "marginal-law", float(D[j]),
             {"position": _poslabel(lvs, pos[j]), "ks_distance": float(D[j]), "bound": eps,
              "mean": float(X[:, j].mean()), "std": float(X[:, j].std())})
    # ---- all pairs
    rc = st7.r_crit(n, alpha)
    R = st7.corr_matrix(Z)
    C = st7.pair_cell_counts(st7.quartile_bins(U))
    lo, hi = st7.binom_band(n, 1.0 / 16.0, alpha / 16.0)
    keq = st7.equal_crit(n, alpha)
    npairs = P * (P - 1) // 2
    ctx.count("pair_tests", 2 * npairs)
    for i in range(P - 1):
        same = np.array([dist[j] == dist[i] for j in range(i + 1, P)])
        eqc = np.sum(X[:, i : i + 1] == X[:, i + 1 :], axis=0)
        ctx.count("equal_draw_tests", int(same.sum()))
        for jj in range(P - 1 - i):
            j = i + 1 + jj
            r = float(R[i, j])
            cells = C[i, j]
            bad_eq = bool(same[jj]) and eqc[jj] >= keq
            bad_r = abs(r) > rc
            bad_c = cells.min() <= lo or cells.max() >= hi
            if not (bad_eq or bad_r or bad_c):
                continue
            rel = _relation(lvs, pos[i], pos[j])
            det = {"positions": [_poslabel(lvs, pos[i]), _poslabel(lvs, pos[j])], "runs": n,
                   "runs_with_equal_draws": int(eqc[jj]), "equal_draw_bound": keq,
                   "score_correlation": r, "correlation_bound": rc,
                   "quartile_table": cells.astype(int).tolist(), "cell_band": [lo, hi],
                   "first_run_values": [float(X[0, i]), float(X[0, j])]}
            if bad_eq:
                flag(rel, "equal-draws", float(eqc[jj]), det)
            elif bad_r:
                flag(rel, "correlated", abs(r), det)
            else:
                flag(rel, "dependent-4x4", float(max(cells.max() - n / 16, n / 16 - cells.min())), det)
    # ---- pooled lag-1 along every axis (disjoint pairs: exact t law with n * #pairs samples)
    off = 0
    for li, lf in enumerate(lvs):
        shape = tuple(a[1] for a in lf["axes"])
        size = int(np.prod(shape, dtype=np.int64))
        Zl = Z[:, off : off + size].reshape((n,) + shape)
        off += size
        for d, ax in enumerate(lf["axes"]):
            for start in (0, 1):
                m = (ax[1] - start) // 2
                if m < 1:
                    continue
                A = np.moveaxis(Zl, d + 1, -1)
                x = A[..., start : start + 2 * m : 2]
                y = A[..., start + 1 : start + 2 * m : 2]
                N = x.size
                r = st7.corr_xy(x, y)
                ctx.count("lag_tests")
                if abs(r) > st7.r_crit(N, alpha):
                    flag(AX_NAME[ax[0]], "correlated-lag1-pooled", abs(r),
                         {"leaf": lf["tag"], "axis": ax[0], "pairs_pooled": int(N), "score_correlation": r,
                          "correlation_bound": float(st7.r_crit(N, alpha))})
    for (rel, what), (score, det, cnt) in sorted(found.items()):
        ctx.violation(f"{name}|{rel}|{what}", {**detail0, **det, "pairs_or_positions_flagged": cnt})


# ---------------------------------------------------------------------------
# one case = one program shape
# ---------------------------------------------------------------------------
def run_case(case, ctx):
    jax, jnp = _W["jax"], _W["jnp"]
    from genjax import seed
    from lib import c07_stats as st7

    name, spec, n, m, alpha = case["name"], case["spec"], int(case["n"]), int(case["m"]), float(case["alpha"])
    lvs = leaves(spec)
    P = n_positions(spec)
    detail0 = {"program": name, "spec": spec, "rng": case["rng"]}
    if P >= 2:
        ctx.distinct("nontrivial", spec)
    d = st7.detectable(n, alpha)
    ctx.note(
        f"{ctx.tier}: n={n} keys per shape, alpha per test={alpha:.3g} (family-wise {FAMILY_ALPHA:g} over all planned tests); "
        f"rejects |corr of normal scores| > {d['abs_correlation']:.4f} (exact t), KS distance > {d['ks_distance']:.4f} (DKW), "
        f"4x4 quartile cell outside {d['cell_count_band']} of mean {n / 16:.0f} (exact binomial; a bivariate-normal "
        f"correlation of about {d['abs_correlation_seen_by_cells']:.3f}), bitwise-equal draws in >= {d['equal_draw_runs']} runs; "
        f"pooled lag-1 tests along an axis of length T reject |corr| > {d['abs_correlation']:.4f}/sqrt(T/2) or less"
    )
    ctx.note(
        "key hooks (no repo edit): pjax.FlatSamplerCache.get_flat_sampler (sub-key per flat sampler), pjax.sample_binder "
        "(key per keyed-sampler draw, per lane), pjax.jrand proxy (every split / fold_in inside pjax); all via jax.debug.callback "
        "under jit, verified inside lax.scan, lax.cond, modular_vmap lanes and the combinators by the expected event counts"
    )
    rng = np.random.default_rng(case["rng"])
    inner_root = jax.random.key(int(rng.integers(0, 2**31)))

    # ---------------- monitor 1: keys, per run --------------------------------------------------
    _H["on"] = True
    _H["log"].clear()
    try:
        fk = jax.jit(seed(build(spec)))
        keys, kdata = _keys_from(rng, m)
        ikeys = jax.random.split(inner_root, m)
        seen = set()
        exp_sites, exp_leafs = expected_events(spec)
        first = None
        for r in range(m):
            _H["log"].clear()
            out = ctx.call(fk, keys[r], ikeys[r])
            _H["on"] = False  # traced once; later calls reuse the executable
            if hasattr(out, "brief"):
                ctx.violation(f"{name}|seed|raises:{out.type}", {**detail0, "key_data": kdata[r].tolist(), **out.brief()})
                return
            jax.block_until_ready(out)
            jax.effects_barrier()
            log = list(_H["log"])
            ns, nl, nsp = _check_key_log(name, log, [_kt(kdata[r])], ctx, {**detail0, "key_data": kdata[r].tolist()}, seen)
            ctx.count("flat_sampler_keys_observed", ns)
            ctx.count("sampler_keys_observed", nl)
            ctx.count("splits_observed", nsp)
            if ns == 0 or nl == 0 or nsp == 0:
                ctx.count("key_runs_unobserved")
            elif (ns, nl) != (exp_sites, exp_leafs):
                ctx.count("key_runs_event_count_unexpected")
                ctx.note(f"{name}: observed {ns} flat-sampler / {nl} sampler keys, expected {exp_sites} / {exp_leafs}")
            else:
                ctx.count("key_runs")
            if first is None:
                first = (kdata[r].tolist(), out, log)
        ctx.evaluation(m)
    finally:
        _H["on"] = False
        _H["log"].clear()

    # ---------------- monitor 2: values, over key batches ---------------------------------------
    fb = jax.jit(jax.vmap(seed(build(spec))))
    chunks = []
    for s in range(0, n, CHUNK):
        c = min(CHUNK, n - s)
        keys, _ = _keys_from(rng, c)
        ikeys = jax.random.split(jax.random.fold_in(inner_root, 1 + s), c)
        out = ctx.call(fk_guard, fb, keys, ikeys)
        if hasattr(out, "brief"):
            ctx.violation(f"{name}|vmap-seed|raises:{out.type}", {**detail0, **out.brief()})
            return
        chunks.append([np.asarray(a) for a in jax.tree_util.tree_leaves(out)])
    if len(_H["log"]):
        raise RuntimeError("hooks fired while switched off")
    if len(chunks[0]) != len(lvs):
        ctx.violation(f"{name}|output-shape|differs", {**detail0, "leaves": len(chunks[0]), "expected": len(lvs)})
        return
    arrs = [np.concatenate([c[i] for c in chunks], axis=0) for i in range(len(lvs))]
    ctx.count("batch_runs", n)
    ctx.evaluation(n)
    _check_batch(name, lvs, arrs, n, alpha, ctx, detail0)
    if first is not None:
        kd0, out0, log0 = first
        ctx.sample({
            "program": name, "spec": spec, "key_data": kd0,
            "values_of_that_run": [np.asarray(a).round(4).tolist() for a in jax.tree_util.tree_leaves(out0)][:6],
            "sampler_keys_of_that_run": [[e[1], list(_kt(e[2]))] for e in log0 if e[0] == "leaf"][:8],
            "positions": P, "batch_runs": n,
        })


def fk_guard(f, *a):
    return f(*a)
