"""C16 — selections are a Boolean algebra on addresses; filter/merge partition
choices; the same leaves are what regenerate resamples and mala/hmc move.

Oracle: ``lib.selspec.ref_selected`` interprets an expression as a *set of leaf
paths* with Python booleans (no genjax code).  Monitors:

  chain    real ``match`` chain + leaf test along every path == reference
  filter   Fn/Vmap/Scan/Cond ``filter`` parts: exact leaf sets, disjoint, merge == x
  regen    leaves whose value changes under seed(gf.regenerate) == reference set
  mala/hmc leaves moved by an accepted kernel step == reference set
"""

from __future__ import annotations

import numpy as np

from lib import selspec as S

PROPERTY = "C16"
LEVEL = "exploration"
RULE = (
    "selection expressions over alphabet {a,b,c}: all atoms (none, all, str, tuples to length 3) and all "
    "depth-1 combinations enumerated, deeper nestings (<=2 quick, <=3 thorough) sampled from VERIF_SEED; "
    "each is checked on all 39 address paths of depth<=3 and on 5 choice-map shapes; distinct_nontrivial = "
    "distinct (shape, selected-leaf-set) pairs where the set is neither empty nor everything"
)
ASSUMPTIONS = [
    "set-of-leaf-paths reading of the selection language as stated in the property",
    "JAX API translation layer (DESIGN §2)",
]
ALPHABET = ["a", "b", "c"]
FLOORS = {
    "quick": {"chain_checks": 100000, "filter_checks": 10000, "regen_checks": 100, "mala_checks": 40, "hmc_checks": 40},
    "thorough": {"chain_checks": 1000000, "filter_checks": 100000, "regen_checks": 400, "mala_checks": 150, "hmc_checks": 150},
}
TIMEOUT_S = {"quick": 900, "thorough": 3600}

# choice-map / program shapes.  Leaves: "L" scalar site, "V<n>" vectorized
# distribution leaf, ("vmapfn", sub, n), ("cond", sub), ("scan", sub, n)
TREES = [
    {"a": {"b": "L", "c": "L"}, "b": "L"},
    {"a": {"a": {"a": "L", "b": "L"}, "b": "L"}, "b": {"c": "L"}, "c": "L"},
    {"a": "V3", "b": {"a": "L", "c": "V2"}, "c": {"b": {"c": "L"}}},
    {"a": ("vmapfn", {"a": "L", "b": "L"}, 3), "b": ("cond", {"a": "L", "c": "L"}), "c": ("scan", {"b": "L"}, 2)},
    {"c": {"a": "L"}, "a": {"c": {"b": "L", "a": "L"}, "a": "L"}},
]
KERNEL_TREES = [0, 1, 2, 4]  # mala / hmc: plain nesting and vector leaves


def shape_of(tree):
    """Plain nested-dict skeleton (leaf marker strings) of a TREES entry."""
    out = {}
    for k, v in tree.items():
        if isinstance(v, dict):
            out[k] = shape_of(v)
        elif isinstance(v, (tuple, list)):
            out[k] = shape_of(v[1])
        else:
            out[k] = v
    return out


ALL_PATHS = [
    p for n in (1, 2, 3) for p in __import__("itertools").product(ALPHABET, repeat=n)
]


def gen_exprs(tier, seed):
    base = S.atoms(ALPHABET, 3)
    exprs = list(base) + S.depth1(ALPHABET, base)
    rng = np.random.default_rng([seed, 16])
    n_rand = 2500 if tier == "quick" else 40000
    maxd = 2 if tier == "quick" else 3
    for _ in range(n_rand):
        d = int(rng.integers(2, maxd + 1))
        exprs.append(S.random_expr(rng, ALPHABET, d))
    return exprs


def plan(tier, seed):
    exprs = gen_exprs(tier, seed)
    cases = []
    chunk = 150 if tier == "quick" else 600
    for i in range(0, len(exprs), chunk):
        cases.append({"kind": "algebra", "exprs": exprs[i : i + chunk]})
    # gfi cases: representatives per (tree, selected set)
    reps = 2 if tier == "quick" else 6
    rng = np.random.default_rng([seed, 1616])
    for ti, tree in enumerate(TREES):
        leaves = S.leaf_paths(shape_of(tree))
        by_set = {}
        for e in exprs:
            by_set.setdefault(S.ref_set(e, leaves), []).append(e)
        for st, es in sorted(by_set.items(), key=lambda kv: sorted(kv[0])):
            es_sorted = sorted(es, key=S.size)
            chosen = [es_sorted[0]]
            others = es_sorted[1:]
            if others:
                idx = rng.choice(len(others), size=min(reps - 1, len(others)), replace=False)
                chosen += [others[int(j)] for j in idx]
            for e in chosen:
                cases.append({"kind": "gfi", "tree": ti, "expr": e})
    return cases


# ---------------------------------------------------------------------------
# worker side
# ---------------------------------------------------------------------------
_W = {}


def worker_setup(ctx):
    import jax
    import jax.numpy as jnp
    import genjax
    from genjax import gen, normal, Scan, Cond, const

    _W.update(jax=jax, jnp=jnp, genjax=genjax)
    dummy = gen(lambda: None)
    _W["dummy"] = dummy

    def build_prog(tree):
        # sub-programs are built once, outside the body, so that every trace of
        # the program refers to the *same* generative-function objects
        items = []
        for k, v in tree.items():
            if v == "L":
                items.append((k, "L", None, None))
            elif isinstance(v, str) and v.startswith("V"):
                items.append((k, "V", int(v[1:]), normal.vmap(in_axes=(0, None))))
            elif isinstance(v, dict):
                items.append((k, "call", None, build_prog(v)))
            elif v[0] == "vmapfn":
                items.append((k, "vmapfn", v[2], build_prog(v[1]).repeat(v[2])))
            elif v[0] == "cond":
                sub = build_prog(v[1])
                items.append((k, "cond", None, Cond(sub, sub)))
            elif v[0] == "scan":
                sub = build_prog(v[1])
                items.append((k, "scan", v[2], Scan(_scan_step(sub), length=const(v[2]))))
            else:
                raise ValueError(v)

        def body():
            total = jnp.array(0.0)
            for k, kind, n, gf in items:
                if kind == "L":
                    total = total + normal(0.0, 1.0) @ k
                elif kind == "V":
                    xs = gf(jnp.zeros(n), 1.0) @ k
                    total = total + jnp.sum(xs)
                elif kind == "call":
                    total = total + gf() @ k
                elif kind == "vmapfn":
                    total = total + jnp.sum(gf() @ k)
                elif kind == "cond":
                    total = total + gf(total > -1e9) @ k
                elif kind == "scan":
                    c, _ = gf(jnp.array(0.0), jnp.zeros(n)) @ k
                    total = total + c
            return total

        return gen(body)

    def _scan_step(sub):
        # a step function whose own addresses are those of ``sub``
        src = sub.source.value

        def step(c, x):
            r = src()
            return c + r, r

        return gen(step)

    _W["progs"] = [build_prog(t) for t in TREES]
    _W["shapes"] = [shape_of(t) for t in TREES]
    _W["leaves"] = [S.leaf_paths(s) for s in _W["shapes"]]
    # plain choice maps for the filter monitor (distinct value per leaf)
    cms = []
    for s in _W["shapes"]:
        cnt = [0]

        def fill(t):
            out = {}
            for k, v in t.items():
                if isinstance(v, dict):
                    out[k] = fill(v)
                else:
                    cnt[0] += 1
                    n = int(v[1:]) if v.startswith("V") else None
                    out[k] = (
                        jnp.arange(n, dtype=jnp.float32) + 10.0 * cnt[0] if n else jnp.array(float(cnt[0]))
                    )
            return out

        cms.append(fill(s))
    _W["cms"] = cms
    _W["traces"] = {}


def _leafset(cm, prefix=()):
    if cm is None:
        return {}
    out = {}
    for k, v in cm.items():
        if isinstance(v, dict):
            out.update(_leafset(v, prefix + (k,)))
        else:
            out[prefix + (k,)] = v
    return out


def _pathstr(ps):
    return sorted("/".join(p) for p in ps)


def run_case(case, ctx):
    if case["kind"] == "algebra":
        return _run_algebra(case, ctx)
    return _run_gfi(case, ctx)


def _classify_filter(e, ref, got_sel):
    """Mechanism key for a filter disagreement (DESIGN §3.8)."""
    extra = set(got_sel) - set(ref)
    missing = set(ref) - set(got_sel)
    if extra and not missing:
        return "filter|selects-unselected-leaf"
    if missing and not extra:
        return "filter|drops-selected-leaf"
    return "filter|selected-set-differs"


def _run_algebra(case, ctx):
    jnp = _W["jnp"]
    dummy = _W["dummy"]
    np_ = np
    for e in case["exprs"]:
        ctx.evaluation()
        s = ctx.call(S.build, e)
        if hasattr(s, "brief"):
            ctx.violation("build|raises:" + s.type, {"expr": S.show(e), **s.brief()})
            continue
        # ---- chain monitor
        for p in ALL_PATHS:
            got = ctx.call(S.real_selected, s, p)
            ctx.count("chain_checks")
            if hasattr(got, "brief"):
                ctx.violation("chain|raises:" + got.type, {"expr": S.show(e), "path": "/".join(p), **got.brief()})
                break
            want = S.ref_selected(e, p)
            if bool(got) != want:
                ctx.violation(
                    "chain|membership-differs|" + _top(e),
                    {"expr": S.show(e), "path": "/".join(p), "real": bool(got), "reference": want},
                )
                break
        # ---- filter monitor on every shape
        for ti, cm in enumerate(_W["cms"]):
            leaves = _W["leaves"][ti]
            ref = S.ref_set(e, leaves)
            if 0 < len(ref) < len(leaves):
                ctx.distinct("nontrivial", [ti, _pathstr(ref)])
            res = ctx.call(dummy.filter, cm, s)
            ctx.count("filter_checks")
            if hasattr(res, "brief"):
                ctx.violation("filter|raises:" + res.type, {"expr": S.show(e), "tree": ti, **res.brief()})
                continue
            a, b = res
            la, lb = _leafset(a), _leafset(b)
            full = _leafset(cm)
            bad = None
            if set(la) != set(ref):
                bad = _classify_filter(e, ref, la)
            elif set(la) & set(lb):
                bad = "filter|parts-overlap"
            elif set(la) | set(lb) != set(full):
                bad = "filter|parts-lose-leaf"
            elif any(la[p] is not full[p] for p in la) or any(lb[p] is not full[p] for p in lb):
                bad = "filter|value-changed"
            if bad:
                ctx.violation(
                    bad,
                    {
                        "expr": S.show(e),
                        "tree": ti,
                        "choice_map_leaves": _pathstr(full),
                        "reference_selected": _pathstr(ref),
                        "filter_selected": _pathstr(la),
                        "filter_unselected": _pathstr(lb),
                    },
                )
                continue
            # merge of the two parts gives x back
            if a is None or b is None:
                merged = a if b is None else b
            else:
                mr = ctx.call(dummy.merge, a, b)
                if hasattr(mr, "brief"):
                    ctx.violation("merge|raises:" + mr.type, {"expr": S.show(e), "tree": ti, **mr.brief()})
                    continue
                merged = mr[0]
            lm = _leafset(merged)
            ctx.count("merge_checks")
            if set(lm) != set(full) or any(lm[p] is not full[p] for p in lm):
                ctx.violation(
                    "merge|parts-do-not-rebuild-x",
                    {"expr": S.show(e), "tree": ti, "merged": _pathstr(lm), "x": _pathstr(full)},
                )
        # ---- vectorized / scan / cond wrappers delegate filter (shape 0 stacked)
        if ctx.counters.get("chain_checks", 0) % 7 == 0:
            _filter_wrappers(e, s, ctx)
    if case.get("index", 0) == 0:
        e = case["exprs"][min(50, len(case["exprs"]) - 1)]
        ctx.sample(
            {
                "kind": "algebra",
                "expr": S.show(e),
                "selected_paths_reference": _pathstr(p for p in ALL_PATHS if S.ref_selected(e, p))[:12],
            }
        )


def _filter_wrappers(e, s, ctx):
    jnp = _W["jnp"]
    from genjax import Scan, Cond, const

    dummy = _W["dummy"]
    cm = _W["cms"][0]
    leaves = _W["leaves"][0]
    ref = S.ref_set(e, leaves)
    import jax

    stacked = jax.tree_util.tree_map(lambda v: jnp.stack([v, v + 100.0, v + 200.0]), cm)
    wrappers = {
        "vmap": dummy.vmap(in_axes=()),
        "scan": Scan(dummy, length=const(3)),
        "cond": Cond(dummy, dummy),
    }
    for name, gf in wrappers.items():
        res = ctx.call(gf.filter, stacked, s)
        ctx.count("filter_wrapper_checks")
        if hasattr(res, "brief"):
            ctx.violation(f"filter-{name}|raises:" + res.type, {"expr": S.show(e), **res.brief()})
            continue
        a, b = res
        la, lb = _leafset(a), _leafset(b)
        full = _leafset(stacked)
        ok = set(la) == set(ref) and set(lb) == set(full) - set(ref)
        if ok:
            for p, v in list(la.items()) + list(lb.items()):
                if v.shape != full[p].shape or not bool(jnp.all(v == full[p])):
                    ok = False
        if not ok:
            ctx.violation(
                f"filter-{name}|selected-set-differs",
                {
                    "expr": S.show(e),
                    "reference_selected": _pathstr(ref),
                    "filter_selected": _pathstr(la),
                    "filter_unselected": _pathstr(lb),
                },
            )


def _top(e):
    return e[0]


def _get_trace(ti):
    jax = _W["jax"]
    from genjax import seed

    if ti not in _W["traces"]:
        _W["traces"][ti] = seed(_W["progs"][ti].simulate)(jax.random.key(1000 + ti))
    return _W["traces"][ti]


def _changed(old, new):
    """Classify each leaf: 'all' elements changed, 'none', or 'some'."""
    jnp = _W["jnp"]
    lo, ln = _leafset(old), _leafset(new)
    out = {}
    for p in lo:
        if p not in ln:
            out[p] = "missing"
            continue
        d = np.asarray(lo[p] != ln[p])
        out[p] = "all" if d.all() else ("none" if not d.any() else "some")
    return out


def _run_gfi(case, ctx):
    jax, jnp = _W["jax"], _W["jnp"]
    from genjax import seed, state
    from genjax.inference import mala, hmc

    ti, e = case["tree"], case["expr"]
    prog = _W["progs"][ti]
    leaves = _W["leaves"][ti]
    ref = S.ref_set(e, leaves)
    ctx.evaluation()
    if 0 < len(ref) < len(leaves):
        ctx.distinct("nontrivial", [ti, _pathstr(ref)])
    s = S.build(e)
    tr = _get_trace(ti)
    old = tr.get_choices()
    detail0 = {"expr": S.show(e), "tree": ti, "reference_selected": _pathstr(ref)}

    # ---- regenerate
    res = ctx.call(lambda: seed(prog.regenerate)(jax.random.key(7), tr, s))
    ctx.count("regen_checks")
    if hasattr(res, "brief"):
        ctx.violation("regenerate|raises:" + res.type, {**detail0, **res.brief()})
    else:
        new_tr, w, discard = res
        ch = _changed(old, new_tr.get_choices())
        got = {p for p, c in ch.items() if c == "all"}
        partial = {p for p, c in ch.items() if c in ("some", "missing")}
        if partial or got != set(ref):
            ctx.violation(
                "regenerate|resampled-set-differs",
                {**detail0, "resampled": _pathstr(got), "partially_changed": _pathstr(partial)},
            )
        else:
            # filter on the program's own choice map agrees as well
            fr = ctx.call(prog.filter, old, s)
            if hasattr(fr, "brief"):
                ctx.violation("filter|raises:" + fr.type, {**detail0, **fr.brief()})
            else:
                la = _leafset(fr[0])
                ctx.count("filter_vs_regen_checks")
                if set(la) != got:
                    ctx.violation(
                        _classify_filter(e, ref, la),
                        {**detail0, "filter_selected": _pathstr(la), "resampled": _pathstr(got)},
                    )
    if ti not in KERNEL_TREES:
        return
    # ---- mala / hmc
    for name, kern in (
        ("mala", lambda t: mala(t, s, 0.05)),
        ("hmc", lambda t: hmc(t, s, 0.02, 2)),
    ):
        moved = None
        raised = None
        for attempt in range(4):
            r = ctx.call(lambda: seed(state(kern))(jax.random.key(50 + attempt), tr))
            if hasattr(r, "brief"):
                raised = r
                break
            new_tr, st = r
            acc = st.get("accept", True)
            if bool(np.all(np.asarray(acc))):
                moved = _changed(old, new_tr.get_choices())
                break
        ctx.count(name + "_checks")
        if raised is not None:
            ctx.violation(f"{name}|raises:" + raised.type, {**detail0, **raised.brief()})
            continue
        if moved is None:
            ctx.count(name + "_never_accepted")
            continue
        got = {p for p, c in moved.items() if c == "all"}
        partial = {p for p, c in moved.items() if c in ("some", "missing")}
        if partial or got != set(ref):
            ctx.violation(
                f"{name}|moved-set-differs",
                {**detail0, "moved": _pathstr(got), "partially_moved": _pathstr(partial)},
            )
    if case.get("index", 0) % 97 == 0:
        ctx.sample({"kind": "gfi", **detail0})
