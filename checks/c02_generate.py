"""C02 — generate honours constraints and returns the proper importance weight.

For generated programs and constraint maps over subsets of the static address
set (none as None and {}, all, singles, random subsets - hence partial inside
Vmap/Scan/Cond sub-calls and whole sub-calls missing):

  constrained    constrained leaves are bit-equal to the constraint
  coherent       score == -reference density of the trace's choices; retval
  weight         == sum of reference log-probs of the constrained addresses given
                 the trace's parent values (== assess when all, == 0 when none)
  prior          probe sites: every unconstrained site fired with the reference
                 conditional parameters, no constrained site fired at all
  unbiased       discrete probe programs: exact E[exp(weight)] over all outcome
                 scripts == reference marginal of the constraints (enumeration),
                 and the exact law of the unconstrained part == conditional prior
"""

from __future__ import annotations

import math

import numpy as np

PROPERTY = "C02"
LEVEL = "exploration"
RULE = (
    "programs from the spec grammar, SeedSequence([VERIF_SEED, 2, index]); per program the constraint subsets "
    "none(None), none({}), all, up to 3 single addresses and 2-4 random subsets of the static leaf-address set; "
    "distinct_nontrivial = distinct (program structural hash, constrained-address subset) pairs on non-trivial "
    "programs with a proper non-empty subset"
)
ASSUMPTIONS = [
    "reference interpreter lib/refmodel.py (float64)",
    "JAX API translation layer (DESIGN §2)",
    "probe distributions' own log densities; both-branch choices read from CondTr.trs (observation hook)",
]
FLOORS = {
    "quick": {"generate_checks": 250, "weight_checks": 250, "event_matches": 200, "unbiased_instances": 10, "subset_none": 60, "subset_all": 30},
    "thorough": {"generate_checks": 2500, "weight_checks": 2500, "event_matches": 2000, "unbiased_instances": 80, "subset_none": 600, "subset_all": 300},
}
TIMEOUT_S = {"quick": 1500, "thorough": 5400}
CLEAR_CACHES_EVERY = {"quick": 0, "thorough": 6}  # see lib/worker.py
N_CASES = {"quick": 72, "thorough": 700}
FAMILY_CYCLE = ["mixed", "probe", "discrete", "builtin", "bare", "bare-discrete"]


def plan(tier, seed):
    return [{"family": FAMILY_CYCLE[i % len(FAMILY_CYCLE)], "gseed": [seed, 2, i]} for i in range(N_CASES[tier])]


def _subsets(paths, rng, tier):
    paths = sorted(paths)
    out = [("none", None), ("none{}", frozenset()), ("all", frozenset(paths))]
    k = len(paths)
    if k >= 2:
        singles = list(rng.permutation(k))[: 3 if tier == "quick" else 6]
        for i in singles:
            out.append(("single", frozenset([paths[int(i)]])))
        nr = 2 if tier == "quick" else 5
        seen = {s for _, s in out if s is not None}
        tries = 0
        while nr > 0 and tries < 30:
            tries += 1
            m = rng.random(k) < 0.5
            s = frozenset(p for p, b in zip(paths, m) if b)
            if s and s not in seen and len(s) < k:
                seen.add(s)
                out.append(("random", s))
                nr -= 1
    return out


def run_case(case, ctx):
    import jax
    from genjax import seed

    from lib import gfi, probes, spec
    from lib import refmodel as R

    tier = ctx.tier
    g, prog = gfi.make_case_program(case["gseed"], case["family"], tier)
    rng = np.random.default_rng(case["gseed"] + [77])
    ctx.evaluation()
    h = spec.struct_hash(prog)
    feats = spec.features(prog)
    base = {"program": spec.show(prog), "family": case["family"], "kinds": sorted(feats["kinds"])}
    gf = ctx.call(spec.build, prog)
    if hasattr(gf, "brief"):
        ctx.violation(gfi.raise_key("build", gf), {**base, **gf.brief()})
        return
    has_probe = any(d.startswith("p_") for d in feats["dists"])
    paths = list(spec.leaf_paths(prog))
    assess_jit = jax.jit(gf.assess)
    vals = g.arg_values(prog)
    args = spec.to_jax_args(prog, vals)
    sampled = False

    for kind, subset in _subsets(paths, rng, tier):
        ref0 = R.run(prog, vals, chooser=R.prior_chooser(rng, safe=True))
        if ref0.min_margin < 1e-4 or not math.isfinite(ref0.total):
            ctx.count("skipped_near_tie")
            continue
        if subset is None:
            cons_np, cons = None, None
        else:
            cons_np = R.restrict(ref0.choices, subset)
            cons = R.to_jax(cons_np)
        ctx.count("subset_" + kind.replace("{}", ""))
        if subset and len(subset) < len(paths) and spec.nontrivial(prog):
            ctx.distinct("nontrivial", [h, sorted(gfi.pstr(p) for p in subset)])
        d0 = {**base, "args": vals, "constraint_kind": kind,
              "constrained": sorted(gfi.pstr(p) for p in (subset or [])), "constraints": cons_np}
        gen_jit = jax.jit(lambda key, *a, _c=cons: seed(gf.generate)(key, _c, *a))
        for ki in range(2 if tier == "quick" else 3):
            key = jax.random.key(int(rng.integers(2**31)))
            probes.HOST.reset("observe", int(rng.integers(2**31)))
            res = ctx.call(gen_jit, key, *args)
            ctx.count("generate_checks")
            if hasattr(res, "brief"):
                ctx.violation(gfi.raise_key("generate", res), {**d0, **res.brief()})
                break
            events = list(probes.HOST.events)
            ok = ctx.call(_check_generate, ctx, prog, vals, args, res, events, subset, cons_np, d0, assess_jit, has_probe)
            if hasattr(ok, "brief"):
                ctx.violation(gfi.raise_key("generate-result", ok), {**d0, **ok.brief()})
                break
            if not ok:
                break
            if not sampled and subset and len(subset) < len(paths):
                sampled = True
                ctx.sample({"program": spec.show(prog), "args": vals, "constrained": d0["constrained"],
                            "weight": gfi.fnum(res[1]), "choices": R.to_numpy(res[0].get_choices())})
        # ------------------------------------------------ exact unbiasedness
        if case["family"] in ("discrete", "bare-discrete") and spec.all_discrete(prog) and kind in ("single", "random", "all", "none{}"):
            r = ctx.call(_check_unbiased, ctx, gen_jit, prog, vals, args, subset, cons_np, d0)
            if hasattr(r, "brief"):
                ctx.violation(gfi.raise_key("generate-law", r), {**d0, **r.brief()})


def _check_generate(ctx, prog, vals, args, res, events, subset, cons_np, d0, assess_fn, has_probe):
    from lib import gfi, spec
    from lib import refmodel as R

    tr, w = res
    status, ref = gfi.coherence(ctx, "generate", prog, vals, tr, d0, assess_fn, args)
    if status == "skip":
        return True
    if status == "bad":
        return False
    ch = R.to_numpy(tr.get_choices())
    d = {**d0, "choices": ch}
    # constrained values unchanged
    if subset:
        want = R.flat_leaves(cons_np)
        got = R.flat_leaves(ch)
        for p, v in want.items():
            if p not in got or np.shape(got[p]) != np.shape(v) or not np.array_equal(
                np.asarray(got[p]), np.asarray(v).astype(np.asarray(got[p]).dtype)
            ):
                ctx.violation("generate|constrained-value-changed", {**d, "path": gfi.pstr(p)})
                return False
    # weight
    by = ref.by_path()
    want_w = sum(by.get(p, 0.0) for p in (subset or []))
    abs_terms = sum(abs(s.logp) for s in ref.visible if s.path in (subset or ()))
    t = R.tol(abs_terms, max(1, len(subset or [])))
    ctx.count("weight_checks")
    if np.shape(w) != () or not (abs(float(w) - want_w) <= t):
        key = "generate|weight-differs"
        if not subset:
            key = "generate|weight-nonzero-without-constraints"
        elif len(subset) == len(by):
            key = "generate|weight-not-assess-when-all-constrained"
        ctx.violation(key, {**d, "weight": gfi.fnum(w), "reference_weight": want_w,
                            "reference_by_address": {gfi.pstr(p): v for p, v in by.items()}, "tol": t})
        return False
    ap = gfi.args_problem(tr, args)
    if ap is not None:
        ctx.violation("generate|get_args-differs" + ap, d)
        if not ap.endswith("recorded-per-lane"):
            return False
    # site events: unconstrained sites drawn from their conditional prior, constrained never sampled
    if has_probe:
        ghost = R.run(prog, vals, choices=R.full_choices(tr, prog))
        free = [s for s in ghost.sites if s.path not in (subset or ())]
        n, problems = gfi.match_events(free, events)
        ctx.count("event_matches", n)
        if problems:
            ctx.violation("generate|" + problems[0]["what"], {**d, "problem": problems[0]})
            return False
        fired = gfi.events_for_paths(prog, ghost.sites, events)
        for p in subset or []:
            if fired.get(p, 0):
                ctx.violation("generate|constrained-site-was-sampled", {**d, "path": gfi.pstr(p), "events": fired[p]})
                return False
    return True


def _check_unbiased(ctx, gen_jit, prog, vals, args, subset, cons_np, d0):
    import jax

    from lib import gfi, probes
    from lib import refmodel as R

    cap = 400 if ctx.tier == "quick" else 4096
    key = jax.random.key(0)
    mean_w = 0.0
    mass = {}
    rep = {}
    total = 0.0
    try:
        for (tr, w), prob, events in probes.explore(lambda: gen_jit(key, *args), max_leaves=cap):
            mean_w += prob * math.exp(float(w))
            total += prob
            ch = R.to_numpy(tr.get_choices())
            k = gfi.choice_key(ch)
            mass[k] = mass.get(k, 0.0) + prob
            rep.setdefault(k, ch)
    except probes.TooManyLeaves:
        ctx.count("unbiased_skipped_too_large")
        return
    # reference marginal of the constraints by enumeration of all completions
    try:
        marg = 0.0
        for res in gfi.enumerate_ref(prog, vals, choices=cons_np or {}):
            if res.min_margin < 1e-4:
                ctx.count("skipped_near_tie")
                return
            marg += math.exp(res.total)
    except OverflowError:
        ctx.count("unbiased_skipped_too_large")
        return
    ctx.count("unbiased_instances")
    ctx.count("unbiased_scripts", len(mass))
    d = {**d0, "scripts_total_mass": total, "distinct_outcomes": len(mass)}
    if abs(total - 1.0) > 1e-6:
        ctx.violation("generate-law|script-mass-not-1", d)
        return
    if abs(mean_w - marg) > 1e-6 + 2e-5 * marg:
        ctx.violation("generate-law|E[exp(weight)]-not-marginal", {**d, "E_exp_weight": mean_w, "reference_marginal": marg})
        return
    # law of the unconstrained part = conditional prior given parents
    for k, m in mass.items():
        ref = R.run(prog, vals, choices=rep[k])
        by = ref.by_path()
        q = math.exp(sum(v for p, v in by.items() if p not in (subset or ())))
        if abs(m - q) > 1e-6 + 2e-5 * q:
            ctx.violation("generate-law|unconstrained-part-not-conditional-prior",
                          {**d, "choices": rep[k], "generate_mass": m, "reference_mass": q})
            return
    ctx.sample({"kind": "exact-unbiasedness", "program": d0["program"], "constrained": d0["constrained"],
                "E_exp_weight": mean_w, "reference_marginal": marg, "outcomes": len(mass), "exhaustive": True})
