#!/bin/sh
# tools/upstream_suite.sh [pytest args]: run /repo's own test suite against the translated copy of the current working tree
# (smoke workload: 265+ tests that cannot run on the untranslated tree in this sandbox).
B=$(mktemp -d /tmp/verif_up_XXXX)
/venv/bin/python /verif/lib/build.py $B >/dev/null || exit 3
cd /repo && PYTHONPATH=$B JAX_PLATFORMS=cpu /venv/bin/python -m pytest -q -p no:cacheprovider --no-cov --timeout=1800 -n 12 \
  --ignore=tests/test_air_example.py --ignore=tests/test_cone_example.py --ignore=tests/test_benchmarks.py --ignore=tests/test_simple_benchmark.py "$@" tests 2>&1 | tail -15
rc=$?
rm -rf $B
exit $rc
