#!/venv/bin/python
"""mkmutant.py NAME FILE <<< python-literal list of (old, new) pairs on stdin.
Writes /verif/mutants/NAME.patch (unified diff, -p1 relative to the repo root)."""
import ast, difflib, os, sys

name, rel = sys.argv[1], sys.argv[2]
pairs = ast.literal_eval(sys.stdin.read())
repo = os.environ.get("VERIF_REPO", "/repo")
path = os.path.join(repo, rel)
src = open(path).read()
new = src
for old, rep in pairs:
    if new.count(old) != 1:
        sys.exit(f"{name}: pattern occurs {new.count(old)} times: {old[:60]!r}")
    new = new.replace(old, rep)
diff = "".join(difflib.unified_diff(src.splitlines(True), new.splitlines(True), "a/" + rel, "b/" + rel))
out = os.path.join(os.path.dirname(os.path.dirname(os.path.abspath(__file__))), "mutants", name + ".patch")
open(out, "w").write(diff)
print("wrote", out, len(diff.splitlines()), "lines")
