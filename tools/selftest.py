#!/venv/bin/python
"""Apply each mutant patch to a scratch copy of /repo/src and run the owning
property's quick check against it (VERIF_REPO); expect exit 1 + VIOLATION.

usage: tools/selftest.py [--workers N] [--tier quick] [PATTERN ...]   (patterns match mutant file names)
"""
import fnmatch, glob, json, os, shutil, subprocess, sys, tempfile, time

VERIF = os.path.dirname(os.path.dirname(os.path.abspath(__file__)))


def main():
    args = sys.argv[1:]
    workers = "8"
    tier = "quick"
    pats = []
    i = 0
    while i < len(args):
        if args[i] == "--workers":
            workers = args[i + 1]; i += 2
        elif args[i] == "--tier":
            tier = args[i + 1]; i += 2
        else:
            pats.append(args[i]); i += 1
    files = sorted(glob.glob(os.path.join(VERIF, "mutants", "*.patch")))
    # seeded changes: seeded/<id>/patch.diff; pattern "seeded:<id>[@Cxx]" runs check Cxx (default: the id's property)
    jobs = []
    for p in list(pats):
        if p.startswith("seeded:"):
            pats.remove(p)
            sid, _, prop = p[len("seeded:"):].partition("@")
            jobs.append((os.path.join(VERIF, "seeded", sid, "patch.diff"), prop or sid.split("_")[0], f"seeded/{sid}@{prop or sid.split('_')[0]}"))
    if pats or not jobs:
        sel = [f for f in files if not pats or any(fnmatch.fnmatch(os.path.basename(f), "*" + p + "*") for p in pats)]
        jobs += [(f, os.path.basename(f).split("_")[0], os.path.basename(f)) for f in sel]
    results = []
    for f, prop, base in jobs:
        tmp = tempfile.mkdtemp(prefix="verif_mut_")
        try:
            shutil.copytree("/repo/src", os.path.join(tmp, "src"), ignore=shutil.ignore_patterns("__pycache__"))
            r = subprocess.run(["patch", "-p1", "-s", "-i", f], cwd=tmp, capture_output=True, text=True)
            if r.returncode != 0:
                results.append((base, "PATCH-FAILED", r.stdout[-300:] + r.stderr[-300:]))
                print(base, "PATCH-FAILED", flush=True)
                continue
            env = dict(os.environ, VERIF_REPO=tmp)
            t0 = time.time()
            r = subprocess.run([os.path.join(VERIF, "check"), prop, "--tier", tier, "--no-evidence", "--workers", workers],
                               env=env, capture_output=True, text=True)
            keys = sorted({l.strip()[4:].split(" occurrences")[0] for l in r.stdout.splitlines() if l.strip().startswith("key=")})
            status = {0: "MISSED", 1: "CAUGHT", 2: "INCONCLUSIVE", 3: "BROKEN"}.get(r.returncode, str(r.returncode))
            results.append((base, status, keys[:4]))
            print(f"{base}: {status} in {time.time()-t0:.0f}s {keys[:4]}", flush=True)
        finally:
            shutil.rmtree(tmp, ignore_errors=True)
    with open(os.path.join(VERIF, "mutants", "RESULTS.json"), "a") as fo:
        fo.write(json.dumps({"at": time.strftime("%F %T"), "tier": tier, "results": results}) + "\n")
    bad = [r for r in results if r[1] != "CAUGHT"]
    print(f"{len(results) - len(bad)}/{len(results)} caught")
    return 1 if bad else 0


if __name__ == "__main__":
    sys.exit(main())
