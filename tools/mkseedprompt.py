#!/venv/bin/python
"""tools/mkseedprompt.py <Cxx> <suffix> [hint...] -> creates worktree /tmp/wt_<Cxx>_<suffix> and prints the sub-agent prompt."""
import json, subprocess, sys
pid, suf = sys.argv[1], sys.argv[2]
hint = " ".join(sys.argv[3:])
props = {}
for l in open("/verif/properties.jsonl"):
    p = json.loads(l); props[p["id"]] = p
p = props[pid]
wt = f"/tmp/wt_{pid}_{suf}"
subprocess.run(["git", "-C", "/repo", "worktree", "remove", "--force", wt], capture_output=True)
subprocess.run(["rm", "-rf", wt])
subprocess.run(["git", "-C", "/repo", "worktree", "add", "-q", "--detach", wt, "HEAD"], check=True)
print(f"""You are a software engineer asked to produce a REALISTIC SEMANTIC BUG for a testing-robustness study of the Python library genjax (a JAX-based probabilistic programming language). You work ONLY inside the git worktree {wt} (a checkout of the library; source under {wt}/src/genjax). Do not read or touch /verif or /repo. Read /tmp/gjrun/README.md first: it explains how to run genjax in this sandbox (the library needs a translated copy to run on the installed JAX; build it into a scratch dir of your own such as /tmp/b_{pid}_{suf}) and how to run the repository's runnable baseline tests.

The property your change must BREAK (statement of intended behaviour):

  Title: {p['title']}
  Statement: {p['statement']}
  Scope: {p['quantifier']['text']}

Task: make ONE small change to the library source (a plausible slip a developer could make: wrong variable, stale value, off-by-one, swapped arguments, missing term, wrong axis, mishandled special case...) such that
  1. the library still imports and the runnable baseline tests listed in the README still pass;
  2. the property above is violated, but NOT in a way ordinary use would expose at once: it should need something specific to manifest - a particular program structure (e.g. only with a combinator nested in another, only with array-valued choices, only for a non-leading axis), a multi-step sequence of operations, an unusual input, a particular ordering of calls, or two cooperating sites that each look fine alone. Avoid changes that break every call.{(' ' + hint) if hint else ''}
  3. you demonstrate it: write {wt}/demo.py, a small self-contained script (run with the translated copy as the README explains) that exits 0 on the UNMODIFIED library and exits 1 (printing what differs) with your change. Verify both (use `git diff -- src > patch.diff; git checkout -- src` and `git apply patch.diff` to switch; rebuild the translated copy each time).
Deliver in {wt}/: patch.diff (output of `git diff -- src`, applying with `git apply` at the repo root), demo.py, and notes.md (3-10 lines: what you changed, why it breaks the property, exactly what is needed for it to manifest, the commands you ran and their exit codes). Leave the worktree with the change applied. Remove any scratch build directories you created under /tmp when done. Keep CPU use modest (no long sweeps; a demo should run in under two minutes). Your final message: the contents of notes.md.""")
