#!/bin/sh
# tools/verify_seeded.sh <name> <dir-with-patch.diff-and-demo.py>
# Confirms in a fresh scratch worktree: demo exits 0 without the patch, 1 with it; the 41 baseline tests pass with it.
set -u
NAME=$1; SRC=$2
WT=/tmp/vs_$NAME; B=/tmp/vs_${NAME}_build
git -C /repo worktree remove --force $WT 2>/dev/null; rm -rf $WT $B
git -C /repo worktree add -q --detach $WT HEAD || exit 3
run_demo() { rm -rf $B; VERIF_REPO=$WT /venv/bin/python /verif/lib/build.py $B >/dev/null && (cd $WT && PYTHONPATH=$B JAX_PLATFORMS=cpu timeout 1800 /venv/bin/python $SRC/demo.py >/tmp/vs_$NAME.out 2>&1; echo $?); }
A=$(run_demo)
(cd $WT && git apply $SRC/patch.diff) || { echo "patch does not apply"; exit 3; }
Bc=$(run_demo)
BASE=$(cd $WT && /venv/bin/python - <<PY
import json, subprocess, sys
b = json.load(open("/root/.vp/BASELINE.json"))
ids = []
for t in b["stable_pass"]:
    mod, rest = t.split("::", 1); parts = mod.split(".")
    ids.append("::".join([parts[0] + "/" + parts[1] + ".py"] + parts[2:] + [rest]))
import os
env = dict(os.environ, PYTHONPATH=os.path.join(os.getcwd(), "src"))  # import the worktree's genjax, not the installed /repo
r = subprocess.run(["/venv/bin/python", "-m", "pytest", "-q", "-p", "no:cacheprovider", "--no-cov", "--timeout=900", "-n", "6", *ids], capture_output=True, text=True, env=env)
print(r.stdout.strip().splitlines()[-1])
PY
)
echo "$NAME: demo without patch exit=$A, with patch exit=$Bc; baseline with patch: $BASE"
git -C /repo worktree remove --force $WT; rm -rf $B
