#!/venv/bin/python
"""Self-tests of the harness' own reference code (run by MANIFEST.setup_cmd).
No genjax / jax import: pure reference-side checks."""
import os
import sys

sys.path.insert(0, os.path.dirname(os.path.dirname(os.path.abspath(__file__))))


def test_selspec():
    from lib import selspec as S

    leaves = [("a", "b"), ("a", "c"), ("d",)]
    assert S.ref_set(["not", ["tup", ["a", "b"]]], leaves) == {("a", "c"), ("d",)}
    assert S.ref_set(["and", ["str", "a"], ["not", ["tup", ["a", "b"]]]], leaves) == {("a", "c")}
    assert S.ref_set(["tup", ["d", "z"]], leaves) == set()
    assert S.ref_set(["dict", {"a": ["str", "b"]}], leaves) == {("a", "b")}
    assert S.ref_set(["all"], leaves) == set(leaves)
    assert S.ref_set(["none"], leaves) == set()


def main():
    n = 0
    for name, fn in sorted(globals().items()):
        if name.startswith("test_") and callable(fn):
            fn()
            n += 1
    for modname in ("lib.refdist", "lib.refmodel", "lib.stats"):
        try:
            mod = __import__(modname, fromlist=["selftest"])
        except ImportError:
            continue
        if hasattr(mod, "selftest"):
            mod.selftest()
            n += 1
    print(f"harness self-tests passed ({n})")


if __name__ == "__main__":
    main()
