#!/venv/bin/python
"""Run exactly the 41 stable baseline tests of /root/.vp/BASELINE.json against /repo (guard off)."""
import json, subprocess, sys, re
b = json.load(open("/root/.vp/BASELINE.json"))
ids = []
for t in b["stable_pass"]:
    mod, rest = t.split("::", 1)
    parts = mod.split(".")
    # tests.test_core.TestX -> tests/test_core.py::TestX
    path = parts[0] + "/" + parts[1] + ".py"
    cls = parts[2:]
    ids.append("::".join([path] + cls + [rest]))
r = subprocess.run(["/venv/bin/python", "-m", "pytest", "-q", "-p", "no:cacheprovider", "--no-cov", "--timeout=900", "-n", "8", *ids], cwd="/repo")
sys.exit(r.returncode)
