#!/bin/sh
# tools/keep_seeded.sh <Cxx_n> ["needs" text] : copy the agent's deliverables from /tmp/wt_<Cxx_n> into seeded/<Cxx_n>/,
# confirm them in a fresh worktree (verify_seeded.sh), write meta.json, remove the agent's worktree.
set -u
ID=$1
WT=/tmp/wt_$ID
D=/verif/seeded/$ID
mkdir -p $D
cp $WT/patch.diff $WT/demo.py $WT/notes.md $D/ || exit 3
OUT=$(sh /verif/tools/verify_seeded.sh $ID $D 2>&1 | tail -1)
echo "$OUT"
/venv/bin/python - "$ID" "$OUT" <<'PY'
import json, sys, re
sid, out = sys.argv[1], sys.argv[2]
d = f"/verif/seeded/{sid}"
notes = open(d + "/notes.md").read()
ok = "without patch exit=0, with patch exit=1" in out and " passed" in out and "failed" not in out
meta = {"property": sid.split("_")[0], "breaks": "", "needs": "", 
        "origin": "fresh sub-agent given only the property text and a scratch worktree (prompt generator: tools/mkseedprompt.py, environment note: tools/seeded_env_README.md)",
        "confirmed": ("tools/verify_seeded.sh (fresh worktree of /repo HEAD): " + out) , "confirmed_ok": ok}
json.dump(meta, open(d + "/meta.json", "w"), indent=1)
PY
git -C /repo worktree remove --force $WT 2>/dev/null; rm -rf $WT
