#!/venv/bin/python
"""Regenerate /verif/MANIFEST.json from the table below and validate it."""
import glob
import json
import os
import sys

VERIF = os.path.dirname(os.path.dirname(os.path.abspath(__file__)))

TRUST = (
    "Trusted base: the JAX-0.11 API translation layer (lib/build.py, lib/vcompat.py; exact string rewrites of 14 "
    "lines + 5 namespace shims, everything else is /repo's own text), numpy/scipy float64 as reference arithmetic, "
    "CPU backend, default float32."
)

# property -> (category, technique, text, design_ref, extra note)
CHECKS = {
    "C16": (
        "exploration",
        "runtime monitor: set-of-leaf-paths reference model over enumerated selection expressions; observed resample/move sets",
        "Every enumerated/sampled selection expression is executed against the real match chain, Fn/Vmap/Scan/Cond filter "
        "and merge, seed(regenerate), mala and hmc, and compared with an independent Python-set interpretation of the "
        "expression; atoms and depth-1 expressions are enumerated completely, deeper ones sampled. Held = no disagreement "
        "on the executions listed in evidence.",
        "DESIGN §4 C16",
        "",
    ),
}

NOT_YET = "check not built yet in this session (in progress; see DESIGN §4b build order)"


def main():
    props = [json.loads(l)["id"] for l in open(os.path.join(VERIF, "properties.jsonl"))]
    checks = []
    na = []
    for p in props:
        have = glob.glob(os.path.join(VERIF, "checks", p.lower() + "_*.py"))
        if p in CHECKS and have:
            cat, tech, text, ref, note = CHECKS[p]
            checks.append(
                {
                    "property_id": p,
                    "quick_cmd": f"./check {p} --tier quick",
                    "thorough_cmd": f"./check {p} --tier thorough",
                    "evidence_file": f"/verif/evidence/{p}.json",
                    "replay_cmd_template": f"./check {p} --replay {{path}}",
                    "engine": "genjax-runtime-monitor",
                    "level_claimed": {"category": cat, "text": text, "design_ref": ref},
                    "level_note": (note + " " if note else "") + TRUST,
                    "technique": tech,
                }
            )
        else:
            na.append({"property_id": p, "reason": NOT_YET})
    m = {
        "version": 1,
        "setup_cmd": "/venv/bin/python -m compileall -q lib checks tools && /venv/bin/python tools/selftest_harness.py",
        "hooks": {
            "guard": "GENJAX_VERIF",
            "enable": "none needed: all monitors attach from outside (probe distributions, module-attribute hooks); "
            "checks run a translated copy of /repo/src/genjax built per run by lib/build.py",
            "baseline_off_cmd": "cd /repo && /venv/bin/python -m pytest -ra -q -p no:cacheprovider --timeout=900 "
            "--continue-on-collection-errors",
            "source_commits": [],
            "add_only": True,
        },
        "engines": [
            {
                "name": "genjax-runtime-monitor",
                "path": "/verif/check",
                "serves_properties": [c["property_id"] for c in checks],
                "kind_free_text": "runtime monitoring: generated workloads executed on the real code (translated copy), "
                "probe sites / hooks record events, independent reference models decide",
            }
        ],
        "checks": checks,
        "not_applicable": na,
        "notes": "Verdicts: exit 0 held / exit 1 VIOLATION / exit 2 INCONCLUSIVE (monitor floor not reached) / exit 3 "
        "BROKEN (harness error). Known findings: /verif/known_findings.json. See DESIGN.md.",
    }
    with open(os.path.join(VERIF, "MANIFEST.json"), "w") as f:
        json.dump(m, f, indent=1)
    try:
        import jsonschema

        jsonschema.validate(m, json.load(open("/root/.vp/MANIFEST.schema.json")))
        print("MANIFEST valid;", len(checks), "checks,", len(na), "not claimed")
    except ImportError:
        print("jsonschema not available; wrote MANIFEST without validation")


if __name__ == "__main__":
    sys.exit(main())
